---------------------------- MODULE Trace_Species ----------------------------
(***************************************************************************)
(* Trace validation for Species.tla: molecules built by the real           *)
(* Molecule(MoleculeTop, residues) from topologies and coordinate sides of *)
(* realistic size, compared with == and asked for their bond table; TLC    *)
(* evaluates Match / Eq / BondTable on the logged inputs.                  *)
(***************************************************************************)
EXTENDS Species, Json, IOUtils, TLCExt
Traces == ndJsonDeserialize(IOEnv.TRACE_FILE)
VARIABLES tid, l
Ev == Traces[tid].ev
Clause(name, e) == IF e THEN TRUE ELSE PrintT(<<"FAIL", Traces[tid].tid, l, name>>) /\ FALSE
IsOp(o) == l <= Len(Ev) /\ Ev[l].op = o /\ l' = l + 1 /\ UNCHANGED <<tid, hist>>
ToTop(j) == [name |-> j.name, atoms |-> [k \in 1..Len(j.atoms) |-> <<j.atoms[k][1], j.atoms[k][2], j.atoms[k][3]>>],
             bonds |-> {{j.bonds[b][1], j.bonds[b][2]} : b \in 1..Len(j.bonds)}]
ToFlat(j) == [k \in 1..Len(j) |-> <<j[k][1], j[k][2], j[k][3]>>]
TraceInit == tid \in 1..Len(Traces) /\ l = 1 /\ mols = <<>> /\ hist = <<>>
TrBuild == /\ IsOp("build")
           /\ LET t == ToTop(Ev[l].top)
                  f == ToFlat(Ev[l].flat)
              IN /\ Clause("built_iff_sides_match", (Ev[l].out = "ok") = Match(t, f))
                 /\ Clause("refused_with_IOError", Match(t, f) \/ Ev[l].out = "IOError")
                 /\ (Match(t, f) /\ Ev[l].out = "ok") =>
                      /\ Clause("residues_cut_at_name_or_number_changes", Ev[l].nres = Cardinality(Cuts(f)))
                      /\ Clause("bond_table_lists_the_bonded_positions",
                                LET T == BondTable(t) IN
                                /\ {Ev[l].table[i][1] : i \in 1..Len(Ev[l].table)} = DOMAIN T
                                /\ \A i \in 1..Len(Ev[l].table) : {Ev[l].table[i][2][q] : q \in 1..Len(Ev[l].table[i][2])} = T[Ev[l].table[i][1]])
                      /\ Clause("bond_lengths_are_the_distances", Ev[l].lengths_ok)
                      /\ Clause("atoms_found_at_their_positions", Ev[l].index_ok)
                 /\ mols' = IF Match(t, f) THEN Append(mols, [top |-> t, flat |-> f]) ELSE mols
TrCompare == /\ IsOp("compare") /\ UNCHANGED mols
             /\ LET a == mols[Ev[l].i]
                    b == mols[Ev[l].j]
                IN /\ Clause("equal_iff_same_species", Ev[l].eq = Eq(a, b))
                   /\ Clause("equality_symmetric", Ev[l].eq = Ev[l].qe)
                   /\ Clause("unequal_is_not_equal", Ev[l].ne = ~Ev[l].eq)
TraceNext == TrBuild \/ TrCompare
TraceSpec == TraceInit /\ [][TraceNext]_<<vars, tid, l>>
Accepted == (l = Len(Ev) + 1) => PrintT(<<"ACC", Traces[tid].tid>>)
=============================================================================
