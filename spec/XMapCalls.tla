----------------------------- MODULE XMapCalls -----------------------------
(***************************************************************************)
(* Calling an exchange map: purity, history independence, species check.   *)
(*                                                                         *)
(* Objects 1 = R0 and 2 = T0 (the molecules the map is built from; the map *)
(* REFERENCES them, as the code does), 3..2+NArgs the argument molecules   *)
(* (conformations of the reference species), later objects = results.      *)
(* A conformation is a token <<0, k, 0, 0>> (atomic, number k) or          *)
(* <<1, r, t, a>> = F(r, t, a): the image of argument conformation a under *)
(* the map built from reference conformation r and target conformation t   *)
(* - an uninterpreted function, evaluated by the harness with a FRESH map  *)
(* built from pristine copies (the oracle the property names).             *)
(* The map keeps snap = <<r, t>> taken at construction (projections and    *)
(* anchor assignment are computed once) and frames = the conformation      *)
(* whose per-anchor frames it currently holds (overwritten by every call). *)
(***************************************************************************)
EXTENDS Integers, Sequences, FiniteSets, TLC

CONSTANTS NArgs, MaxObjs, MaxOps
VARIABLES kind,     \* sequence: "R0" | "T0" | "arg" | "res"
          coord,    \* sequence of conformation tokens
          rids,     \* sequence of residue-number tokens
          built, snap, frames,
          fresh,    \* next unused atomic number
          hist      \* history: [op, o, bad, coord, rids] after each operation
xvars == <<kind, coord, rids, built, snap, frames, fresh, hist>>

Atomic(k) == <<0, k, 0, 0>>
F(r, t, a) == <<1, r, t, a>>
N == Len(kind)
RefLike == {o \in 1..N : kind[o] \in {"R0", "arg"}}

Init == /\ kind = <<"R0", "T0">> \o [i \in 1..NArgs |-> "arg"]
        /\ coord = [i \in 1..(2 + NArgs) |-> Atomic(i)]
        /\ rids = [i \in 1..(2 + NArgs) |-> i]
        /\ built = FALSE /\ snap = <<0, 0>> /\ frames = 0
        /\ fresh = 3 + NArgs /\ hist = <<>>

Log(op, o, bad, c, r) == Len(hist) < MaxOps /\ hist' = Append(hist, [op |-> op, o |-> o, bad |-> bad, coord |-> c, rids |-> r])

Build == /\ ~built /\ built' = TRUE
         /\ snap' = <<coord[1][2], coord[2][2]>>
         /\ frames' = coord[1][2]
         /\ UNCHANGED <<kind, coord, rids, fresh>>
         /\ Log("Build", 0, "", coord, rids)

(* a valid call: a NEW object with the image conformation, the target's identity, the argument's
   residue numbers; nothing else changes *)
Call(o) == /\ built /\ o \in RefLike /\ N < MaxObjs
           /\ coord[o][1] = 0
           /\ kind' = Append(kind, "res")
           /\ coord' = Append(coord, F(snap[1], snap[2], coord[o][2]))
           /\ rids' = Append(rids, rids[o])
           /\ frames' = coord[o][2]
           /\ UNCHANGED <<built, snap, fresh>>
           /\ Log("Call", o, "", coord', rids')

(* an argument of another species (the target molecule, a previous result, a homologue of the reference with
   the same name and leading atoms but one atom more / less) or not a molecule: TypeError, the map and every
   object unchanged *)
BadKinds == {"target", "result", "nonmol", "longer", "shorter"}
CallBad(b) == /\ built /\ b \in BadKinds
              /\ (b = "result" => \E o \in 1..N : kind[o] = "res")
              /\ UNCHANGED <<kind, coord, rids, built, snap, frames, fresh>>
              /\ Log("CallBad", 0, b, coord, rids)

MutC(o) == /\ o \in 1..N
           /\ coord' = [coord EXCEPT ![o] = Atomic(fresh)]
           /\ fresh' = fresh + 1
           /\ UNCHANGED <<kind, rids, built, snap, frames>>
           /\ Log("MutC", o, "", coord', rids)
MutR(o) == /\ o \in RefLike
           /\ rids' = [rids EXCEPT ![o] = fresh]
           /\ fresh' = fresh + 1
           /\ UNCHANGED <<kind, coord, built, snap, frames>>
           /\ Log("MutR", o, "", coord, rids')

DoCall == \E o \in 1..N : Call(o)
DoMutC == \E o \in 1..N : MutC(o)
DoMutR == \E o \in 1..N : MutR(o)
DoCallBad == \E b \in BadKinds : CallBad(b)
Next == Build \/ DoCall \/ DoMutC \/ DoMutR \/ DoCallBad
Spec == Init /\ [][Next]_xvars

(* ---- what the property says, as invariants / action properties of the model ----------------- *)
(* every result is the image, under the construction-time snapshot, of the conformation its
   argument had when it was mapped - whatever happened before or after *)
ResultsAreImages == \A o \in 1..N : (kind[o] = "res" /\ coord[o][1] = 1) => (coord[o][2] = snap[1] /\ coord[o][3] = snap[2])
(* the frames the map holds after a call are those of that call's argument (why history cannot leak) *)
FramesOfLastCall == (Len(hist) > 0 /\ hist[Len(hist)].op = "Call") => coord[N][4] = frames
(* an operation changes only the object it names; a call and a rejected call change no existing object *)
WriteFrame == [][\A o \in 1..N : (coord'[o] # coord[o] \/ rids'[o] # rids[o]) =>
                    (hist'[Len(hist')].op \in {"MutC", "MutR"} /\ hist'[Len(hist')].o = o)]_xvars
RejectedChangesNothing == [][(hist' # hist /\ hist'[Len(hist')].op = "CallBad") =>
                                UNCHANGED <<kind, coord, rids, built, snap, frames>>]_xvars
SnapFixed == [][built => snap' = snap]_xvars
=============================================================================
