--------------------------- MODULE ApaMonteCarlo ---------------------------
(* Typed copy of the MonteCarlo.tla core for Apalache: unbounded measures (Int), unbounded budget,
   inductive invariant IndInv.  Checked as: Init => IndInv (length 0) and IndInv /\ Next => IndInv' (length 1). *)
EXTENDS Integers

VARIABLES
  \* @type: Int;
  nSteps,
  \* @type: Set(Int);
  types,
  \* @type: Str;
  pc,
  \* @type: Int;
  held,
  \* @type: Int;
  heldE,
  \* @type: Int;
  minE,
  \* @type: Int;
  counter,
  \* @type: Int;
  kind,
  \* @type: Int;
  test,
  \* @type: Int;
  newE,
  \* @type: Int;
  ret

Init == /\ nSteps \in Nat /\ types \in SUBSET {0, 1, 2} /\ types # {} /\ pc = "start" /\ held = 0 /\ heldE = 0 /\ minE = 0
        /\ counter = 0 /\ kind = 0 /\ test = 0 /\ newE = 0 /\ ret = 0

Start == \E t \in Nat, e \in Int :
         /\ pc = "start" /\ t > 0
         /\ held' = t /\ heldE' = e /\ minE' = e /\ counter' = 0 /\ pc' = "choose"
         /\ UNCHANGED <<nSteps, types, kind, test, newE, ret>>
Choose == \E k \in types :
          /\ pc = "choose" /\ counter < nSteps
          /\ kind' = k /\ pc' = "eval"
          /\ UNCHANGED <<nSteps, types, held, heldE, minE, counter, test, newE, ret>>
Evaluate == \E t \in Nat, e \in Int :
            /\ pc = "eval" /\ t > 0 /\ test' = t /\ newE' = e /\ pc' = "judge"
            /\ UNCHANGED <<nSteps, types, held, heldE, minE, counter, kind, ret>>
Accept == /\ held' = test /\ heldE' = newE
          /\ IF newE < minE THEN minE' = newE /\ counter' = 0 ELSE minE' = minE /\ counter' = counter + 1
Reject == /\ UNCHANGED <<held, heldE, minE>> /\ counter' = counter + 1
JudgeBetter == /\ pc = "judge" /\ newE <= heldE /\ Accept /\ pc' = "choose"
               /\ UNCHANGED <<nSteps, types, kind, test, newE, ret>>
JudgeWorse == \E acc \in BOOLEAN :
              /\ pc = "judge" /\ newE > heldE /\ (IF acc THEN Accept ELSE Reject) /\ pc' = "choose"
              /\ UNCHANGED <<nSteps, types, kind, test, newE, ret>>
Stop == /\ pc = "choose" /\ counter = nSteps /\ ret' = held /\ pc' = "done"
        /\ UNCHANGED <<nSteps, types, held, heldE, minE, counter, kind, test, newE>>
Next == Start \/ Choose \/ Evaluate \/ JudgeBetter \/ JudgeWorse \/ Stop

TypeOK == /\ nSteps \in Nat /\ types \in SUBSET {0, 1, 2} /\ types # {}
          /\ pc \in {"start", "choose", "eval", "judge", "done"}
          /\ counter \in Nat
IndInv == /\ TypeOK
          /\ counter <= nSteps                                   \* never a step beyond the budget
          /\ (pc \in {"eval", "judge"} => counter < nSteps)      \* a step is only under way while budget is left
          /\ (pc # "start" => minE <= heldE)                     \* the lowest measure is a lower bound of the held one
          /\ (pc \in {"eval", "judge"} => kind \in types)        \* only enabled kinds are proposed
          /\ (pc = "done" => counter = nSteps /\ ret = held)     \* exact stop, returns the held configuration
IndInit == /\ nSteps \in Nat /\ types \in SUBSET {0, 1, 2} /\ pc \in {"start", "choose", "eval", "judge", "done"}
           /\ held \in Int /\ heldE \in Int /\ minE \in Int /\ counter \in Nat /\ kind \in Int /\ test \in Int
           /\ newE \in Int /\ ret \in Int
           /\ IndInv
=============================================================================
