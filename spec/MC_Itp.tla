------------------------------ MODULE MC_Itp ------------------------------
EXTENDS Itp
CONSTANTS Tier
E == <<>>
Palette == { L("sec", <<"angles">>, E), L("sec", <<"dihedrals">>, E),
             L("cont", <<"1", "2">>, E),
             L("cont", <<"3", "4", "1">>, <<<<"first">>>>),
             L("cont", <<"5", "6">>, <<E>>),                      \* empty trailing comment
             L("cont", <<"7", "8">>, <<E, <<"note">>>>),          \* empty comment followed by a comment
             L("cont", <<"9", "1">>, <<<<"x">>, <<"y", "z">>>>),  \* two trailing comments
             L("comm", E, <<<<"only", "comment">>>>),
             L("comm", E, <<E>>),                                  \* lone ';'
             L("blank", E, E),
             L("pre", <<"#ifdef", "FLEX">>, E) }
MaxLen == IF Tier = "quick" THEN 4 ELSE 5
MC_Files == UNION {[1..n -> Palette] : n \in 1..MaxLen}
=============================================================================
