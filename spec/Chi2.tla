-------------------------------- MODULE Chi2 --------------------------------
(***************************************************************************)
(* The overlap measure of gaddlemaps (Chi2Calculator) on integer lattices. *)
(*                                                                         *)
(* fixed, mobile : sequences of lattice points; restr : sequence of pairs  *)
(* <<i, j>> (1-based: fixed atom i, mobile atom j).                        *)
(*                                                                         *)
(* Abs (the reference definition): the value is S * 1.1^k with             *)
(*   S = sum over restrained pairs of |f_i - m_j|^2                        *)
(*     + sum over unrestrained fixed atoms of min_j |f_i - m_j|^2          *)
(*   k = number of mobile atoms that are neither restrained nor the        *)
(*       nearest mobile atom of some unrestrained fixed atom.              *)
(* Where an unrestrained fixed atom has several nearest mobile atoms the   *)
(* definition leaves the choice open: AbsSet is the set of all <<S, k>>.   *)
(* Alg (the implementation): three code paths chosen at construction       *)
(* (no restraints / some / every fixed atom restrained), first-index       *)
(* argmin, cached mask and mobile length.                                  *)
(***************************************************************************)
EXTENDS Integers, Sequences, FiniteSets, TLC

CONSTANTS Cases     \* set of [fixed, mobile, restr]

Dot(u, v) == u[1] * v[1] + u[2] * v[2] + u[3] * v[3]
Sub(u, v) == <<u[1] - v[1], u[2] - v[2], u[3] - v[3]>>
D2(u, v) == Dot(Sub(u, v), Sub(u, v))

RestrFixed(c) == {c.restr[i][1] : i \in 1..Len(c.restr)}
RestrMobile(c) == {c.restr[i][2] : i \in 1..Len(c.restr)}
Unrestr(c) == (1..Len(c.fixed)) \ RestrFixed(c)
RECURSIVE SumSeq(_)
SumSeq(s) == IF Len(s) = 0 THEN 0 ELSE s[1] + SumSeq(Tail(s))
RestrSum(c) == SumSeq([i \in 1..Len(c.restr) |-> D2(c.fixed[c.restr[i][1]], c.mobile[c.restr[i][2]])])
MinD2(c, i) == LET S == {D2(c.fixed[i], c.mobile[j]) : j \in 1..Len(c.mobile)} IN CHOOSE x \in S : \A y \in S : x <= y
NearestSet(c, i) == {j \in 1..Len(c.mobile) : D2(c.fixed[i], c.mobile[j]) = MinD2(c, i)}
RECURSIVE SumSet(_, _)
SumSet(c, I) == IF I = {} THEN 0 ELSE LET i == CHOOSE x \in I : TRUE IN MinD2(c, i) + SumSet(c, I \ {i})
SVal(c) == RestrSum(c) + SumSet(c, Unrestr(c))
(* all ways of picking one nearest mobile atom per unrestrained fixed atom: the sets of mobile atoms
   that can end up "used" (restrained or chosen nearest) *)
RECURSIVE UsedSets(_, _, _)
UsedSets(c, rows, acc) == IF rows = {} THEN {acc}
                          ELSE LET i == CHOOSE x \in rows : TRUE
                               IN UNION {UsedSets(c, rows \ {i}, acc \cup {j}) : j \in NearestSet(c, i)}
AbsSet(c) == {<<SVal(c), Len(c.mobile) - Cardinality(U)>> : U \in UsedSets(c, Unrestr(c), RestrMobile(c))}

(* ---- Alg ------------------------------------------------------------------------------------ *)
Path(c) == IF Len(c.restr) = 0 THEN "none" ELSE IF Unrestr(c) = {} THEN "only" ELSE "with"
FirstNearest(c, i) == CHOOSE j \in NearestSet(c, i) : \A q \in NearestSet(c, i) : j <= q
AlgVal(c) ==
    IF Path(c) = "only" THEN <<RestrSum(c), Len(c.mobile) - Cardinality(RestrMobile(c))>>
    ELSE <<RestrSum(c) + SumSet(c, Unrestr(c)),
           Len(c.mobile) - Cardinality(RestrMobile(c) \cup {FirstNearest(c, i) : i \in Unrestr(c)})>>

VARIABLES phase, cs, res
vars == <<phase, cs, res>>
Init == phase = "case" /\ cs \in Cases /\ res = <<>>
Compute == /\ phase = "case" /\ phase' = "done" /\ UNCHANGED cs
           /\ res' = [abs |-> AbsSet(cs), alg |-> AlgVal(cs), path |-> Path(cs)]
Next == Compute
Spec == Init /\ [][Next]_vars
Done == phase = "done"

AlgInAbs == Done => res.alg \in res.abs
NonNegative == Done => \A v \in res.abs : v[1] >= 0 /\ v[2] >= 0 /\ v[2] <= Len(cs.mobile)
(* the same value however many atoms are restrained: the "only" path is the general formula *)
PathsAgree == Done => <<RestrSum(cs) + SumSet(cs, Unrestr(cs)),
                        Len(cs.mobile) - Cardinality(RestrMobile(cs) \cup {FirstNearest(cs, i) : i \in Unrestr(cs)})>> = res.alg
(* invariance under a common lattice isometry and under consistent relabelling *)
Iso(p) == <<0 - p[2] + 3, p[1] - 1, p[3] + 2>>       \* quarter turn about z followed by a translation
Mirror(p) == <<p[2], p[1], 0 - p[3]>>                \* proper: swap x,y and invert z
MapPts(c, F(_)) == [c EXCEPT !.fixed = [i \in 1..Len(c.fixed) |-> F(c.fixed[i])],
                             !.mobile = [j \in 1..Len(c.mobile) |-> F(c.mobile[j])]]
RevFixed(c) == LET n == Len(c.fixed) IN
               [c EXCEPT !.fixed = [i \in 1..n |-> c.fixed[n + 1 - i]],
                         !.restr = [q \in 1..Len(c.restr) |-> <<n + 1 - c.restr[q][1], c.restr[q][2]>>]]
RevMobile(c) == LET m == Len(c.mobile) IN
                [c EXCEPT !.mobile = [j \in 1..m |-> c.mobile[m + 1 - j]],
                          !.restr = [q \in 1..Len(c.restr) |-> <<c.restr[q][1], m + 1 - c.restr[q][2]>>]]
Invariance == Done => /\ AbsSet(MapPts(cs, Iso)) = res.abs
                      /\ AbsSet(MapPts(cs, Mirror)) = res.abs
                      /\ AbsSet(RevFixed(cs)) = res.abs
                      /\ AbsSet(RevMobile(cs)) = res.abs
=============================================================================
