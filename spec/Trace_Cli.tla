------------------------------ MODULE Trace_Cli ------------------------------
(***************************************************************************)
(* Trace validation of the real command-line module against the Abs layer  *)
(* of Cli.tla.  One trace = one candidate list on a generated directory:   *)
(*   Discover{cands, explicit, order, hashseed, crashed, result}           *)
(*       result = <<species, role-decoded start topology, end topology,    *)
(*       end coordinates>> for every species sort_molecules reports with   *)
(*       all three files (decoded from the paths the harness created)      *)
(*   Main{exclude, ran, outAtExpectedPath, mapped}   species found in the  *)
(*       written file (by their end-resolution atom names)                 *)
(*   Equal{same}  explicit triples only: output bytes equal the library    *)
(*       workflow's for the same seed                                      *)
(***************************************************************************)
EXTENDS Cli, Json, IOUtils, TLCExt
Traces == ndJsonDeserialize(IOEnv.TRACE_FILE)
VARIABLES tid, l
Ev == Traces[tid].ev
Clause(name, e) == IF e THEN TRUE ELSE PrintT(<<"FAIL", Traces[tid].tid, l, name>>) /\ FALSE
IsOp(o) == l <= Len(Ev) /\ Ev[l].op = o /\ l' = l + 1 /\ UNCHANGED <<tid, cvars>>
SetOf(s) == {s[i] : i \in 1..Len(s)}
FileSet(s) == {[sp |-> s[i][1], role |-> s[i][2]] : i \in 1..Len(s)}
C == Traces[tid].cfg
TraceInit == /\ tid \in 1..Len(Traces) /\ l = 1
             /\ CInit([cands |-> FileSet(C.cands), explicit |-> SetOf(C.explicit), exclude |-> SetOf(C.exclude)])
TrDiscover == /\ IsOp("Discover")
              /\ Clause("discovery_does_not_crash", ~Ev[l].crashed)
              /\ LET R == Ev[l].result
                     found == {R[i][1] : i \in 1..Len(R)} IN
                 /\ Clause("discovers_exactly_the_species_with_all_three_files", found = AbsDiscovered(cfg))
                 /\ Clause("never_re_adds_explicit_species", found \cap cfg.explicit = {})
                 /\ Clause("each_species_gets_exactly_its_own_files",
                           \A i \in 1..Len(R) : R[i][2] = <<R[i][1], "topCG">> /\ R[i][3] = <<R[i][1], "topAA">>
                                               /\ [sp |-> R[i][4][1], role |-> R[i][4][2]] \in CoordsFor(cfg, R[i][1]))
TrMain == /\ IsOp("Main")
          /\ Clause("command_line_run_completes", Ev[l].ran)
          /\ Clause("output_at_requested_or_default_path", Ev[l].outAtExpectedPath)
          /\ Clause("maps_explicit_and_discovered_species_minus_excluded", SetOf(Ev[l].mapped) = AbsMapped(cfg))
TrEqual == /\ IsOp("Equal")
           /\ Clause("same_output_as_library_workflow_for_same_seed", Ev[l].same)
TrException == IsOp("Exception") /\ Clause("no_exception", FALSE)
TraceNext == TrDiscover \/ TrMain \/ TrEqual \/ TrException
TraceSpec == TraceInit /\ [][TraceNext]_<<cvars, tid, l>>
Accepted == (l = Len(Ev) + 1) => PrintT(<<"ACC", Traces[tid].tid>>)
=============================================================================
