---------------------------- MODULE MC_Alignment ----------------------------
(* Exhaustive configuration: every size relation (<, =, >, one-atom end, one-atom start), every
   non-empty subset of deformation types (single-atom moves only for a mobile molecule of >= 2
   atoms), acyclic / cyclic mobile molecule, every schedule of up to MaxMC steps. *)
EXTENDS Alignment
CONSTANTS MaxN, MaxMC
VARIABLE nmc
vars == <<avars, nmc>>
TypeSets == (SUBSET {0, 1, 2}) \ {{}}
Cfgs == {c \in [nS : 1..MaxN, nE : 1..MaxN, types : TypeSets, tree : BOOLEAN] :
            LET m == IF c.nS < c.nE THEN c.nS ELSE c.nE IN (2 \in c.types => m >= 2)}
MCInit == (\E c \in Cfgs : AInit(c)) /\ nmc = 0
MCConstruct == Construct /\ UNCHANGED nmc
MCMoveStart == MoveStart /\ UNCHANGED nmc
MCSelectRoles == SelectRoles /\ UNCHANGED nmc
MCEarly == Early /\ UNCHANGED nmc
MCEnter == Enter /\ UNCHANGED nmc
MCWriteBack == WriteBack /\ UNCHANGED nmc
MCStep == nmc < MaxMC /\ nmc' = nmc + 1 /\ \E k \in {0, 1, 2}, a \in BOOLEAN : Step(k, a)
MCNext == MCConstruct \/ MCMoveStart \/ MCSelectRoles \/ MCEarly \/ MCEnter \/ MCWriteBack \/ MCStep
MCSpec == MCInit /\ [][MCNext]_vars
CallerUntouched == level["cs"] = 0 /\ level["ce"] = 0
LargerOnlyTranslated == LET big == IF MobileOf(cfg) = "as" THEN "ae" ELSE "as" IN
                        level[big] <= (IF big = "as" THEN 1 ELSE 0)
MobileKeepsStructure == pc = "done" => LET m == MobileOf(cfg) IN
                        /\ (cfg.tree => level[m] <= 3)
                        /\ (2 \notin cfg.types => level[m] <= 2)
                        /\ (cfg.nE = 1 => level[m] = 0)
OnlyMobileWritten == [][\A o \in Objs : level'[o] # level[o] => (o = "as" /\ pc = "ready") \/ (o = mobile /\ pc = "mc")]_vars
=============================================================================
