--------------------------- MODULE MC_Aliasing ---------------------------
EXTENDS Aliasing
MC_Shapes == {<<3>>, <<2, 1>>}
(* leaves of the bounded exploration, emitted for replay *)
Leaf == Len(hist) = MaxOps
=============================================================================
