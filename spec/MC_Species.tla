----------------------------- MODULE MC_Species -----------------------------
EXTENDS Species
CONSTANT MaxLen
AtomKinds == {"A", "B"} \X {"RA", "RB"} \X {1, 2}
Pairs(n) == {{a, b} : a \in 1..n, b \in 1..n} \ {{a} : a \in 1..n}
MC_Tops == UNION {{[name |-> nm, atoms |-> s, bonds |-> bs] : nm \in {"M", "N"}, s \in [1..n -> AtomKinds], bs \in SUBSET Pairs(n)} : n \in 1..MaxLen}
MC_Flats == UNION {[1..n -> AtomKinds] : n \in 1..MaxLen}
=============================================================================
