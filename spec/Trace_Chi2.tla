----------------------------- MODULE Trace_Chi2 -----------------------------
(***************************************************************************)
(* Trace validation of Chi2Calculator on realistic sizes (up to 40 x 25    *)
(* atoms) with coordinates on a 256-level dyadic grid, where TLC still     *)
(* computes the reference value exactly.  One calculator is built, then    *)
(* evaluated on several mobile configurations different from the one it    *)
(* was built with.  cand = the <<S, k>> decompositions of the observed     *)
(* float (value / 1.1^k integral to 1e-12), computed by the harness.       *)
(***************************************************************************)
EXTENDS Chi2, Json, IOUtils, TLCExt
Traces == ndJsonDeserialize(IOEnv.TRACE_FILE)
VARIABLES tid, l
Ev == Traces[tid].ev
Cfg == Traces[tid].cfg
Clause(name, e) == IF e THEN TRUE ELSE PrintT(<<"FAIL", Traces[tid].tid, l, name>>) /\ FALSE
IsOp(o) == l <= Len(Ev) /\ Ev[l].op = o /\ l' = l + 1 /\ UNCHANGED <<tid, vars>>
Pt(j) == <<j[1], j[2], j[3]>>
TraceInit == /\ tid \in 1..Len(Traces) /\ l = 1 /\ phase = "trace" /\ res = <<>>
             /\ cs = [fixed |-> [i \in 1..Len(Traces[tid].cfg.fixed) |-> Pt(Traces[tid].cfg.fixed[i])],
                      mobile |-> <<>>,
                      restr |-> [q \in 1..Len(Traces[tid].cfg.restr) |-> <<Traces[tid].cfg.restr[q][1], Traces[tid].cfg.restr[q][2]>>]]
CaseOf(e) == [cs EXCEPT !.mobile = [j \in 1..Len(e.mobile) |-> Pt(e.mobile[j])]]
TrEval == /\ IsOp("Eval")
          /\ Clause("finite_nonnegative", Ev[l].finite /\ Ev[l].nonneg)
          /\ Clause("value_is_reference_definition",
                    \E i \in 1..Len(Ev[l].cand) : <<Ev[l].cand[i][1], Ev[l].cand[i][2]>> \in AbsSet(CaseOf(Ev[l])))
(* the public entry point for the measure without restraints, called on a calculator built with any restraint list *)
TrEvalPlain == /\ IsOp("EvalPlain")
               /\ Clause("finite_nonnegative", Ev[l].finite /\ Ev[l].nonneg)
               /\ Clause("unrestrained_entry_point_is_the_measure_without_restraints",
                         \E i \in 1..Len(Ev[l].cand) :
                             <<Ev[l].cand[i][1], Ev[l].cand[i][2]>> \in AbsSet([CaseOf(Ev[l]) EXCEPT !.restr = <<>>]))
(* generic floats: invariance of the value under a common rigid motion / consistent relabelling *)
TrInv == /\ IsOp("Inv")
         /\ Clause("rigid_motion_invariant", Ev[l].rigid)
         /\ Clause("relabelling_invariant", Ev[l].relabel)
         /\ Clause("restraint_count_independent", Ev[l].paths)
TraceNext == TrEval \/ TrEvalPlain \/ TrInv
TraceSpec == TraceInit /\ [][TraceNext]_<<vars, tid, l>>
Accepted == (l = Len(Ev) + 1) => PrintT(<<"ACC", Traces[tid].tid>>)
=============================================================================
