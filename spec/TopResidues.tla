----------------------------- MODULE TopResidues -----------------------------
(***************************************************************************)
(* EXTENSION (not one of the listed properties): residue bookkeeping of a  *)
(* topology (MoleculeTop).  A topology is a sequence of atoms, each with a *)
(* residue name and a residue number; a RESIDUE is a maximal run of        *)
(* consecutive atoms with the same (name, number).  The derived views      *)
(*   resnames, resids, resname_len_list                                    *)
(* are functions of that grouping; the setters assign one value per        *)
(* residue (ValueError and no change if the number of values differs or    *)
(* the argument is not a list) - and may thereby MERGE adjacent residues   *)
(* that become equal, which changes the grouping seen by later calls.      *)
(* A copy is an equal, independent topology.                               *)
(***************************************************************************)
EXTENDS Integers, Sequences, FiniteSets, TLC

CONSTANTS MaxOps, Tops            \* Tops: set of initial topologies = sequences of <<name, number>>
VARIABLES top, cp, hist, top0        \* top0: the initial topology (for replay)
tvars == <<top, cp, hist, top0>>

RECURSIVE Groups(_, _)
(* sequence of [key, n] for the maximal runs of t from position i *)
Groups(t, i) == IF i > Len(t) THEN <<>>
                ELSE LET j == CHOOSE k \in i..Len(t) : (\A m \in i..k : t[m] = t[i]) /\ (k = Len(t) \/ t[k + 1] # t[i])
                     IN <<[key |-> t[i], n |-> j - i + 1]>> \o Groups(t, j + 1)
G(t) == Groups(t, 1)
ResNames(t) == [g \in 1..Len(G(t)) |-> G(t)[g].key[1]]
ResIds(t) == [g \in 1..Len(G(t)) |-> G(t)[g].key[2]]
NameLen(t) == [g \in 1..Len(G(t)) |-> <<G(t)[g].key[1], G(t)[g].n>>]
RECURSIVE GroupOf(_, _, _, _)
GroupOf(gs, a, g, acc) == IF a <= acc + gs[g].n THEN g ELSE GroupOf(gs, a, g + 1, acc + gs[g].n)
GroupIndex(t, a) == GroupOf(G(t), a, 1, 0)
SetNames(t, v) == [a \in 1..Len(t) |-> <<v[GroupIndex(t, a)], t[a][2]>>]
SetIds(t, v) == [a \in 1..Len(t) |-> <<t[a][1], v[GroupIndex(t, a)]>>]

Names == {"RA", "RB"}
Ids == {1, 2}
Init == top \in Tops /\ cp = <<>> /\ hist = <<>> /\ top0 = top
Log(op, arg, out) == Len(hist) < MaxOps /\ top0' = top0 /\ hist' = Append(hist, [op |-> op, arg |-> arg, out |-> out, top |-> top', cp |-> cp',
                                                                   names |-> ResNames(top'), ids |-> ResIds(top'), namelen |-> NameLen(top')])
(* a list of the right length (any values), or one value too many / too few (one representative each) *)
ArgLists(S, n, filler) == [1..n -> S] \cup {[i \in 1..(n + 1) |-> filler]} \cup (IF n > 1 THEN {[i \in 1..(n - 1) |-> filler]} ELSE {})
DoSetNames == \E v \in ArgLists(Names, Len(G(top)), "RA") :
              /\ IF Len(v) = Len(G(top)) THEN top' = SetNames(top, v) ELSE top' = top
              /\ UNCHANGED cp /\ Log("set_resnames", v, IF Len(v) = Len(G(top)) THEN "ok" ELSE "ValueError")
DoSetIds == \E v \in ArgLists(Ids, Len(G(top)), 1) :
            /\ IF Len(v) = Len(G(top)) THEN top' = SetIds(top, v) ELSE top' = top
            /\ UNCHANGED cp /\ Log("set_resids", v, IF Len(v) = Len(G(top)) THEN "ok" ELSE "ValueError")
DoCopy == cp' = top /\ UNCHANGED top /\ Log("copy", <<>>, "ok")
(* the same setters on the copy: the original must not change *)
DoSetNamesCopy == /\ cp # <<>> /\ \E v \in [1..Len(G(cp)) -> Names] : cp' = SetNames(cp, v) /\ UNCHANGED top /\ Log("copy_set_resnames", v, "ok")
Next == DoSetNames \/ DoSetIds \/ DoCopy \/ DoSetNamesCopy
Spec == Init /\ [][Next]_tvars

(* the three views describe the same grouping, and they tile the atoms *)
RECURSIVE SumLens(_)
SumLens(s) == IF Len(s) = 0 THEN 0 ELSE s[1][2] + SumLens(Tail(s))
ViewsAgree == /\ Len(ResNames(top)) = Len(ResIds(top)) /\ Len(ResIds(top)) = Len(NameLen(top))
              /\ SumLens(NameLen(top)) = Len(top)
              /\ \A g \in 1..(Len(G(top)) - 1) : G(top)[g].key # G(top)[g + 1].key      \* runs are maximal
CopyIndependent == [][(hist' # hist /\ hist'[Len(hist')].op \in {"set_resnames", "set_resids"}) => cp' = cp]_tvars
ErrorsChangeNothing == [][(hist' # hist /\ hist'[Len(hist')].out # "ok") => top' = top]_tvars
=============================================================================
