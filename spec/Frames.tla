------------------------------- MODULE Frames -------------------------------
(***************************************************************************)
(* Rotation matrices and local frames (gaddlemaps rotation_matrix and      *)
(* calcule_base) on the cases where everything is exact: the 24 proper     *)
(* rotations of the cubic lattice, written as (axis, angle) pairs, and the *)
(* frames of lattice point triples, including every exactly collinear      *)
(* direction and a coincident middle point.                                *)
(*                                                                         *)
(* A rotation case is [u, kind, k]: axis u (integer vector, any length),   *)
(* kind "quarter" (angle k*pi/2 about a coordinate axis), "third" (angle   *)
(* k*2pi/3 about a body diagonal) or "half" (angle pi about any axis).     *)
(* M2(c) is TWICE the rotation matrix (so that it is integral), for the    *)
(* right-handed convention; the transposed family is the other consistent  *)
(* convention.  TLC checks the group laws on these matrices and emits them *)
(* as expected values for the implementation.                              *)
(***************************************************************************)
EXTENDS Integers, Sequences, FiniteSets, TLC

CONSTANTS RotCases,   \* set of rotation cases
          Triples,    \* set of point triples <<p0, p1, p2>>
          PerpOf(_)   \* free-axis candidates for a collinear triple

Dot(u, v) == u[1] * v[1] + u[2] * v[2] + u[3] * v[3]
Cross(u, v) == <<u[2] * v[3] - u[3] * v[2], u[3] * v[1] - u[1] * v[3], u[1] * v[2] - u[2] * v[1]>>
Sub(u, v) == <<u[1] - v[1], u[2] - v[2], u[3] - v[3]>>
N2(u) == Dot(u, u)
Zero == <<0, 0, 0>>
I3 == <<<<1, 0, 0>>, <<0, 1, 0>>, <<0, 0, 1>>>>
MatMul(A, B) == [i \in 1..3 |-> [j \in 1..3 |-> A[i][1] * B[1][j] + A[i][2] * B[2][j] + A[i][3] * B[3][j]]]
Transpose(A) == [i \in 1..3 |-> [j \in 1..3 |-> A[j][i]]]
Scale(k, A) == [i \in 1..3 |-> [j \in 1..3 |-> k * A[i][j]]]
MatVec(A, v) == <<Dot(A[1], v), Dot(A[2], v), Dot(A[3], v)>>
Det(A) == Dot(Cross(A[1], A[2]), A[3])
Trace(A) == A[1][1] + A[2][2] + A[3][3]
Outer(u) == [i \in 1..3 |-> [j \in 1..3 |-> u[i] * u[j]]]
K(u) == <<<<0, 0 - u[3], u[2]>>, <<u[3], 0, 0 - u[1]>>, <<0 - u[2], u[1], 0>>>>   \* v |-> u x v
MatAdd(A, B) == [i \in 1..3 |-> [j \in 1..3 |-> A[i][j] + B[i][j]]]
MatSub(A, B) == [i \in 1..3 |-> [j \in 1..3 |-> A[i][j] - B[i][j]]]

(* Rodrigues: R = uu^T/N + c (I - uu^T/N) + (s/|u|) K(u),  N = |u|^2.  Twice the matrix: *)
(* quarter turns about a coordinate axis (N = L^2, |u| = L): c, s in {0, 1, -1}; 2R N = ...        *)
Len1(u) == IF u[1] # 0 THEN (IF u[1] < 0 THEN 0 - u[1] ELSE u[1])
           ELSE IF u[2] # 0 THEN (IF u[2] < 0 THEN 0 - u[2] ELSE u[2])
           ELSE (IF u[3] < 0 THEN 0 - u[3] ELSE u[3])      \* length of a vector along a coordinate axis
CosQ(k) == CASE k % 4 = 0 -> 1 [] k % 4 = 1 -> 0 [] k % 4 = 2 -> 0 - 1 [] k % 4 = 3 -> 0
SinQ(k) == CASE k % 4 = 0 -> 0 [] k % 4 = 1 -> 1 [] k % 4 = 2 -> 0 [] k % 4 = 3 -> 0 - 1
(* returns the matrix times the denominator Den(c) *)
Den(c) == IF c.kind = "quarter" THEN N2(c.u)
          ELSE IF c.kind = "third" THEN 2 * (N2(c.u) \div 3)      \* u = m (+-1,+-1,+-1): N = 3 m^2
          ELSE N2(c.u)
MD(c) ==
    IF c.kind = "quarter"
    THEN \* N R = uu^T + c (N I - uu^T) + s L K(u)
         MatAdd(MatAdd(Outer(c.u), Scale(CosQ(c.k), MatSub(Scale(N2(c.u), I3), Outer(c.u)))),
                Scale(SinQ(c.k) * Len1(c.u), K(c.u)))
    ELSE IF c.kind = "third"
    THEN \* u = m w, w = (+-1,+-1,+-1): R = ww^T/3 - (I - ww^T/3)/2 +- K(w)/2  =>  2 m^2 R = uu^T - m^2 I +- m K(u)
         \* (k % 3 = 0: identity, 1: +, 2: -)
         LET m == Len1(<<c.u[1], 0, 0>>) IN
         IF c.k % 3 = 0 THEN Scale(2 * m * m, I3)
         ELSE MatAdd(MatSub(Outer(c.u), Scale(m * m, I3)), Scale((IF c.k % 3 = 1 THEN 1 ELSE 0 - 1) * m, K(c.u)))
    ELSE \* half turn: N R = 2 uu^T - N I
         MatSub(Scale(2, Outer(c.u)), Scale(N2(c.u), I3))

VARIABLES phase, case, res
vars == <<phase, case, res>>

Init == /\ phase = "case" /\ res = <<>>
        /\ \/ \E c \in RotCases : case = [t |-> "rot", c |-> c]
           \/ \E tr \in Triples : case = [t |-> "frame", tr |-> tr]

FrameOf(tr, f) == LET e1 == Sub(tr[3], tr[1])
                      w  == Cross(e1, Sub(tr[2], tr[1]))
                      e3 == IF w = Zero THEN f ELSE w
                  IN <<e1, Cross(e3, e1), e3>>
IsCollinear(tr) == Cross(Sub(tr[3], tr[1]), Sub(tr[2], tr[1])) = Zero

Compute == /\ phase = "case" /\ phase' = "done" /\ UNCHANGED case
           /\ res' = IF case.t = "rot"
                     THEN [den |-> Den(case.c), m |-> MD(case.c)]
                     ELSE [collinear |-> IsCollinear(case.tr), frame |-> FrameOf(case.tr, Zero)]
Next == Compute
Spec == Init /\ [][Next]_vars

Done == phase = "done"
(* ---- rotation laws (exact) --------------------------------------------------------------- *)
RotLaws == (Done /\ case.t = "rot") =>
    LET c == case.c  d == Den(c)  M == MD(c) IN
    /\ d > 0
    /\ MatMul(M, Transpose(M)) = Scale(d * d, I3)            \* orthogonal
    /\ Det(M) = d * d * d                                    \* proper
    /\ MatVec(M, c.u) = <<d * c.u[1], d * c.u[2], d * c.u[3]>>   \* the axis is fixed
    /\ (c.kind = "quarter" => Trace(M) = d * (1 + 2 * CosQ(c.k)))
    /\ (c.kind = "third" => 2 * Trace(M) = d * (IF c.k % 3 = 0 THEN 6 ELSE 0))      \* 1 + 2 cos(2pi/3) = 0
    /\ (c.kind = "half" => Trace(M) = 0 - d)
    \* R(-theta) = R(theta)^T
    /\ (c.kind # "half" => MD([c EXCEPT !.k = (IF c.kind = "quarter" THEN 4 ELSE 3) * 5 - c.k]) = Transpose(M))
    \* R(a) R(b) = R(a+b) about the same axis
    /\ (c.kind # "half" => \A k2 \in 0..3 :
           MatMul(M, MD([c EXCEPT !.k = k2])) = Scale(d, MD([c EXCEPT !.k = c.k + k2])))
    /\ (c.kind = "half" => MatMul(M, M) = Scale(d * d, I3))
    \* independent of the length of the axis vector
    /\ LET c2 == [c EXCEPT !.u = <<3 * c.u[1], 3 * c.u[2], 3 * c.u[3]>>]
       IN Scale(Den(c2), M) = Scale(d, MD(c2))

(* ---- frame laws (exact) ------------------------------------------------------------------ *)
FrameLaws == (Done /\ case.t = "frame") =>
    LET tr == case.tr IN
    \A f \in (IF IsCollinear(tr) THEN PerpOf(Sub(tr[3], tr[1])) ELSE {Zero}) :
        LET F == FrameOf(tr, f) IN
        /\ F[1] = Sub(tr[3], tr[1])
        /\ Dot(F[1], F[2]) = 0 /\ Dot(F[1], F[3]) = 0 /\ Dot(F[2], F[3]) = 0
        /\ Dot(Cross(F[1], F[2]), F[3]) > 0                                   \* right handed
        /\ Dot(F[3], Sub(tr[2], tr[1])) = 0 /\ Dot(F[3], Sub(tr[3], tr[1])) = 0   \* normal to the plane
=============================================================================
