---------------------------- MODULE MC_MoveAtom ----------------------------
EXTENDS MoveAtom, FiniteSetsExt, SequencesExt
CONSTANTS MaxTree,   \* all labelled trees with up to this many atoms
          MaxCyc     \* all connected graphs with cycles up to this many atoms
Pairs(n) == {{a, b} : a \in 1..n, b \in 1..n} \ {{a} : a \in 1..n}
RECURSIVE ReachE(_, _)
ReachE(E, S) == LET S2 == S \cup {b \in UNION E : \E a \in S : {a, b} \in E} IN IF S2 = S THEN S ELSE ReachE(E, S2)
ConnectedE(n, E) == n = 1 \/ ReachE(E, {1}) = 1..n
Trees(n) == IF n = 1 THEN {{}} ELSE {E \in kSubset(n - 1, Pairs(n)) : ConnectedE(n, E)}
Cyclic(n) == {E \in SUBSET Pairs(n) : Cardinality(E) >= n /\ ConnectedE(n, E)}
(* adjacency in ascending neighbour order, as the real bonds_distance produces it *)
AdjOf(n, E) == [a \in 1..n |-> SetToSortSeq({b \in 1..n : {a, b} \in E}, LAMBDA x, y : x < y)]
CasesOf(n, Es) == {[n |-> n, adj |-> AdjOf(n, E), root |-> r] : E \in Es, r \in 1..n}
MC_Cases == UNION {CasesOf(n, Trees(n)) : n \in 1..MaxTree} \cup UNION {CasesOf(n, Cyclic(n)) : n \in 3..MaxCyc}
=============================================================================
