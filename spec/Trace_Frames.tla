---------------------------- MODULE Trace_Frames ----------------------------
(***************************************************************************)
(* Trace validation for rotation matrices and local frames on arbitrary    *)
(* floating-point inputs.  Each event carries the relation booleans the    *)
(* harness measured on the real output; the specification states which of  *)
(* them the property demands (e.g. "normal to the plane" only when the     *)
(* points span a plane).                                                   *)
(***************************************************************************)
EXTENDS Integers, Sequences, TLC, Json, IOUtils, TLCExt
Traces == ndJsonDeserialize(IOEnv.TRACE_FILE)
VARIABLES tid, l
Ev == Traces[tid].ev
Clause(name, e) == IF e THEN TRUE ELSE PrintT(<<"FAIL", Traces[tid].tid, l, name>>) /\ FALSE
IsOp(o) == l <= Len(Ev) /\ Ev[l].op = o /\ l' = l + 1 /\ UNCHANGED tid
Init == tid \in 1..Len(Traces) /\ l = 1
TrRot == /\ IsOp("rot")
         /\ Clause("finite", Ev[l].finite)
         /\ Clause("orthogonal", Ev[l].orth)
         /\ Clause("det_plus_one", Ev[l].det)
         /\ Clause("axis_fixed", Ev[l].axis_fixed)
         /\ Clause("trace", Ev[l].trace)
         /\ Clause("inverse_is_transpose", Ev[l].transpose)
         /\ Clause("composition", Ev[l].compose)
         /\ Clause("axis_length_independent", Ev[l].scale_indep)
TrFrame == /\ IsOp("frame")
           /\ Clause("finite", Ev[l].finite)
           /\ Clause("orthonormal", Ev[l].orthonormal)
           /\ Clause("right_handed", Ev[l].right_handed)
           /\ Clause("first_vector_p0_to_p2", Ev[l].first)
           /\ Clause("third_vector_normal_to_plane", Ev[l].collinear \/ Ev[l].normal)
           /\ Clause("origin_is_first_point", Ev[l].origin)
           /\ Clause("inputs_not_modified", Ev[l].intact)
Next == TrRot \/ TrFrame
TraceSpec == Init /\ [][Next]_<<tid, l>>
Accepted == (l = Len(Ev) + 1) => PrintT(<<"ACC", Traces[tid].tid>>)
=============================================================================
