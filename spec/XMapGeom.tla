------------------------------ MODULE XMapGeom ------------------------------
(***************************************************************************)
(* Geometry of the exchange map (gaddlemaps ExchangeMap + calcule_base)    *)
(* in exact integer arithmetic on a lattice.                               *)
(*                                                                         *)
(* Abs layer (what C01-C03 state):                                         *)
(*   anchors  = reference atoms with at least two bonds                    *)
(*   near[t]  = the anchors at minimal distance of target atom t           *)
(*   law      : map(ref)[t] = a + s (p_t - a),  a in near[t],  s = sNum/8   *)
(*   rigid    : map(g ref)[t] = g(map(ref)[t]); for an anchor that is       *)
(*              collinear with its frame neighbours only the distance to   *)
(*              the anchor, the coordinate along the axis and the distance *)
(*              from the axis are determined                               *)
(*   local    : out[t] depends on deps[t] = <<a, n1, n2>> only; distances   *)
(*              to the anchor and among atoms of one anchor scale with s   *)
(*                                                                         *)
(* Alg layer (what the code does): per anchor a frame e1 = n2 - a,         *)
(* e3 = e1 x (n1 - a), e2 = e3 x e1 (kept unnormalised: all integer),      *)
(* projection (v.e_i)/|e_i| at construction, restoration with the frame of *)
(* the argument.  TLC checks Alg => Abs (FrameLemma, RigidLemma) for every *)
(* enumerated case; the cases with their expected results are replayed on  *)
(* the implementation.  All points are in lattice units, results in 1/8    *)
(* lattice units (suffix 8).                                               *)
(***************************************************************************)
EXTENDS Integers, Sequences, FiniteSets, TLC

CONSTANTS Graphs,     \* set of [n |-> number of atoms, bonds |-> set of 2-element sets of 1..n]
          Placements(_),  \* n |-> set of functions 1..n -> lattice points (the reference positions)
          Targets,    \* sequence of lattice points (the target atoms)
          Scales,     \* set of sNum, scale factor s = sNum / 8
          Motions,    \* set of lattice rigid motions [R |-> <<row1,row2,row3>>, t |-> vector]
          Perp(_)     \* e1 |-> set of candidate lattice vectors for the free frame axis (collinear case)

(* ---- integer vectors ----------------------------------------------------------------- *)
Add(u, v) == <<u[1] + v[1], u[2] + v[2], u[3] + v[3]>>
Sub(u, v) == <<u[1] - v[1], u[2] - v[2], u[3] - v[3]>>
Mul(k, u) == <<k * u[1], k * u[2], k * u[3]>>
Dot(u, v) == u[1] * v[1] + u[2] * v[2] + u[3] * v[3]
Cross(u, v) == <<u[2] * v[3] - u[3] * v[2], u[3] * v[1] - u[1] * v[3], u[1] * v[2] - u[2] * v[1]>>
N2(u) == Dot(u, u)
Zero == <<0, 0, 0>>
Rot(R, u) == <<Dot(R[1], u), Dot(R[2], u), Dot(R[3], u)>>
Move(g, p) == Add(Rot(g.R, p), g.t)

VARIABLES phase,   \* "case" (inputs chosen) | "done" (expected results computed)
          g,       \* the bond graph
          ref,     \* reference positions
          res      \* expected results (see Compute)

vars == <<phase, g, ref, res>>

Atoms == 1..g.n
Bonded(a) == {b \in Atoms : {a, b} \in g.bonds}
(* references of one or two atoms: the first atom is the only anchor (frame completed freely) *)
Anchors == IF g.n <= 2 THEN {1} ELSE {a \in Atoms : Cardinality(Bonded(a)) >= 2}
Min(S) == CHOOSE x \in S : \A y \in S : x <= y
N1of(a) == Min(Bonded(a))
N2of(a) == Min(Bonded(a) \ {N1of(a)})
Triple(a) == <<a, N1of(a), N2of(a)>>

(* frame of anchor a in configuration pos; collinear triples take the free axis f *)
E1(pos, a) == Sub(pos[N2of(a)], pos[a])
W(pos, a) == Cross(E1(pos, a), Sub(pos[N1of(a)], pos[a]))
Collinear(pos, a) == W(pos, a) = Zero
Frame(pos, a, f) == LET e1 == E1(pos, a)
                        e3 == IF Collinear(pos, a) THEN f ELSE W(pos, a)
                    IN <<e1, Cross(e3, e1), e3>>

Near(pos, p) == {a \in Anchors : \A b \in Anchors : N2(Sub(p, pos[a])) <= N2(Sub(p, pos[b]))}

(* the law, in 1/8 lattice units, for scale s = sc/8 *)
Law8(pos, a, p, sc) == Add(Mul(8, pos[a]), Mul(sc, Sub(p, pos[a])))

(* Alg: project v on the frame of anchor a in `pos` (components (v.e_i)/|e_i|), restore with the
   frame F2 of equal axis lengths.  With a frame <<e1,e2,e3>>, N(e2) = N(e1) N(e3); the result
   times D = N(e1) N(e3).  The scale factor multiplies this vector, so the lemmas below hold for
   every scale at once. *)
AlgVecD(pos, a, f, v, F2) ==
    LET F == Frame(pos, a, f)
        n1 == N2(F[1])
        n3 == N2(F[3])
    IN Add(Add(Mul(Dot(v, F[1]) * n3, F2[1]), Mul(Dot(v, F[2]), F2[2])), Mul(Dot(v, F[3]) * n1, F2[3]))
FrameD(pos, a, f) == N2(Frame(pos, a, f)[1]) * N2(Frame(pos, a, f)[3])

FreeAxes(pos, a) == IF Collinear(pos, a) THEN Perp(E1(pos, a)) ELSE {Zero}

Init == /\ phase = "case"
        /\ g \in Graphs
        /\ ref \in Placements(g.n)
        /\ res = <<>>

(* expected observable results of this case *)
Compute ==
    /\ phase = "case"
    /\ phase' = "done"
    /\ res' = [anchors |-> Anchors,
               triple  |-> [a \in Atoms |-> IF a \in Anchors /\ g.n >= 3 THEN Triple(a) ELSE <<>>],
               collin  |-> IF g.n >= 3 THEN {a \in Anchors : Collinear(ref, a)} ELSE {},
               near    |-> [t \in 1..Len(Targets) |-> Near(ref, Targets[t])],
               law8    |-> [sc \in Scales |-> [t \in 1..Len(Targets) |->
                              [a \in Atoms |-> IF a \in Near(ref, Targets[t])
                                               THEN Law8(ref, a, Targets[t], sc) ELSE <<>>]]],
               \* invariants of the vector anchor -> target (all that a 1- or 2-atom reference, or a
               \* collinear anchor, determines): squared length, component along the primary axis
               d2      |-> [t \in 1..Len(Targets) |->
                              [a \in Atoms |-> IF a \in Near(ref, Targets[t])
                                               THEN N2(Sub(Targets[t], ref[a])) ELSE 0]],
               ax      |-> [t \in 1..Len(Targets) |->
                              [a \in Atoms |-> IF a \in Near(ref, Targets[t]) /\ g.n >= 2
                                               THEN Dot(Sub(Targets[t], ref[a]),
                                                        IF g.n = 2 THEN Sub(ref[2], ref[1]) ELSE E1(ref, a))
                                               ELSE 0]]]
    /\ UNCHANGED <<g, ref>>

Next == Compute
Spec == Init /\ [][Next]_vars

(* ---- what TLC proves about every case ------------------------------------------------- *)
(* (evaluated on the computed state, so that the work is spread over TLC's workers) *)
Done == phase = "done"

(* every reference of the bounds has an anchor and every target a nearest anchor *)
HasAnchor == Done => (Anchors # {} /\ \A t \in 1..Len(Targets) : Near(ref, Targets[t]) # {})

(* restore o project = identity, generic and collinear branch (any admissible free axis):
   the implementation-shaped computation reproduces the law (for every scale) *)
FrameLemma == (Done /\ g.n >= 3) =>
    \A a \in Anchors : \A f \in FreeAxes(ref, a) :
        LET F == Frame(ref, a, f)
            D == N2(F[1]) * N2(F[3])
        IN
        /\ D > 0
        /\ Dot(F[1], F[2]) = 0 /\ Dot(F[1], F[3]) = 0 /\ Dot(F[2], F[3]) = 0
        /\ N2(F[2]) = D
        /\ \A t \in 1..Len(Targets) :
              LET v == Sub(Targets[t], ref[a]) IN AlgVecD(ref, a, f, v, F) = Mul(D, v)

(* rigid motion of the reference: nearest sets are preserved; for a generic anchor the restored
   vector is the rotated vector; for a collinear anchor (free axes f, f2 unrelated) the length of
   the primary axis is preserved and any orthogonal frame preserves the squared length, which
   together with the axial component fixes distance, axial and radial coordinate *)
MovedRef(m) == [a \in Atoms |-> Move(m, ref[a])]
RigidLemma == Done =>
    \A m \in Motions :
        LET pos2 == MovedRef(m) IN
        /\ \A t \in 1..Len(Targets) : Near(pos2, Move(m, Targets[t])) = res.near[t]
        /\ g.n >= 3 => \A a \in Anchors :
             IF ~Collinear(ref, a)
             THEN LET F2 == Frame(pos2, a, Zero)
                      D  == FrameD(ref, a, Zero)
                  IN /\ ~Collinear(pos2, a)
                     /\ \A t \in 1..Len(Targets) :
                          a \in res.near[t] =>
                            LET v == Sub(Targets[t], ref[a]) IN
                            AlgVecD(ref, a, Zero, v, F2) = Mul(D, Rot(m.R, v))
             ELSE /\ Collinear(pos2, a)
                  /\ \A f \in FreeAxes(ref, a) : \A f2 \in FreeAxes(pos2, a) :
                    LET F  == Frame(ref, a, f)
                        F2 == Frame(pos2, a, f2)
                    IN /\ N2(F2[1]) = N2(F[1]) /\ F2[1] = Rot(m.R, F[1])
                       /\ Dot(F2[1], F2[2]) = 0 /\ Dot(F2[1], F2[3]) = 0 /\ Dot(F2[2], F2[3]) = 0
                       /\ \A t \in 1..Len(Targets) :
                            a \in res.near[t] =>
                              LET v == Sub(Targets[t], ref[a]) IN
                              Dot(v, F[1]) * Dot(v, F[1]) * N2(F[3]) + Dot(v, F[2]) * Dot(v, F[2])
                              + Dot(v, F[3]) * Dot(v, F[3]) * N2(F[1]) = N2(v) * N2(F[1]) * N2(F[3])
=============================================================================
