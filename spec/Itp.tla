-------------------------------- MODULE Itp --------------------------------
(***************************************************************************)
(* GROMACS topology (.itp) files at token level: gaddlemaps ItpFile        *)
(* (sections, lines, comments), its write(), and the topology reader       *)
(* built on it (molecule name, atoms, bond graph, connectivity).           *)
(*                                                                         *)
(* A file is a sequence of lines [k, t, c]:                                *)
(*   k = "sec"   section header, t = <<name>>                              *)
(*   k = "cont"  content line, t = tokens, c = sequence of trailing        *)
(*               comments, each a token sequence (possibly empty)          *)
(*   k = "comm"  comment-only line, c as above                             *)
(*   k = "pre"   preprocessor line (#include, #ifdef ...), t = tokens      *)
(*   k = "blank"                                                           *)
(*                                                                         *)
(* Abs : View(F) = header lines + for every section name, in order of      *)
(*       first appearance, the items (content / comment / preprocessor     *)
(*       lines, in file order) of all its occurrences.  C16: writing and   *)
(*       re-reading preserves View; C15: Topology(F) is read off View.     *)
(* Alg : one pass with a current-section variable (the code's loop), and   *)
(*       the writer (header verbatim, then section by section).            *)
(***************************************************************************)
EXTENDS Integers, Sequences, FiniteSets, TLC

CONSTANTS Files    \* set of files explored exhaustively

L(k, t, c) == [k |-> k, t |-> t, c |-> c]

(* trailing comments as the reader sees them: the text after the first ';' *)
RECURSIVE JoinC(_)
JoinC(c) == IF Len(c) = 0 THEN <<>> ELSE IF Len(c) = 1 THEN c[1] ELSE c[1] \o <<";">> \o JoinC(Tail(c))
(* an item carries information iff it has content, a non-empty comment or is a directive *)
Informative(ln) == \/ ln.k \in {"cont", "pre"}
                   \/ ln.k = "comm" /\ JoinC(ln.c) # <<>>
Norm(ln) == IF ln.k = "cont" THEN L("cont", ln.t, JoinC(ln.c))
            ELSE IF ln.k = "comm" THEN L("comm", <<>>, JoinC(ln.c))
            ELSE L(ln.k, ln.t, <<>>)

(* ---- Abs view --------------------------------------------------------------------------- *)
SecIdx(F) == {i \in 1..Len(F) : F[i].k = "sec"}
FirstSec(F) == IF SecIdx(F) = {} THEN Len(F) + 1 ELSE CHOOSE i \in SecIdx(F) : \A j \in SecIdx(F) : i <= j
(* section a line belongs to: the name of the last header before it *)
OwnerIdx(F, i) == CHOOSE h \in SecIdx(F) : h < i /\ \A j \in SecIdx(F) : j < i => j <= h
Owner(F, i) == F[OwnerIdx(F, i)].t[1]
RECURSIVE NamesFrom(_, _, _)
NamesFrom(F, i, acc) == IF i > Len(F) THEN acc
                        ELSE IF F[i].k = "sec" /\ ~\E j \in 1..Len(acc) : acc[j] = F[i].t[1]
                             THEN NamesFrom(F, i + 1, Append(acc, F[i].t[1]))
                             ELSE NamesFrom(F, i + 1, acc)
SecNames(F) == NamesFrom(F, 1, <<>>)
RECURSIVE ItemsFrom(_, _, _, _)
ItemsFrom(F, name, i, acc) ==
    IF i > Len(F) THEN acc
    ELSE IF i > FirstSec(F) /\ F[i].k # "sec" /\ Owner(F, i) = name /\ Informative(F[i])
         THEN ItemsFrom(F, name, i + 1, Append(acc, Norm(F[i])))
         ELSE ItemsFrom(F, name, i + 1, acc)
Items(F, name) == ItemsFrom(F, name, 1, <<>>)
Header(F) == LET hs == [i \in 1..(FirstSec(F) - 1) |-> F[i]]
             IN SelectSeq(hs, LAMBDA ln : ln.k # "blank")
View(F) == [header |-> [i \in 1..Len(Header(F)) |-> Norm(Header(F)[i])],
            names |-> SecNames(F),
            items |-> [j \in 1..Len(SecNames(F)) |-> Items(F, SecNames(F)[j])]]

(* ---- Alg: the reader's single pass and the writer ---------------------------------------- *)
RECURSIVE Pass(_, _, _, _, _, _)
Pass(F, i, sec, header, names, items) ==
    IF i > Len(F) THEN [header |-> header, names |-> names, items |-> items]
    ELSE LET ln == F[i] IN
         IF ln.k = "sec"
         THEN IF \E j \in 1..Len(names) : names[j] = ln.t[1]
              THEN Pass(F, i + 1, ln.t[1], header, names, items)           \* repeated name: keep appending
              ELSE Pass(F, i + 1, ln.t[1], header, Append(names, ln.t[1]), Append(items, <<>>))
         ELSE IF sec = "" THEN Pass(F, i + 1, sec, IF ln.k = "blank" THEN header ELSE Append(header, Norm(ln)), names, items)
         ELSE LET j == CHOOSE q \in 1..Len(names) : names[q] = sec IN
              Pass(F, i + 1, sec, header, names,
                   IF Informative(ln) THEN [items EXCEPT ![j] = Append(items[j], Norm(ln))] ELSE items)
AlgRead(F) == Pass(F, 1, "", <<>>, <<>>, <<>>)
(* the writer: header lines, then every section once with all its lines, then a blank line *)
RECURSIVE WriteSecs(_, _)
WriteSecs(v, j) == IF j > Len(v.names) THEN <<>>
                   ELSE <<L("sec", <<v.names[j]>>, <<>>)>> \o
                        [q \in 1..Len(v.items[j]) |->
                            LET it == v.items[j][q] IN
                            IF it.k = "cont" THEN L("cont", it.t, IF it.c = <<>> THEN <<>> ELSE <<it.c>>)
                            ELSE IF it.k = "comm" THEN L("comm", <<>>, <<it.c>>) ELSE it]
                        \o <<L("blank", <<>>, <<>>)>> \o WriteSecs(v, j + 1)
AlgWrite(v) == [i \in 1..Len(v.header) |->
                   LET it == v.header[i] IN
                   IF it.k = "cont" THEN L("cont", it.t, IF it.c = <<>> THEN <<>> ELSE <<it.c>>)
                   ELSE IF it.k = "comm" THEN L("comm", <<>>, <<it.c>>) ELSE it]
               \o WriteSecs(v, 1)

(* ---- topology (C15) ---------------------------------------------------------------------- *)
SecItems(v, name) == IF \E j \in 1..Len(v.names) : v.names[j] = name
                     THEN v.items[CHOOSE j \in 1..Len(v.names) : v.names[j] = name] ELSE <<>>
ContOf(items) == SelectSeq(items, LAMBDA it : it.k = "cont")
AtomLines(v) == ContOf(SecItems(v, "atoms"))
(* atoms in file order: <<name, resname, resid-token>>; numbering token -> 0-based position *)
AtomsOf(v) == [i \in 1..Len(AtomLines(v)) |-> <<AtomLines(v)[i].t[5], AtomLines(v)[i].t[4], AtomLines(v)[i].t[3]>>]
PosOf(v, nr) == (CHOOSE i \in 1..Len(AtomLines(v)) : AtomLines(v)[i].t[1] = nr) - 1
BondLines(v) == ContOf(SecItems(v, "constraints")) \o ContOf(SecItems(v, "bonds")) \o ContOf(SecItems(v, "pairs"))
BondSet(v) == {{PosOf(v, BondLines(v)[i].t[1]), PosOf(v, BondLines(v)[i].t[2])} : i \in 1..Len(BondLines(v))}
MolName(v) == ContOf(SecItems(v, "moleculetype"))[1].t[1]
(* connectivity by fixpoint of reachability from atom 0 *)
RECURSIVE Reach(_, _)
Reach(B, S) == LET S2 == S \cup {b \in UNION B : \E a \in S : {a, b} \in B} IN IF S2 = S THEN S ELSE Reach(B, S2)
ConnectedG(n, B) == Reach(B, {0}) = 0..(n - 1)

VARIABLES phase, file, res
vars == <<phase, file, res>>
Init == phase = "case" /\ file \in Files /\ res = <<>>
Compute == /\ phase = "case" /\ phase' = "done" /\ UNCHANGED file
           /\ res' = View(file)
Next == Compute
Spec == Init /\ [][Next]_vars
Done == phase = "done"

(* the single pass computes the Abs view *)
PassIsView == Done => AlgRead(file) = View(file)
(* C16: write then read preserves the view, and is stable from then on *)
RoundTrip == Done => /\ View(AlgWrite(View(file))) = View(file)
                     /\ AlgWrite(View(AlgWrite(View(file)))) = AlgWrite(View(file))
(* every informative line of the file appears exactly once in the view *)
Conservation == Done =>
    LET v == View(file)
        RECURSIVE Sum(_)
        Sum(j) == IF j = 0 THEN 0 ELSE Len(v.items[j]) + Sum(j - 1)
    IN Len(v.header) + Sum(Len(v.names)) =
       Cardinality({i \in 1..Len(file) : file[i].k # "sec" /\ (IF i < FirstSec(file) THEN file[i].k # "blank" ELSE Informative(file[i]))})
=============================================================================
