--------------------------- MODULE Trace_Extrapolate ---------------------------
(***************************************************************************)
(* Trace validation of the real Manager against Extrapolate.tla.  Events:  *)
(*   AddEnd{sp}  CalcMaps  Extrapolate{outcome = "ok" | "error", file}     *)
(*   Mol{src, first, n, consecutive, resids, pos}  one per molecule found  *)
(*        in the written file (re-read with an independent fixed-column    *)
(*        parser; src = the input molecule it belongs to, decoded from the *)
(*        file the harness wrote), Close{natoms, title, box}               *)
(* The specification decides which input molecule must come next (cursor), *)
(* the running atom number and the final count.                            *)
(***************************************************************************)
EXTENDS Extrapolate, Json, IOUtils, TLCExt
Traces == ndJsonDeserialize(IOEnv.TRACE_FILE)
VARIABLES tid, l
Ev == Traces[tid].ev
Clause(name, e) == IF e THEN TRUE ELSE PrintT(<<"FAIL", Traces[tid].tid, l, name>>) /\ FALSE
IsOp(o) == l <= Len(Ev) /\ Ev[l].op = o /\ l' = l + 1 /\ UNCHANGED tid
SetOf(s) == {s[i] : i \in 1..Len(s)}
C == Traces[tid].cfg
TraceInit == /\ tid \in 1..Len(Traces) /\ l = 1
             /\ EInit([loaded |-> SetOf(C.loaded), tgt |-> C.tgt, mols |-> C.mols])
TrAddEnd == IsOp("AddEnd") /\ AddEnd(Ev[l].sp)
TrCalc == IsOp("CalcMaps") /\ CalcMaps
TrCompare == IsOp("Compare") /\ Clause("comparative_file_written", Ev[l].written) /\ Compare(Ev[l].sp)
TrExtra == /\ IsOp("Extrapolate")
           /\ Clause("error_iff_nothing_to_map_or_maps_missing", (Ev[l].outcome = "error") <=> ~Ready)
           /\ Clause("no_file_written_on_error", Ev[l].outcome = "error" => ~Ev[l].file)
           /\ IF Ready THEN Open ELSE ExtrapolateErr
NextComplete == IF \E k \in cursor..Len(cfg.mols) : cfg.mols[k] \in ends
                THEN CHOOSE k \in cursor..Len(cfg.mols) : cfg.mols[k] \in ends /\ \A j \in cursor..(k - 1) : cfg.mols[j] \notin ends
                ELSE 0
TrMol == /\ IsOp("Mol") /\ Clause("order_Mol", phase = "writing")
         /\ LET k == NextComplete IN
            /\ Clause("one_molecule_per_complete_input_molecule_in_file_order", k # 0 /\ Ev[l].src = k)
            /\ Clause("target_atom_count_names_and_order", Ev[l].n = cfg.tgt[cfg.mols[k]])
            /\ Clause("atom_numbers_run_consecutively_from_one", Ev[l].first = (natoms + 1) % 100000 /\ Ev[l].consecutive)     \* five columns: ..., 99999, 0, 1, ...
            /\ Clause("residue_numbers_of_the_input_molecule", Ev[l].resids)
            /\ Clause("equals_exchange_map_of_the_input_molecule", Ev[l].pos)
            /\ cursor' = k + 1 /\ natoms' = natoms + Ev[l].n
            /\ written' = Append(written, [src |-> k, first |-> natoms + 1, n |-> Ev[l].n])
         /\ UNCHANGED <<cfg, ends, maps, phase, out, outcome>>
TrClose == /\ IsOp("Close") /\ Clause("order_Close", phase = "writing")
           /\ Clause("no_complete_input_molecule_left_out", NextComplete = 0)
           /\ Clause("atom_count_is_sum_of_target_sizes", Ev[l].natoms = natoms /\ natoms = SumN(AbsFile(cfg, ends, 1, 0)))
           /\ Clause("title_copied", Ev[l].title)
           /\ Clause("box_copied", Ev[l].box)
           /\ phase' = "setup" /\ out' = "closed" /\ cursor' = Len(cfg.mols) + 1
           /\ UNCHANGED <<cfg, ends, maps, natoms, written, outcome>>
TrException == IsOp("Exception") /\ Clause("no_exception", FALSE) /\ UNCHANGED evars
TraceNext == TrAddEnd \/ TrCalc \/ TrCompare \/ TrExtra \/ TrMol \/ TrClose \/ TrException
TraceSpec == TraceInit /\ [][TraceNext]_<<evars, tid, l>>
Accepted == (l = Len(Ev) + 1) => PrintT(<<"ACC", Traces[tid].tid>>)
=============================================================================
