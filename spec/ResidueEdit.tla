----------------------------- MODULE ResidueEdit -----------------------------
(***************************************************************************)
(* EXTENSION (not one of the listed properties): the editing interface of  *)
(* coordinate-side residues (gaddlemaps.components.Residue / AtomGro).     *)
(*                                                                         *)
(* The world is a growing sequence of residue OBJECTS; a residue is a      *)
(* sequence of atoms [n: atom name, rn: residue name, rid: residue number, *)
(* id: atom number, x: one lattice coordinate].  Operations:               *)
(*   set_resname / set_resid / set_ids / move  change one object in place; *)
(*   remove      drops the FIRST atom that is equal (same name and residue *)
(*               name: the library's atom equality) to the designated one; *)
(*   add, add_atom, copy   create a NEW object from copies of the atoms;   *)
(*               add / add_atom are refused (ValueError, nothing created)  *)
(*               unless both sides carry the same residue identifier       *)
(*               (number followed by name).                                *)
(* What the specification fixes: every operation changes exactly the       *)
(* object it is applied to (objects never share atoms), a refused          *)
(* operation changes nothing, every object stays homogeneous (all atoms    *)
(* carry the same residue name and number), and a residue name longer than *)
(* five characters is cut to five.                                         *)
(***************************************************************************)
EXTENDS Integers, Sequences, FiniteSets, TLC

CONSTANTS MaxOps, MaxObjs, Inits     \* Inits: set of initial residues
VARIABLES objs, hist, init0
vars == <<objs, hist, init0>>

ResNames == {"RA", "RB", "LONGNAME"}
Cut(s) == IF s = "LONGNAME" THEN "LONGN" ELSE s
ResIds == {1, 2}
Shifts == {1, 0 - 2}

Key(r) == <<r[1].rid, r[1].rn>>                       \* the residue identifier (number followed by name)
AtomEq(a, b) == a.n = b.n /\ a.rn = b.rn               \* the library's atom equality
ResEq(r, s) == Len(r) = Len(s) /\ \A k \in 1..Len(r) : AtomEq(r[k], s[k])
EqMatrix(o) == [i \in 1..Len(o) |-> [j \in 1..Len(o) |-> ResEq(o[i], o[j])]]
FirstEqual(r, k) == CHOOSE m \in 1..Len(r) : AtomEq(r[m], r[k]) /\ \A q \in 1..(m - 1) : ~AtomEq(r[q], r[k])
Without(r, m) == [q \in 1..(Len(r) - 1) |-> IF q < m THEN r[q] ELSE r[q + 1]]

Init == /\ \E r \in Inits : objs = <<r>> /\ init0 = r
        /\ hist = <<>>
Log(op, a, arg, out) == /\ Len(hist) < MaxOps /\ init0' = init0
                        /\ hist' = Append(hist, [op |-> op, a |-> a, arg |-> arg, out |-> out, objs |-> objs', eq |-> EqMatrix(objs')])
Change(i, r) == objs' = [objs EXCEPT ![i] = r]

SetResname(i) == \E v \in ResNames : /\ Change(i, [k \in 1..Len(objs[i]) |-> [objs[i][k] EXCEPT !.rn = Cut(v)]])
                                     /\ Log("set_resname", i, <<v>>, "ok")
SetResid(i) == \E v \in ResIds : /\ Change(i, [k \in 1..Len(objs[i]) |-> [objs[i][k] EXCEPT !.rid = v]])
                                 /\ Log("set_resid", i, <<v>>, "ok")
Move(i) == \E d \in Shifts : /\ Change(i, [k \in 1..Len(objs[i]) |-> [objs[i][k] EXCEPT !.x = @ + d]])
                             /\ Log("move", i, <<d>>, "ok")
(* new atom numbers: a list of the right length, or one too many (refused) *)
SetIds(i) == \E extra \in {0, 1} :
               LET n == Len(objs[i]) + extra
                   v == [k \in 1..n |-> 10 * i + k]
               IN IF extra = 0
                  THEN Change(i, [k \in 1..Len(objs[i]) |-> [objs[i][k] EXCEPT !.id = v[k]]]) /\ Log("set_ids", i, v, "ok")
                  ELSE UNCHANGED objs /\ Log("set_ids", i, v, "IndexError")
Remove(i) == /\ Len(objs[i]) > 1
             /\ \E k \in 1..Len(objs[i]) : Change(i, Without(objs[i], FirstEqual(objs[i], k))) /\ Log("remove", i, <<k>>, "ok")
Add(i, j) == IF Key(objs[i]) = Key(objs[j])
             THEN /\ Len(objs) < MaxObjs /\ Len(objs[i]) + Len(objs[j]) <= 4
                  /\ objs' = Append(objs, objs[i] \o objs[j]) /\ Log("add", i, <<j>>, "ok")
             ELSE UNCHANGED objs /\ Log("add", i, <<j>>, "ValueError")
AddAtom(i, j) == \E k \in 1..Len(objs[j]) :
                   IF Key(objs[i]) = <<objs[j][k].rid, objs[j][k].rn>>
                   THEN /\ Len(objs) < MaxObjs /\ Len(objs[i]) < 4
                        /\ objs' = Append(objs, Append(objs[i], objs[j][k])) /\ Log("add_atom", i, <<j, k>>, "ok")
                   ELSE UNCHANGED objs /\ Log("add_atom", i, <<j, k>>, "ValueError")
Copy(i) == /\ Len(objs) < MaxObjs /\ objs' = Append(objs, objs[i]) /\ Log("copy", i, <<>>, "ok")

Objs == 1..Len(objs)
DoSetResname == \E i \in Objs : SetResname(i)
DoSetResid == \E i \in Objs : SetResid(i)
DoMove == \E i \in Objs : Move(i)
DoSetIds == \E i \in Objs : SetIds(i)
DoRemove == \E i \in Objs : Remove(i)
DoCopy == \E i \in Objs : Copy(i)
DoAdd == \E i \in Objs : \E j \in Objs : Add(i, j)
DoAddAtom == \E i \in Objs : \E j \in Objs : AddAtom(i, j)
Next == DoSetResname \/ DoSetResid \/ DoMove \/ DoSetIds \/ DoRemove \/ DoCopy \/ DoAdd \/ DoAddAtom
Spec == Init /\ [][Next]_vars

(* ---- properties --------------------------------------------------------------------- *)
Homogeneous == \A i \in 1..Len(objs) : Len(objs[i]) >= 1 /\ \A k \in 1..Len(objs[i]) : <<objs[i][k].rid, objs[i][k].rn>> = Key(objs[i])
NamesFit == \A i \in 1..Len(objs) : objs[i][1].rn # "LONGNAME"
(* an operation changes the object it is applied to, or creates one; the others keep their atoms *)
OnlyTheTarget == [][hist' # hist =>
                      LET h == hist'[Len(hist')] IN
                      /\ Len(objs') \in {Len(objs), Len(objs) + 1}
                      /\ \A q \in 1..Len(objs) : q # h.a => objs'[q] = objs[q]
                      /\ (h.op \in {"add", "add_atom", "copy"} => objs'[h.a] = objs[h.a])]_vars
RefusedChangesNothing == [][(hist' # hist /\ hist'[Len(hist')].out # "ok") => objs' = objs]_vars
(* a copy is equal to its source, an addition has the atoms of both in order *)
CopyEqual == [][(hist' # hist /\ hist'[Len(hist')].op = "copy") => ResEq(objs'[Len(objs')], objs[hist'[Len(hist')].a])]_vars
=============================================================================
