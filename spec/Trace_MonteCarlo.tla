-------------------------- MODULE Trace_MonteCarlo --------------------------
(***************************************************************************)
(* Trace validation of the real Monte-Carlo loop against MonteCarlo.tla.   *)
(* One event per specification action, recorded by wrapping the names the  *)
(* loop resolves at call time (Chi2Calculator, accept_metropolis,          *)
(* move_mol_atom, numpy.random.choice / rand):                             *)
(*   Start{tok, rk}  Choose{k}  Eval{tok, rk, relT, relR, relB, mbase,     *)
(*   mout, finite}  Judge{e0, e1, verdict, ucmp}  Return{tok}              *)
(* tok = interned configuration, rk / e0 / e1 = dense order ranks of the   *)
(* very floats the loop compares, relT / relR = tokens of the candidate    *)
(* configurations of which the proposal is a translation / a rotation      *)
(* about the centroid, relB = every tabulated bond has its length,         *)
(* mbase / mout = argument / result of the single-atom move (0 = not       *)
(* observed), ucmp = "le" | "gt" | "tie" | "none": the observed uniform    *)
(* draw against 0.01*e0/e1.  counter and minE are NOT logged: TLC infers   *)
(* them, so the exact-stop clauses are decided by the specification.       *)
(***************************************************************************)
EXTENDS MonteCarlo, Json, IOUtils, TLCExt
Traces == ndJsonDeserialize(IOEnv.TRACE_FILE)
VARIABLES tid, l
Ev == Traces[tid].ev
Clause(name, e) == IF e THEN TRUE ELSE PrintT(<<"FAIL", Traces[tid].tid, l, name>>) /\ FALSE
IsOp(o) == l <= Len(Ev) /\ Ev[l].op = o /\ l' = l + 1 /\ UNCHANGED tid
SetOf(s) == {s[i] : i \in 1..Len(s)}

TraceInit == /\ tid \in 1..Len(Traces) /\ l = 1
             /\ CoreInit([nSteps |-> Traces[tid].cfg.nSteps, types |-> SetOf(Traces[tid].cfg.types),
                          tree |-> Traces[tid].cfg.tree])

TrStart == IsOp("Start") /\ Clause("event_order_Start", pc = "start") /\ Start(Ev[l].tok, Ev[l].rk)

TrChoose == /\ IsOp("Choose")
            /\ Clause("event_order_Choose", pc = "choose")
            /\ Clause("stops_when_budget_is_spent", counter < cfg.nSteps)
            /\ Clause("kind_enabled", Ev[l].k \in cfg.types)
            /\ Choose(Ev[l].k)

FromHeld(e) == CASE kind = 0 -> held \in SetOf(e.relT)
                 [] kind = 1 -> held \in SetOf(e.relR)
                 [] OTHER -> (e.mbase = 0) \/ (e.mbase = held /\ e.mout = e.tok)
TrEval == /\ IsOp("Eval")
          /\ Clause("event_order_Eval", pc = "eval")
          /\ Clause("proposal_is_move_of_held_configuration", FromHeld(Ev[l]))
          /\ Clause("single_atom_move_keeps_bonds", (kind = 2 /\ cfg.tree) => Ev[l].relB)
          /\ Evaluate(Ev[l].tok, Ev[l].rk)

TrJudge == /\ IsOp("Judge")
           /\ Clause("event_order_Judge", pc = "judge")
           /\ Clause("judged_against_held_measure", Ev[l].e0 = heldE)
           /\ Clause("judged_measure_is_of_proposal", Ev[l].e1 = newE)
           /\ Clause("held_measure_is_the_measure_of_the_held_configuration", Ev[l].e0fresh)
           /\ Clause("better_or_equal_always_accepted", (newE <= heldE) => Ev[l].verdict)
           /\ Clause("metropolis_rule", (newE > heldE) => /\ (Ev[l].ucmp = "le" => Ev[l].verdict)
                                                          /\ (Ev[l].ucmp = "gt" => ~Ev[l].verdict))
           /\ (JudgeBetter \/ JudgeWorse(Ev[l].verdict))

TrReturn == /\ IsOp("Return")
            /\ Clause("event_order_Return", pc = "choose")
            /\ Clause("stops_exactly_at_budget", counter = cfg.nSteps)
            /\ Clause("returns_last_accepted_configuration", Ev[l].tok = held)
            /\ Stop

(* the observation was cut after a step cap (termination is not claimed): the prefix is validated *)
TrTruncated == IsOp("Truncated") /\ Clause("event_order_Truncated", pc = "choose") /\ pc' = "done"
               /\ UNCHANGED <<cfg, held, heldE, minE, counter, kind, test, newE, ret>>
TrException == IsOp("Exception") /\ Clause("no_exception", FALSE) /\ UNCHANGED core
TraceNext == TrStart \/ TrChoose \/ TrEval \/ TrJudge \/ TrReturn \/ TrTruncated \/ TrException
TraceSpec == TraceInit /\ [][TraceNext]_<<core, tid, l>>
Accepted == (l = Len(Ev) + 1 /\ pc = "done") => PrintT(<<"ACC", Traces[tid].tid>>)
=============================================================================
