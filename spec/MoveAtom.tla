------------------------------ MODULE MoveAtom ------------------------------
(***************************************************************************)
(* The bond-restoring traversal of gaddlemaps move_mol_atom.               *)
(*                                                                         *)
(* A molecule is a graph on atoms 1..n with, per atom, the ORDER of its    *)
(* neighbours in the bond table.  One atom (root) is displaced; then atoms *)
(* are re-placed one at a time: Restore(p, c) moves c along the line p-c   *)
(* until the bond p-c has its tabulated length - which makes every other   *)
(* bond of c inexact - and claims the still unclaimed neighbours of c.     *)
(*                                                                         *)
(* Abs : any frontier edge may be processed next.                          *)
(* Alg : the implementation's LIFO stack (Mode = "alg").                   *)
(* At termination: every atom of the root's component was moved exactly    *)
(* once; on a tree every bond is exact; on any graph the bonds of the      *)
(* traversal tree are exact and the tree spans the component.              *)
(***************************************************************************)
EXTENDS Integers, Sequences, FiniteSets, TLC

CONSTANTS Cases,   \* set of [n, adj, root]: adj[a] = sequence of neighbours of a in table order
          Mode     \* "alg" | "abs"

VARIABLES cs,        \* the case
          pc,        \* "start" | "run" | "done"
          moved,     \* atoms whose position was changed (root by the displacement)
          claimed,   \* atoms removed from the waiting list
          frontier,  \* Alg: stack (sequence) of <<p, c>>, last = top
          exact,     \* set of bonds {a, b} currently at their tabulated length
          parent,    \* traversal tree: parent[c] (0 = none)
          order      \* the sequence of Restore steps taken
vars == <<cs, pc, moved, claimed, frontier, exact, parent, order>>

Atoms == 1..cs.n
Nbrs(a) == {cs.adj[a][i] : i \in 1..Len(cs.adj[a])}
AllBonds == UNION {{{a, b} : b \in Nbrs(a)} : a \in Atoms}

Init == /\ cs \in Cases /\ pc = "start" /\ moved = {} /\ claimed = {} /\ frontier = <<>>
        /\ exact = {} /\ parent = <<>> /\ order = <<>>

(* neighbours of a not yet claimed, in table order *)
NewOf(a, cl) == SelectSeq(cs.adj[a], LAMBDA b : b \notin cl)
RECURSIVE Dedup(_)
Dedup(s) == IF Len(s) = 0 THEN <<>> ELSE IF \E i \in 2..Len(s) : s[i] = s[1] THEN Dedup(Tail(s)) ELSE <<s[1]>> \o Dedup(Tail(s))

(* the root is displaced: all its bonds become inexact (whatever they were), its neighbours are claimed *)
Displace == /\ pc = "start" /\ pc' = "run"
            /\ moved' = {cs.root}
            /\ LET new == NewOf(cs.root, {cs.root}) IN
               /\ claimed' = {cs.root} \cup {new[i] : i \in 1..Len(new)}
               /\ frontier' = [i \in 1..Len(new) |-> <<cs.root, new[i]>>]
               /\ parent' = [a \in Atoms |-> IF \E i \in 1..Len(new) : new[i] = a THEN cs.root ELSE 0]
            /\ exact' = {}
            /\ UNCHANGED <<cs, order>>

RestoreAt(k) == LET p == frontier[k][1]
                    c == frontier[k][2]
                    rest == [i \in 1..(Len(frontier) - 1) |-> IF i < k THEN frontier[i] ELSE frontier[i + 1]]
                    new == NewOf(c, claimed)
                IN /\ c \notin moved
                   /\ moved' = moved \cup {c}
                   /\ exact' = {b \in exact : c \notin b} \cup {{p, c}}
                   /\ claimed' = claimed \cup {new[i] : i \in 1..Len(new)}
                   /\ frontier' = rest \o [i \in 1..Len(new) |-> <<c, new[i]>>]
                   /\ parent' = [a \in Atoms |-> IF \E i \in 1..Len(new) : new[i] = a THEN c ELSE parent[a]]
                   /\ order' = Append(order, <<p, c>>)
                   /\ UNCHANGED <<cs, pc>>
Restore == /\ pc = "run" /\ Len(frontier) > 0
           /\ IF Mode = "alg" THEN RestoreAt(Len(frontier))      \* LIFO
              ELSE \E k \in 1..Len(frontier) : RestoreAt(k)
Finish == /\ pc = "run" /\ Len(frontier) = 0 /\ pc' = "done"
          /\ UNCHANGED <<cs, moved, claimed, frontier, exact, parent, order>>
Next == Displace \/ Restore \/ Finish
Spec == Init /\ [][Next]_vars

(* ---- properties ---------------------------------------------------------------------------- *)
RECURSIVE Reach(_)
Reach(S) == LET S2 == S \cup UNION {Nbrs(a) : a \in S} IN IF S2 = S THEN S ELSE Reach(S2)
Component == Reach({cs.root})
IsTree == Component = Atoms /\ Cardinality(AllBonds) = cs.n - 1
TreeEdges == {{parent[c], c} : c \in {a \in Atoms : pc # "start" /\ parent[a] # 0}}

MovedOnce == pc = "done" => moved = Component                     \* (c \notin moved is a guard of Restore)
TreeExact == (pc = "done" /\ IsTree) => exact = AllBonds
TraversalExact == pc = "done" => /\ TreeEdges \subseteq exact
                                 /\ \A c \in Component \ {cs.root} : parent[c] # 0 /\ parent[c] \in Component
                                 /\ Cardinality(TreeEdges) = Cardinality(Component) - 1
NeverTwice == [][\A c \in moved : c \in moved']_vars
=============================================================================
