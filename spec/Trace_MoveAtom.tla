-------------------------- MODULE Trace_MoveAtom --------------------------
(***************************************************************************)
(* Trace validation of move_mol_atom / find_atom_random_displ against the  *)
(* Abs layer of MoveAtom.tla (any frontier order).  The harness records    *)
(* the order in which the implementation looked up atoms in the bond table *)
(* (= the atoms it re-placed), the set of bonds that are exact at the end  *)
(* (measured, 1e-9 relative) and relation booleans for the displacement.   *)
(***************************************************************************)
EXTENDS MoveAtom, Json, IOUtils, TLCExt
Traces == ndJsonDeserialize(IOEnv.TRACE_FILE)
VARIABLES tid, l
Ev == Traces[tid].ev
Clause(name, e) == IF e THEN TRUE ELSE PrintT(<<"FAIL", Traces[tid].tid, l, name>>) /\ FALSE
IsOp(o) == l <= Len(Ev) /\ Ev[l].op = o /\ l' = l + 1 /\ UNCHANGED tid

TraceInit == /\ tid \in 1..Len(Traces) /\ l = 1
             /\ cs = [n |-> Traces[tid].cfg.n, adj |-> Traces[tid].cfg.adj, root |-> Traces[tid].cfg.root]
             /\ pc = "start" /\ moved = {} /\ claimed = {} /\ frontier = <<>>
             /\ exact = {} /\ parent = <<>> /\ order = <<>>

TrDisplace == /\ IsOp("Displace") /\ Displace
              /\ Clause("moved_atom_displaced_by_exactly_the_vector", Ev[l].exact_vector)
              /\ Clause("input_array_not_modified", Ev[l].input_intact)
(* the implementation re-placed atom c: it must be on the frontier *)
TrRestore == /\ IsOp("Restore") /\ pc = "run"
             /\ Clause("restored_atom_is_on_the_frontier", \E k \in 1..Len(frontier) : frontier[k][2] = Ev[l].c)
             /\ \E k \in 1..Len(frontier) : frontier[k][2] = Ev[l].c /\ RestoreAt(k)
ObsExact == {{Ev[l].exact[i][1], Ev[l].exact[i][2]} : i \in 1..Len(Ev[l].exact)}
TrEnd == /\ IsOp("End") /\ pc = "run" /\ UNCHANGED vars
         /\ Clause("finite_output", Ev[l].finite)
         /\ Clause("every_claimed_atom_was_restored", Len(frontier) = 0)
         /\ Clause("moved_the_whole_component", moved = Component)
         /\ Clause("tree_all_bonds_exact", IsTree => AllBonds \subseteq ObsExact)
         /\ Clause("traversal_tree_bonds_exact", TreeEdges \subseteq ObsExact)
         /\ Clause("untouched_atoms_unchanged", Ev[l].others_intact)
(* a random displacement of atom root *)
TrDraw == /\ IsOp("Draw") /\ UNCHANGED vars
          /\ Clause("draw_finite", Ev[l].finite)
          /\ Clause("draw_perpendicular", Ev[l].perp)
TraceNext == TrDisplace \/ TrRestore \/ TrEnd \/ TrDraw
TraceSpec == TraceInit /\ [][TraceNext]_<<vars, tid, l>>
Accepted == (l = Len(Ev) + 1) => PrintT(<<"ACC", Traces[tid].tid>>)
=============================================================================
