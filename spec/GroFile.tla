------------------------------ MODULE GroFile ------------------------------
(***************************************************************************)
(* Writer / reader protocol of a .gro coordinate file (gaddlemaps          *)
(* parsers.GroFile), at the granularity of the public calls, with the      *)
(* close() call split into its three file operations so that every crash   *)
(* point of the writer is a state.                                         *)
(*                                                                         *)
(* `bytes` is the file content, one character per element.  The reader is  *)
(* the operator Read(bytes); it follows the code's cursor arithmetic       *)
(* (header size, line size taken from the first record, box line found at  *)
(* header + natoms * line size).                                           *)
(*                                                                         *)
(* Properties:  C13  (RoundTrip, UniformLines, CountField)                 *)
(*              C14  (CrashRejected, TruncationSafe)                       *)
(***************************************************************************)
EXTENDS GroFormat, TLC

CONSTANTS Titles,       \* set of title values: UnsetTitle or a sequence of characters
          Declared,     \* set of declared atom counts; NoCount = filled in on close
          Formats,      \* set of position formats: UnsetFmt or <<w, d>>
          Boxes,        \* set of boxes: UnsetBox or a 9-sequence of Fixed (row major)
          Records,      \* palette of atom records
          MaxRecs,      \* maximal number of records per file
          MaxRejects    \* maximal number of rejected writeline calls explored per file

NoCount == 0 - 1
DefaultTitle == <<"<DEFAULT>">>     \* stands for the library's default comment text
ZeroBox == [k \in 1..9 |-> FixedZero]

VARIABLES mode,      \* "setup" | "body" | "closing1" | "closing2" | "closed" | "failed"
          title, declared, fmt, box,   \* writer settings ("unset" or a value)
          vel,       \* "unset" | "yes" | "no" : fixed by the first record
          recs,      \* records written so far (the abstract content)
          bytes,     \* the file
          initPos, lineSize, cur, filePos,   \* the writer's cursors
          outcome,   \* result of the last call: "ok" | "OSError"
          hist       \* the calls made so far (for replay on the implementation)

vars == <<mode, title, declared, fmt, box, vel, recs, bytes, initPos, lineSize, cur, filePos, outcome, hist>>

UnsetTitle == <<"<UNSET>">>
UnsetFmt == <<0, 0>>
UnsetBox == <<>>
TitleText == IF title = UnsetTitle THEN DefaultTitle ELSE title
Fmt == IF fmt = UnsetFmt THEN <<8, 3>> ELSE fmt
Box == IF box = UnsetBox THEN ZeroBox ELSE box

(* write data at 0-based offset pos (overwrite, then extend) *)
WriteAt(b, pos, data) ==
    [i \in 1..(IF pos + Len(data) > Len(b) THEN pos + Len(data) ELSE Len(b)) |->
        IF i > pos /\ i <= pos + Len(data) THEN data[i - pos] ELSE b[i]]

Init == /\ mode = "setup" /\ title = UnsetTitle /\ declared = NoCount /\ fmt = UnsetFmt /\ box = UnsetBox
        /\ vel = "unset" /\ recs = <<>> /\ bytes = <<>> /\ initPos = 0 - 1 /\ lineSize = 0 - 1
        /\ cur = 0 /\ filePos = 0 /\ outcome = "ok" /\ hist = <<>>

(* setters, before the first record, in a canonical order (each at most once) *)
SetTitle(t) == /\ mode = "setup" /\ hist = <<>>
               /\ title' = t /\ hist' = Append(hist, [op |-> "title", v |-> t])
               /\ UNCHANGED <<mode, declared, fmt, box, vel, recs, bytes, initPos, lineSize, cur, filePos, outcome>>
SetDeclared(n) == /\ mode = "setup" /\ \A i \in 1..Len(hist) : hist[i].op \in {"title"}
                  /\ declared' = n /\ hist' = Append(hist, [op |-> "natoms", v |-> n])
                  /\ UNCHANGED <<mode, title, fmt, box, vel, recs, bytes, initPos, lineSize, cur, filePos, outcome>>
SetFormat(f) == /\ mode = "setup" /\ \A i \in 1..Len(hist) : hist[i].op \in {"title", "natoms"}
                /\ fmt' = f /\ hist' = Append(hist, [op |-> "format", v |-> f])
                /\ UNCHANGED <<mode, title, declared, box, vel, recs, bytes, initPos, lineSize, cur, filePos, outcome>>
SetBox(b) == /\ mode = "setup" /\ \A i \in 1..Len(hist) : hist[i].op \in {"title", "natoms", "format"}
             /\ box' = b /\ hist' = Append(hist, [op |-> "box", v |-> b])
             /\ UNCHANGED <<mode, title, declared, fmt, vel, recs, bytes, initPos, lineSize, cur, filePos, outcome>>

HeaderBytes == (IF Len(TitleText) > 0 /\ TitleText[Len(TitleText)] = NL THEN TitleText ELSE TitleText \o <<NL>>)
               \o (IF declared = NoCount THEN Rep(SP, 9) ELSE DigitsOf(declared)) \o <<NL>>

(* writeline(record).  The first record writes the header and fixes the velocity mode. *)
WriteFirst(r) ==
    /\ mode = "setup" /\ MaxRecs > 0
    /\ LET line == AtomLine(r, Fmt[1], Fmt[2]) \o <<NL>> IN
       /\ bytes' = HeaderBytes \o line
       /\ initPos' = Len(HeaderBytes)
       /\ lineSize' = Len(line)
       /\ filePos' = Len(HeaderBytes) + Len(line)
    /\ vel' = (IF r.vel # <<>> THEN "yes" ELSE "no") /\ recs' = <<r>> /\ cur' = 1 /\ mode' = "body" /\ outcome' = "ok"
    /\ hist' = Append(hist, [op |-> "write", v |-> r])
    /\ UNCHANGED <<title, declared, fmt, box>>
WriteNext(r) ==
    /\ mode = "body" /\ Len(recs) < MaxRecs
    /\ IF (IF r.vel # <<>> THEN "yes" ELSE "no") = vel
       THEN LET line == AtomLine(r, Fmt[1], Fmt[2]) \o <<NL>> IN
            /\ bytes' = WriteAt(bytes, filePos, line) /\ filePos' = filePos + Len(line)
            /\ recs' = Append(recs, r) /\ cur' = cur + 1 /\ outcome' = "ok"
       ELSE /\ Cardinality({i \in 1..Len(hist) : hist[i].op = "write"}) - Len(recs) < MaxRejects
            /\ outcome' = "OSError" /\ UNCHANGED <<bytes, filePos, recs, cur>>   \* rejected, nothing written
    /\ hist' = Append(hist, [op |-> "write", v |-> r])
    /\ UNCHANGED <<mode, title, declared, fmt, box, vel, initPos, lineSize>>

(* close(), step 1: back-fill the count (or check the declared one) *)
Close1 == /\ mode = "body"
          /\ IF declared = NoCount
             THEN /\ bytes' = WriteAt(bytes, initPos - 10, FmtInt(cur, 9) \o <<NL>>)
                  /\ filePos' = initPos
                  /\ declared' = cur /\ mode' = "closing1" /\ outcome' = "ok"
             ELSE IF declared = cur
                  THEN /\ mode' = "closing1" /\ outcome' = "ok" /\ UNCHANGED <<bytes, filePos, declared>>
                  ELSE /\ mode' = "failed" /\ outcome' = "OSError" /\ UNCHANGED <<bytes, filePos, declared>>
          /\ hist' = Append(hist, [op |-> "close"])
          /\ UNCHANGED <<title, fmt, box, vel, recs, initPos, lineSize, cur>>
(* step 2: seek to the end of the records and write the box line; step 3: its newline *)
Close2 == /\ mode = "closing1"
          /\ LET pos == initPos + declared * lineSize IN
             /\ bytes' = WriteAt(bytes, pos, BoxLine(Box)) /\ filePos' = pos + Len(BoxLine(Box))
          /\ mode' = "closing2"
          /\ UNCHANGED <<title, declared, fmt, box, vel, recs, initPos, lineSize, cur, outcome, hist>>
Close3 == /\ mode = "closing2"
          /\ bytes' = WriteAt(bytes, filePos, <<NL>>) /\ filePos' = filePos + 1
          /\ mode' = "closed"
          /\ UNCHANGED <<title, declared, fmt, box, vel, recs, initPos, lineSize, cur, outcome, hist>>

Next == \/ \E t \in Titles : SetTitle(t)
        \/ \E n \in Declared : SetDeclared(n)
        \/ \E f \in Formats : SetFormat(f)
        \/ \E b \in Boxes : SetBox(b)
        \/ \E r \in Records : WriteFirst(r) \/ WriteNext(r)
        \/ Close1 \/ Close2 \/ Close3

Spec == Init /\ [][Next]_vars

(***************************************************************************)
(* The reader (open in read mode + readlines + box + title)                *)
(***************************************************************************)
Err == [ok |-> FALSE]
(* the records: the reader takes natoms consecutive lines; every one must have the length of
   the first (otherwise it raises), so line i starts at init + (i-1) * size *)
ReadRecs(b, init, size, n, w, d, hv) ==
    LET ps == [i \in 1..n |-> LET line == LineAt(b, init + (i - 1) * size)
                              IN IF Len(line) # size /\ Len(StripNL(line)) # size - 1 THEN Err
                                 ELSE ParseAtomLine(line, w, d, hv)]
    IN IF \E i \in 1..n : ~ps[i].ok THEN Err
       ELSE [ok |-> TRUE, recs |-> [i \in 1..n |-> ps[i].rec]]

Read(b) ==
    LET l1 == LineAt(b, 0)
        l2 == LineAt(b, Len(l1))
        n  == ParseInt(l2)
        init == Len(l1) + Len(l2)
        first == LineAt(b, init)
        f  == IF first = <<>> THEN Err ELSE DetermineFormat(first)
    IN IF l1 = <<>> \/ n = Bad \/ n < 0 \/ ~f.ok THEN Err
       ELSE LET size == Len(first)
                bl   == LineAt(b, init + n * size)
                pb   == IF bl = <<>> THEN Err ELSE ParseBoxLine(bl)
                rr   == IF pb.ok THEN ReadRecs(b, init, size, n, f.w, f.d, f.vel) ELSE Err
            IN IF ~pb.ok \/ ~rr.ok THEN Err
               ELSE [ok |-> TRUE, title |-> l1, natoms |-> n, fmt |-> <<f.w, f.d>>, vel |-> f.vel,
                     recs |-> rr.recs, box |-> pb.box]

(***************************************************************************)
(* What property C13 demands of a successfully closed file                 *)
(***************************************************************************)
RecordOK(r, q) ==   \* q read back for r written
    /\ q.resname = r.resname /\ q.name = r.name
    /\ WrapOK(r.resid, q.resid) /\ WrapOK(r.nr, q.nr)
    /\ \A k \in 1..3 : FixedEq(r.pos[k], q.pos[k])
    /\ Len(q.vel) = Len(r.vel) /\ \A k \in 1..Len(r.vel) : FixedEq(r.vel[k], q.vel[k])

TitleOK(t, l1) == StripNL(l1) = StripNL(t)

RoundTripOf(b, rs, t, f, bx) ==
    LET rd == Read(b) IN
    /\ rd.ok
    /\ rd.natoms = Len(rs) /\ Len(rd.recs) = Len(rs)
    /\ \A i \in 1..Len(rs) : RecordOK(rs[i], rd.recs[i])
    /\ rd.fmt = f
    /\ \A k \in 1..9 : FixedEq(rd.box[k], bx[k])
    /\ TitleOK(t, rd.title)

RoundTrip == mode = "closed" => RoundTripOf(bytes, recs, TitleText, Fmt, Box)

(* every atom line has the same byte length, whatever the numbers *)
AtomLinesOf(b, init, n, size) == [i \in 1..n |-> LineAt(b, init + (i - 1) * size)]
UniformLines == mode \in {"body", "closing1", "closing2", "closed"} =>
    \A i \in 1..Len(recs) : Len(LineAt(bytes, initPos + (i - 1) * lineSize)) = lineSize

(* the count field is right in both modes *)
CountField == mode = "closed" => ParseInt(LineAt(bytes, Len(LineAt(bytes, 0)))) = Len(recs)

(* C14: a file whose writer stopped before close() finished is never accepted, except that once
   the box line is on disk (closing2) the file is complete up to its final newline *)
CrashRejected == mode \in {"setup", "body", "closing1", "failed"} => ~Read(bytes).ok
CrashAfterBox == mode = "closing2" => RoundTripOf(bytes, recs, TitleText, Fmt, Box)

(* C14, byte-level: every proper prefix that ends before the box line is rejected; an accepted
   prefix returns exactly the records of the complete file.  BoxStart = 0-based offset of the
   box line. *)
BoxStart == initPos + Len(recs) * lineSize
Prefix(b, k) == SubSeq(b, 1, k)
TruncationSafe == mode = "closed" =>
    \A k \in 0..(Len(bytes) - 1) :
        LET rd == Read(Prefix(bytes, k)) IN
        /\ (k <= BoxStart => ~rd.ok)
        /\ (rd.ok => /\ Len(rd.recs) = Len(recs)
                     /\ \A i \in 1..Len(recs) : RecordOK(recs[i], rd.recs[i]))

(* layout facts the code's cursor arithmetic relies on *)
Layout == mode \in {"body", "closing1", "closing2", "closed"} =>
    /\ initPos = Len(LineAt(bytes, 0)) + Len(LineAt(bytes, Len(LineAt(bytes, 0))))
    /\ (mode = "body" => filePos = Len(bytes) /\ Len(bytes) = initPos + cur * lineSize)
    /\ (mode = "closing1" => Len(bytes) = initPos + cur * lineSize /\ declared = cur)
=============================================================================
