------------------------------ MODULE Alignment ------------------------------
(***************************************************************************)
(* Alignment.align_molecules as a state machine over SHAPE LEVELS.         *)
(*                                                                         *)
(* Four objects: the caller's start and end molecules (cs, ce) and the     *)
(* Alignment's own copies (as, ae).  Every object carries the level of the *)
(* weakest relation that connects its current conformation with the        *)
(* conformation the caller supplied:                                       *)
(*    0 identical   1 translated   2 rigid motion   3 tabulated bond       *)
(*    lengths kept  4 anything                                             *)
(* Actions are the critical sections of the code: the copies taken by the  *)
(* setters, the translation of the start copy onto the end's centre, the   *)
(* role selection (the molecule with fewer atoms is the mobile one; ties:  *)
(* the end), the early return for a one-atom end, the Monte-Carlo steps on *)
(* the optimiser's work array, and the write-back to the mobile copy only. *)
(* Promise(o) is what property C06 states; TLC shows level[o] <= Promise   *)
(* in every reachable state, and recorded runs are validated against the   *)
(* same operator (Trace_Alignment.tla).                                    *)
(***************************************************************************)
EXTENDS Integers, Sequences, FiniteSets, TLC

VARIABLES cfg,      \* [nS, nE, types, tree]   tree: bond graph of the mobile molecule is acyclic
          pc,       \* "new" | "ready" | "moved" | "roles" | "mc" | "done"
          level,    \* [cs, ce, as, ae] -> 0..4
          mobile,   \* "as" | "ae" | "none"
          work      \* level of the optimiser's array relative to the mobile molecule at entry
avars == <<cfg, pc, level, mobile, work>>

Max(a, b) == IF a >= b THEN a ELSE b
Objs == {"cs", "ce", "as", "ae"}
MobileOf(c) == IF c.nS < c.nE THEN "as" ELSE "ae"
(* level a single accepted step of kind k may establish *)
StepLevel(c, k) == CASE k = 0 -> 1 [] k = 1 -> 2 [] OTHER -> IF c.tree THEN 3 ELSE 4

(* ---- what the property promises ----------------------------------------------------------- *)
Promise(c, o) ==
    IF o \in {"cs", "ce"} THEN 0                       \* the caller's objects are never modified
    ELSE IF o # MobileOf(c)
         THEN (IF o = "as" THEN 1 ELSE 0)              \* the larger one: translated (start) / untouched (end)
         ELSE LET base == IF o = "as" THEN 1 ELSE 0    \* the start copy is first translated onto the end
                  byTypes == IF c.nE = 1 THEN 0
                             ELSE IF 2 \in c.types THEN (IF c.tree THEN 3 ELSE 4)
                             ELSE IF 1 \in c.types THEN 2 ELSE 1
              IN Max(base, byTypes)

AInit(c) == /\ cfg = c /\ pc = "new" /\ mobile = "none" /\ work = 0
            /\ level = [o \in Objs |-> 0]

Construct == /\ pc = "new" /\ pc' = "ready"          \* setters copy: as, ae start identical to cs, ce
             /\ UNCHANGED <<cfg, level, mobile, work>>
MoveStart == /\ pc = "ready" /\ pc' = "moved"
             /\ level' = [level EXCEPT !["as"] = Max(@, 1)]
             /\ UNCHANGED <<cfg, mobile, work>>
SelectRoles == /\ pc = "moved" /\ pc' = "roles"
               /\ mobile' = MobileOf(cfg)
               /\ UNCHANGED <<cfg, level, work>>
Early == /\ pc = "roles" /\ cfg.nE = 1 /\ pc' = "done"
         /\ UNCHANGED <<cfg, level, mobile, work>>
Enter == /\ pc = "roles" /\ cfg.nE # 1 /\ pc' = "mc" /\ work' = 0
         /\ UNCHANGED <<cfg, level, mobile>>
Step(k, acc) == /\ pc = "mc" /\ k \in cfg.types
                /\ work' = IF acc THEN Max(work, StepLevel(cfg, k)) ELSE work
                /\ UNCHANGED <<cfg, pc, level, mobile>>
WriteBack == /\ pc = "mc" /\ pc' = "done"
             /\ level' = [level EXCEPT ![mobile] = Max(@, work)]
             /\ UNCHANGED <<cfg, mobile, work>>

Kept == \A o \in Objs : level[o] <= Promise(cfg, o)
=============================================================================
