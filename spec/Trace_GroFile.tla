--------------------------- MODULE Trace_GroFile ---------------------------
(***************************************************************************)
(* Trace validation for GroFile: every recorded execution of the real      *)
(* parsers.GroFile writer/reader must be a behaviour of GroFile.tla, and   *)
(* the observations it carries must satisfy what C13 / C14 demand.         *)
(*                                                                         *)
(* One JSON line per trace: [tid, kind, ev].  kind = "exact": the history  *)
(* is replayed through the specification's own actions (values on the      *)
(* decimal grid, spec-computed bytes).  kind = "adm": a randomly generated *)
(* file; the specification's reader and the C13 predicates are evaluated   *)
(* on the real bytes with, for every float, the set of admissible          *)
(* fixed-point values (within half a unit of the last decimal).            *)
(*                                                                         *)
(* Verdicts are total: every trace prints ACC or one FAIL line naming the  *)
(* first failing clause.  Clauses whose name starts with "alg_" compare    *)
(* with the implementation-shaped part of the specification only; they are *)
(* reported as notes, not as property violations.                          *)
(***************************************************************************)
EXTENDS GroFile, Json, IOUtils, TLCExt

Traces == ndJsonDeserialize(IOEnv.TRACE_FILE)

VARIABLES tid, l
tvars == <<vars, tid, l>>

Ev == Traces[tid].ev
Kind == Traces[tid].kind

(* clauses that belong to a sibling property of the same engine are not evaluated by this check (they would
   otherwise mask a later clause of this property on the same trace); the sibling check evaluates them *)
CONSTANT SkipClauses
Clause(name, e) == IF name \in SkipClauses \/ e THEN TRUE ELSE PrintT(<<"FAIL", Traces[tid].tid, l, name>>) /\ FALSE
Note(name, e) == IF e THEN TRUE ELSE PrintT(<<"NOTE", Traces[tid].tid, l, name>>)

ToFixed(j) == Fixed(j.neg, j.ip, j.fr)
ToRec(j) == [resid |-> j.resid, resname |-> j.resname, name |-> j.name, nr |-> j.nr,
             pos |-> [k \in 1..3 |-> ToFixed(j.pos[k])],
             vel |-> [k \in 1..Len(j.vel) |-> ToFixed(j.vel[k])]]
ToBox(j) == [k \in 1..9 |-> ToFixed(j[k])]

(* the library's default title is not part of the property: the harness replaces it by the
   pseudo character of DefaultTitle before logging *)
IsOp(o) == l <= Len(Ev) /\ Ev[l].op = o /\ l' = l + 1 /\ UNCHANGED tid

TraceInit == /\ Init /\ tid \in 1..Len(Traces) /\ l = 1

(* ---- exact traces ------------------------------------------------------------------- *)
TrSetTitle == IsOp("title") /\ Kind = "exact" /\ SetTitle(Ev[l].v)
              /\ Clause("setter_accepts_valid_value", Ev[l].out = "ok")
TrSetNatoms == IsOp("natoms") /\ Kind = "exact" /\ SetDeclared(Ev[l].v)
              /\ Clause("setter_accepts_valid_value", Ev[l].out = "ok")
TrSetFormat == IsOp("format") /\ Kind = "exact" /\ SetFormat(<<Ev[l].v[1], Ev[l].v[2]>>)
              /\ Clause("setter_accepts_valid_value", Ev[l].out = "ok")
TrSetBox == IsOp("box") /\ Kind = "exact" /\ SetBox(ToBox(Ev[l].v))
              /\ Clause("setter_accepts_valid_value", Ev[l].out = "ok")

(* observations logged at every crash point: flushed length and the real reader's verdict *)
CrashObs == /\ Note("alg_length", Len(bytes') = Ev[l].len)
            /\ Clause("crash_point_rejected", Ev[l].read_ok = Read(bytes').ok)

TrWrite == /\ IsOp("write") /\ Kind = "exact"
           /\ LET r == ToRec(Ev[l].v) IN WriteFirst(r) \/ WriteNext(r)
           /\ Clause("write_outcome", outcome' = Ev[l].out)
           /\ CrashObs
           \* the writer object dropped (garbage collected) without close(): still not a valid file
           /\ Clause("dropped_writer_rejected", Ev[l].read_ok_dropped = Read(bytes').ok)
TrClose1 == /\ IsOp("close1") /\ Kind = "exact" /\ Close1
            /\ Clause("close_outcome", outcome' = Ev[l].out)
            /\ CrashObs
TrClose2 == /\ IsOp("close2") /\ Kind = "exact" /\ Close2
            /\ Note("alg_length", Len(bytes') = Ev[l].len)
            /\ Clause("accepted_after_box_line", Ev[l].read_ok)
TrClose3 == /\ IsOp("close3") /\ Kind = "exact" /\ Close3
            /\ Note("alg_bytes_equal", bytes' = Ev[l].bytes)

(* ---- the complete file, as the implementation wrote it ---------------------------- *)
(* final observation of both kinds of trace: real bytes + what the real reader returned *)
AdmOK(v, adm) == \E i \in 1..Len(adm) : FixedEq(v, ToFixed(adm[i]))
RecAdm(r, q) ==   \* r: written record with admissible sets; q: record read back
    /\ q.resname = r.resname /\ q.name = r.name
    /\ WrapOK(r.resid, q.resid) /\ WrapOK(r.nr, q.nr)
    /\ \A k \in 1..3 : AdmOK(q.pos[k], r.pos[k])
    /\ Len(q.vel) = Len(r.vel) /\ \A k \in 1..Len(r.vel) : AdmOK(q.vel[k], r.vel[k])

LastLineStart(b) == LET e == IF b[Len(b)] = NL THEN Len(b) - 1 ELSE Len(b)
                        nls == {i \in 1..e : b[i] = NL}
                    IN IF nls = {} THEN 0 ELSE CHOOSE i \in nls : \A j \in nls : j <= i

FinalChecks(e) ==
    LET b  == e.bytes
        rd == Read(b)
        n  == Len(e.recs)
        w  == e.fmt[1]
        hv == Len(e.recs[1].vel) > 0
        ls == 20 + 3 * w * (IF hv THEN 2 ELSE 1) + 1
        init == Len(LineAt(b, 0)) + Len(LineAt(b, Len(LineAt(b, 0))))
    IN
    /\ Clause("file_is_valid_gro", rd.ok)
    /\ Clause("count_field", rd.natoms = n /\ Len(rd.recs) = n)
    /\ Clause("records_round_trip_in_bytes", \A i \in 1..n : RecAdm(e.recs[i], rd.recs[i]))
    /\ Clause("position_format", rd.fmt = <<w, e.fmt[2]>>)
    /\ Clause("uniform_line_length", \A i \in 1..n : Len(LineAt(b, init + (i - 1) * ls)) = ls)
    /\ Clause("box_in_bytes", \A k \in 1..9 : AdmOK(rd.box[k], e.box[k]))
    /\ Clause("title_in_bytes", TitleOK(e.title, rd.title))
    \* what the implementation's own reader returned
    /\ Clause("reader_accepts", e.read.ok)
    /\ Clause("reader_count", e.read.natoms = n /\ Len(e.read.recs) = n)
    /\ Clause("reader_records", \A i \in 1..n : RecAdm(e.recs[i], ToRec(e.read.recs[i])))
    /\ Clause("reader_box", \A k \in 1..9 : AdmOK(ToFixed(e.read.box[k]), e.box[k]))
    /\ Clause("reader_title", TitleOK(e.title, e.read.title))
    /\ Clause("reader_format", e.read.fmt = e.fmt)
    \* C14, byte level (measured by the harness over every proper prefix of the real file)
    /\ Clause("truncation_before_box_rejected", e.min_accepted = 0 - 1 \/ e.min_accepted > LastLineStart(b))
    /\ Clause("accepted_truncation_exact", e.accepted_exact)

TrFinal == /\ IsOp("final") /\ mode # "failed"
           /\ FinalChecks(Ev[l])
           /\ (Kind = "exact" =>
                 /\ Clause("final_matches_history",
                           /\ Len(Ev[l].recs) = Len(recs)
                           /\ Ev[l].fmt = Fmt)
                 /\ Note("alg_box_start", LastLineStart(Ev[l].bytes) = BoxStart \/ bytes # Ev[l].bytes))
           /\ UNCHANGED vars

(* a failed close (declared count wrong): the file must not be accepted *)
TrFailed == /\ IsOp("failed") /\ mode = "failed"
            /\ Clause("failed_close_rejected", ~Ev[l].read_ok)
            /\ UNCHANGED vars

(* the implementation carried on with the steps of close() although the specification's close had already
   failed (declared count wrong): whatever those steps left on disk must still be rejected.  Without these
   actions such a trace would simply stop being a behaviour and get no verdict. *)
TrCloseAfterFailure ==
    /\ mode = "failed" /\ Kind = "exact"
    /\ \/ /\ IsOp("close2") /\ Clause("failed_close_rejected", ~Ev[l].read_ok)
       \/ /\ IsOp("close3")
       \/ /\ IsOp("final") /\ Clause("failed_close_rejected", ~Ev[l].read.ok)
    /\ UNCHANGED vars

(* a shipped coordinate file: every proper byte prefix (all of them for small files, a dense sample for large ones)
   opened with the real reader; box_start = offset of the last line, computed by the harness from the raw bytes *)
TrShipped == /\ IsOp("shipped")
             /\ Clause("reader_accepts", Ev[l].read_ok)
             /\ Clause("reader_count", Ev[l].natoms = Ev[l].declared /\ Ev[l].nrecs = Ev[l].declared)
             /\ Clause("truncation_before_box_rejected", Ev[l].min_accepted = 0 - 1 \/ Ev[l].min_accepted > Ev[l].box_start)
             /\ Clause("accepted_truncation_exact", Ev[l].accepted_exact)
             /\ UNCHANGED vars

TraceNext == \/ TrShipped \/ TrSetTitle \/ TrSetNatoms \/ TrSetFormat \/ TrSetBox
             \/ TrWrite \/ TrClose1 \/ TrClose2 \/ TrClose3 \/ TrFinal \/ TrFailed \/ TrCloseAfterFailure

TraceSpec == TraceInit /\ [][TraceNext]_tvars

Accepted == (l = Len(Ev) + 1) => PrintT(<<"ACC", Traces[tid].tid>>)
=============================================================================
