---------------------------- MODULE MC_ResidueEdit ----------------------------
EXTENDS ResidueEdit
(* initial residues of 1..3 atoms: atom names over {A, B} (repeated names allowed: they are "equal" atoms), residue
   RA 1, atom numbers and coordinates = position in the residue *)
At(n, k) == [n |-> n, rn |-> "RA", rid |-> 1, id |-> k, x |-> k]
MC_Inits == UNION {{[k \in 1..m |-> At(f[k], k)] : f \in [1..m -> {"A", "B"}]} : m \in 1..3}
=============================================================================
