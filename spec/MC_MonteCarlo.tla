--------------------------- MODULE MC_MonteCarlo ---------------------------
(***************************************************************************)
(* Exhaustive configuration of MonteCarlo.tla.  The history variable       *)
(* `steps` records the environment's choices (kind, measure of the         *)
(* proposal, outcome of the draw); the Abs operators below state what the  *)
(* property demands as functions of that history alone, and the invariants *)
(* say that the loop's bookkeeping (held / heldE / minE / counter) agrees  *)
(* with them in every reachable state.  Terminal states (pc = "done") are  *)
(* the schedules replayed on the real _minimize_molecules.                 *)
(***************************************************************************)
EXTENDS MonteCarlo
CONSTANTS MaxE, MaxSteps, TypeSets, MaxLen

VARIABLES e0,      \* measure of the initial configuration
          steps    \* sequence of [k, e, acc, h]: kind, measure of the proposal, accepted, measure held when judged
vars == <<core, e0, steps>>

(* ---- Abs: functions of the history ------------------------------------------------------- *)
RECURSIVE HeldIdx(_, _)
(* index of the last accepted step among the first n (0 = the initial configuration) *)
HeldIdx(h, n) == IF n = 0 THEN 0 ELSE IF h[n].acc THEN n ELSE HeldIdx(h, n - 1)
EnergyAt(h, i) == IF i = 0 THEN e0 ELSE h[i].e
RECURSIVE Lowest(_, _)
(* lowest measure among the initial and the accepted configurations of the first n steps *)
Lowest(h, n) == IF n = 0 THEN e0
                ELSE LET m == Lowest(h, n - 1) IN IF h[n].acc /\ h[n].e < m THEN h[n].e ELSE m
NewLow(h, i) == h[i].acc /\ h[i].e < Lowest(h, i - 1)
RECURSIVE Since(_, _)
(* number of consecutive most recent steps without a new lowest measure *)
Since(h, n) == IF n = 0 THEN 0 ELSE IF NewLow(h, n) THEN 0 ELSE 1 + Since(h, n - 1)
(* the acceptance rule as a function of the history: a step must be accepted when its measure is
   at most the measure held before it *)
RuleOK(h, i) == (h[i].e <= EnergyAt(h, HeldIdx(h, i - 1))) => h[i].acc

Tok(i) == i + 1     \* token of the proposal of step i; the initial configuration is token 1

MCInit == /\ \E n \in 1..MaxSteps, T \in TypeSets : CoreInit([nSteps |-> n, types |-> T])
          /\ e0 \in 1..MaxE /\ steps = <<>>

MCStart == Start(1, e0) /\ UNCHANGED <<e0, steps>>
MCChoose == \E k \in Kinds : Choose(k) /\ UNCHANGED <<e0, steps>>
MCEvaluate == \E e \in 1..MaxE : Evaluate(Tok(Len(steps) + 1), e) /\ UNCHANGED <<e0, steps>>
MCJudgeBetter == JudgeBetter /\ steps' = Append(steps, [k |-> kind, e |-> newE, acc |-> TRUE, h |-> heldE]) /\ UNCHANGED e0
MCJudgeWorse == \E a \in BOOLEAN : JudgeWorse(a) /\ steps' = Append(steps, [k |-> kind, e |-> newE, acc |-> a, h |-> heldE]) /\ UNCHANGED e0
MCStop == Stop /\ UNCHANGED <<e0, steps>>
MCNext == MCStart \/ MCChoose \/ MCEvaluate \/ MCJudgeBetter \/ MCJudgeWorse \/ MCStop
MCSpec == MCInit /\ [][MCNext]_vars
Bound == Len(steps) <= MaxLen

Running == pc \in {"choose", "eval", "judge", "done"}
N == Len(steps)
(* the configuration held and the measure used as "current" by the judge are those of the last
   accepted step *)
AbsHeld == Running => held = Tok(HeldIdx(steps, N)) /\ heldE = EnergyAt(steps, HeldIdx(steps, N))
AbsMin == Running => minE = Lowest(steps, N) /\ minE <= heldE
AbsCounter == Running => counter = Since(steps, N)
AbsRule == \A i \in 1..N : RuleOK(steps, i)
KindsEnabled == \A i \in 1..N : steps[i].k \in cfg.types
(* exact stop: never a step beyond the budget, and the search ends only when the budget is spent *)
NeverBeyond == Running => Since(steps, N) <= cfg.nSteps
StopExact == pc = "done" => Since(steps, N) = cfg.nSteps /\ ret = Tok(HeldIdx(steps, N))
NoStepAfterBudget == [][(Running /\ Since(steps, N) = cfg.nSteps) => steps' = steps]_vars
RejectKeeps == [][(pc = "judge" /\ pc' = "choose" /\ ~steps'[Len(steps')].acc)
                   => (held' = held /\ heldE' = heldE /\ minE' = minE)]_vars
Done == pc = "done"
=============================================================================
