----------------------------- MODULE Trace_PBC -----------------------------
(* Trace validation of the periodic distance on floating-point inputs: relation booleans measured
   by the harness; the specification states which relation is demanded for which kind of box. *)
EXTENDS Integers, Sequences, TLC, Json, IOUtils, TLCExt
Traces == ndJsonDeserialize(IOEnv.TRACE_FILE)
VARIABLES tid, l
Ev == Traces[tid].ev
Clause(name, e) == IF e THEN TRUE ELSE PrintT(<<"FAIL", Traces[tid].tid, l, name>>) /\ FALSE
Init == tid \in 1..Len(Traces) /\ l = 1
TrDist == /\ l <= Len(Ev) /\ Ev[l].op = "dist" /\ l' = l + 1 /\ UNCHANGED tid
          /\ Clause("finite", Ev[l].finite)
          /\ Clause("minimum_image", Ev[l].ortho => Ev[l].min_image)
          /\ Clause("not_longer_than_plain", Ev[l].ortho => Ev[l].le_plain)
          /\ Clause("symmetric", Ev[l].symmetric)
          /\ Clause("lattice_shift_invariant", Ev[l].shift_inv)
          /\ Clause("inverse_flag_consistent", Ev[l].inv_flag)
          /\ Clause("residue_and_point_agree", Ev[l].res_point)
TraceSpec == Init /\ [][TrDist]_<<tid, l>>
Accepted == (l = Len(Ev) + 1) => PrintT(<<"ACC", Traces[tid].tid>>)
=============================================================================
