------------------------------ MODULE Lifecycle ------------------------------
(***************************************************************************)
(* EXTENSION (not one of the listed properties): the life cycle of an      *)
(* Alignment object - its two molecule slots, the checks of the setters,   *)
(* what each method requires, and what an error leaves behind.             *)
(*                                                                         *)
(* Values handed to a setter: a molecule of species "A" or "B", None, or   *)
(* something that is not a molecule ("junk").  The Alignment keeps COPIES  *)
(* (token of the conformation at assignment time), never the caller's      *)
(* object.  Rules modelled from the code:                                  *)
(*   - None always clears the slot;                                        *)
(*   - junk: TypeError, nothing changes;                                   *)
(*   - while at least one slot is empty any molecule is accepted;          *)
(*   - once both are set, a slot only accepts a molecule equal in species  *)
(*     to what it holds (ValueError otherwise, nothing changes);           *)
(*   - align / init_exchange_map / write_comparative_gro need both slots   *)
(*     (ValueError otherwise, nothing changes);                            *)
(*   - init_exchange_map records the species pair the map was built for;   *)
(*     later slot changes do NOT invalidate it (observed behaviour,        *)
(*     modelled as such: `mapFor` may disagree with the slots).            *)
(***************************************************************************)
EXTENDS Integers, Sequences, FiniteSets, TLC

CONSTANTS MaxOps
VARIABLES start, finish, mapFor, hist
lvars == <<start, finish, mapFor, hist>>
Species == {"A", "B"}
Values == Species \cup {"None", "junk"}
Init == start = "None" /\ finish = "None" /\ mapFor = <<"None", "None">> /\ hist = <<>>

Log(op, arg, outcome) == Len(hist) < MaxOps /\ hist' = Append(hist, [op |-> op, arg |-> arg, out |-> outcome,
                                                                      start |-> start', finish |-> finish', map |-> mapFor'])
SetOutcome(cur, other, v) == IF v = "None" THEN "ok"
                             ELSE IF v = "junk" THEN "TypeError"
                             ELSE IF other = "None" \/ cur = "None" THEN "ok"
                             ELSE IF v = cur THEN "ok" ELSE "ValueError"
SetStart(v) == /\ LET o == SetOutcome(start, finish, v) IN
                  /\ start' = IF o = "ok" THEN v ELSE start
                  /\ UNCHANGED <<finish, mapFor>>
                  /\ Log("set_start", v, o)
SetEnd(v) == /\ LET o == SetOutcome(finish, start, v) IN
                /\ finish' = IF o = "ok" THEN v ELSE finish
                /\ UNCHANGED <<start, mapFor>>
                /\ Log("set_end", v, o)
Both == start # "None" /\ finish # "None"
InitMap == /\ mapFor' = IF Both THEN <<start, finish>> ELSE mapFor
           /\ UNCHANGED <<start, finish>>
           /\ Log("init_exchange_map", "", IF Both THEN "ok" ELSE "ValueError")
Compare == /\ UNCHANGED <<start, finish, mapFor>>
           /\ Log("write_comparative_gro", "", IF Both THEN "ok" ELSE "ValueError")
Align == /\ UNCHANGED <<start, finish, mapFor>>
         /\ Log("align_molecules", "", IF Both THEN "ok" ELSE "ValueError")
Next == (\E v \in Values : SetStart(v) \/ SetEnd(v)) \/ InitMap \/ Compare \/ Align
Spec == Init /\ [][Next]_lvars

(* an operation that reports an error changes nothing *)
ErrorsChangeNothing == [][(hist' # hist /\ hist'[Len(hist')].out # "ok") => UNCHANGED <<start, finish, mapFor>>]_lvars
(* with both slots filled the species of a slot can only change by first clearing a slot *)
SpeciesLocked == [][(Both /\ start' # "None" /\ finish' # "None") => (start' = start /\ finish' = finish)]_lvars
(* a map exists only for a pair that was complete when it was built *)
MapWasComplete == mapFor[1] = "None" <=> mapFor[2] = "None"
=============================================================================
