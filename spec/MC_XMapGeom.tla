---------------------------- MODULE MC_XMapGeom ----------------------------
(* Bounds for exhaustive checking / case generation of XMapGeom. *)
EXTENDS XMapGeom

CONSTANTS Tier,      \* "quick" | "thorough"
          Family     \* "n3" | "n4" | "small" : which family of references this run enumerates

B(a, b) == {a, b}
G3 == { [n |-> 3, bonds |-> {B(1,2), B(2,3)}],          \* path, anchor 2
        [n |-> 3, bonds |-> {B(1,2), B(1,3)}],          \* anchor 1
        [n |-> 3, bonds |-> {B(1,3), B(2,3)}],          \* anchor 3
        [n |-> 3, bonds |-> {B(1,2), B(2,3), B(1,3)}] } \* triangle, three anchors
G4 == { [n |-> 4, bonds |-> {B(1,2), B(2,3), B(3,4)}],            \* path, anchors 2 and 3
        [n |-> 4, bonds |-> {B(1,2), B(1,3), B(1,4)}],            \* star, frame from 2 of 3 neighbours
        [n |-> 4, bonds |-> {B(4,1), B(4,2), B(4,3)}],            \* star centred on the last atom
        [n |-> 4, bonds |-> {B(1,2), B(2,3), B(3,4), B(4,1)}],    \* cycle, four anchors
        [n |-> 4, bonds |-> {B(1,3), B(3,2), B(2,4)}],            \* path with shuffled labels
        [n |-> 4, bonds |-> {B(1,2), B(2,3), B(3,1), B(3,4)}] }   \* triangle with a tail
GS == { [n |-> 1, bonds |-> {}], [n |-> 2, bonds |-> {B(1,2)}] }
MC_Graphs == IF Family = "n3" THEN G3 ELSE IF Family = "n4" THEN G4 ELSE GS

C3 == 0..2
Pts == {<<x, y, z>> : x \in C3, y \in C3, z \in C3}
Centre == <<1, 1, 1>>
Injective(f, n) == \A i, j \in 1..n : i # j => f[i] # f[j]
(* n = 3: quick fixes atom 1 in the centre of the cube (650 placements: every direction and every
   exactly collinear line through the centre); thorough lets it go anywhere (17 550).
   n = 4: atom 1 in the centre, atoms 2..4 on a sub-lattice that still contains collinear,
   axis-aligned and equidistant configurations. *)
Sub4 == {<<0,0,0>>, <<2,2,2>>, <<1,1,0>>, <<1,1,2>>, <<0,1,1>>, <<2,1,0>>, <<1,2,2>>, <<0,2,1>>}
MC_Placements(n) ==
    IF n = 1 THEN {[i \in 1..1 |-> p] : p \in {Centre, <<0, 2, 1>>}}
    ELSE IF n = 2 THEN {f \in [1..2 -> Pts] : f[1] = Centre /\ f[2] # Centre}
    ELSE IF n = 3 THEN {f \in [1..3 -> Pts] : (Tier = "thorough" \/ f[1] = Centre) /\ Injective(f, 3)}
    ELSE {f \in [1..4 -> ({Centre} \cup Sub4)] : f[1] = Centre /\ Injective(f, 4)}

MC_Targets == [i \in 1..27 |-> <<(i - 1) \div 9, ((i - 1) \div 3) % 3, (i - 1) % 3>>]
MC_Scales == IF Tier = "quick" THEN {0, 4, 8, 13} ELSE {0, 1, 4, 8, 13, 16}

(* the 24 proper rotations of the cubic lattice (signed permutation matrices, det = +1) *)
Rotations == {<<<<1, 0, 0>>, <<0, 1, 0>>, <<0, 0, 1>>>>,
              <<<<1, 0, 0>>, <<0, -1, 0>>, <<0, 0, -1>>>>,
              <<<<-1, 0, 0>>, <<0, 1, 0>>, <<0, 0, -1>>>>,
              <<<<-1, 0, 0>>, <<0, -1, 0>>, <<0, 0, 1>>>>,
              <<<<1, 0, 0>>, <<0, 0, 1>>, <<0, -1, 0>>>>,
              <<<<1, 0, 0>>, <<0, 0, -1>>, <<0, 1, 0>>>>,
              <<<<-1, 0, 0>>, <<0, 0, 1>>, <<0, 1, 0>>>>,
              <<<<-1, 0, 0>>, <<0, 0, -1>>, <<0, -1, 0>>>>,
              <<<<0, 1, 0>>, <<1, 0, 0>>, <<0, 0, -1>>>>,
              <<<<0, 1, 0>>, <<-1, 0, 0>>, <<0, 0, 1>>>>,
              <<<<0, -1, 0>>, <<1, 0, 0>>, <<0, 0, 1>>>>,
              <<<<0, -1, 0>>, <<-1, 0, 0>>, <<0, 0, -1>>>>,
              <<<<0, 1, 0>>, <<0, 0, 1>>, <<1, 0, 0>>>>,
              <<<<0, 1, 0>>, <<0, 0, -1>>, <<-1, 0, 0>>>>,
              <<<<0, -1, 0>>, <<0, 0, 1>>, <<-1, 0, 0>>>>,
              <<<<0, -1, 0>>, <<0, 0, -1>>, <<1, 0, 0>>>>,
              <<<<0, 0, 1>>, <<1, 0, 0>>, <<0, 1, 0>>>>,
              <<<<0, 0, 1>>, <<-1, 0, 0>>, <<0, -1, 0>>>>,
              <<<<0, 0, -1>>, <<1, 0, 0>>, <<0, -1, 0>>>>,
              <<<<0, 0, -1>>, <<-1, 0, 0>>, <<0, 1, 0>>>>,
              <<<<0, 0, 1>>, <<0, 1, 0>>, <<-1, 0, 0>>>>,
              <<<<0, 0, 1>>, <<0, -1, 0>>, <<1, 0, 0>>>>,
              <<<<0, 0, -1>>, <<0, 1, 0>>, <<1, 0, 0>>>>,
              <<<<0, 0, -1>>, <<0, -1, 0>>, <<-1, 0, 0>>>>}
Id3 == <<<<1,0,0>>, <<0,1,0>>, <<0,0,1>>>>
MC_Motions == {[R |-> R, t |-> Zero] : R \in Rotations}
              \cup {[R |-> R, t |-> <<5, -3, 2>>] : R \in (IF Tier = "quick" THEN {Id3} ELSE Rotations)}
              \cup {[R |-> Id3, t |-> <<-40, 17, 33>>]}

V1 == {<<x, y, z>> : x \in -1..1, y \in -1..1, z \in -1..1}
MC_Perp(e1) == {f \in V1 : f # Zero /\ Dot(f, e1) = 0}
               \cup {IF e1[1] = 0 /\ e1[2] = 0 THEN <<1, 0, 0>> ELSE <<e1[2], 0 - e1[1], 0>>}

ASSUME PrintT(<<"MOTIONS", MC_Motions>>)
ASSUME PrintT(<<"TARGETS", MC_Targets>>)
ASSUME PrintT(<<"SCALES", MC_Scales>>)
ASSUME Cardinality(Rotations) = 24 /\ \A R \in Rotations : Dot(Cross(R[1], R[2]), R[3]) = 1 /\ Dot(R[1], R[2]) = 0
=============================================================================
