----------------------------- MODULE Recognise -----------------------------
(***************************************************************************)
(* System: recognition of molecule instances in the residue stream of a    *)
(* coordinate file.                                                        *)
(*                                                                         *)
(* cfg.pattern : species -> sequence of residue kinds (a kind stands for   *)
(*               one residue signature (resname, number of atoms))         *)
(* cfg.mols    : the file, as the sequence of species of its molecules     *)
(*               (species that are never loaded play the role of solvent)  *)
(* cfg.order   : the topologies to load, in loading order                  *)
(* cfg.clones  : topologies whose residue signatures occur in the file but *)
(*               whose atom names differ from the atoms there: they match  *)
(*               no run and must be refused without changing anything      *)
(*                                                                         *)
(* Abs: after loading the species of a set L the System is the file-       *)
(* ordered list of [sp, first, n] (first = 0-based residue index, n =      *)
(* residues) of exactly the instances of L; loading a species without an   *)
(* (unconsumed) instance is an error and changes nothing.                  *)
(* Alg: the implementation - the stream of residue kinds with in-place     *)
(* consumption, first-occurrence search, greedy scan with block            *)
(* bookkeeping [sp, start, amount], sort by start, instance generation.    *)
(***************************************************************************)
EXTENDS Integers, Sequences, FiniteSets, TLC

VARIABLES cfg, pc, avail, blocks, loaded, nload, obs
rvars == <<cfg, pc, avail, blocks, loaded, nload, obs>>

Pat(c, s) == c.pattern[s]
RECURSIVE Flatten(_, _, _)
Flatten(c, ms, k) == IF k > Len(ms) THEN <<>> ELSE Pat(c, ms[k]) \o Flatten(c, ms, k + 1)
Stream(c) == Flatten(c, c.mols, 1)
RECURSIVE ResStart(_, _)
ResStart(c, k) == IF k = 1 THEN 0 ELSE ResStart(c, k - 1) + Len(Pat(c, c.mols[k - 1]))

(* ---- Abs ---------------------------------------------------------------------------------- *)
RECURSIVE AbsFrom(_, _, _)
AbsFrom(c, L, k) == IF k > Len(c.mols) THEN <<>>
                    ELSE (IF c.mols[k] \in L THEN <<[sp |-> c.mols[k], first |-> ResStart(c, k), n |-> Len(Pat(c, c.mols[k]))]>> ELSE <<>>)
                         \o AbsFrom(c, L, k + 1)
AbsObs(c, L) == AbsFrom(c, L, 1)
HasInstance(c, s) == s \notin c.clones /\ \E k \in 1..Len(c.mols) : c.mols[k] = s

(* ---- Alg ---------------------------------------------------------------------------------- *)
Consumed == "-"
MatchAt(av, pat, i) == i + Len(pat) - 1 <= Len(av) /\ \A j \in 1..Len(pat) : av[i + j - 1] = pat[j]
FirstOcc(av, pat) == IF \E i \in 1..Len(av) : MatchAt(av, pat, i)
                     THEN CHOOSE i \in 1..Len(av) : MatchAt(av, pat, i) /\ \A j \in 1..(i - 1) : ~MatchAt(av, pat, j)
                     ELSE 0
RECURSIVE Scan(_, _, _, _, _, _)
(* the greedy scan from position i; nb = "the next match opens a new block" *)
Scan(av, pat, s, i, nb, bl) ==
    IF i + Len(pat) - 1 > Len(av) THEN [avail |-> av, blocks |-> bl]
    ELSE IF MatchAt(av, pat, i)
         THEN Scan([j \in 1..Len(av) |-> IF j >= i /\ j < i + Len(pat) THEN Consumed ELSE av[j]], pat, s, i + Len(pat), FALSE,
                   IF nb THEN Append(bl, [sp |-> s, start |-> i - 1, amount |-> 1])
                         ELSE [bl EXCEPT ![Len(bl)].amount = @ + 1])
         ELSE Scan(av, pat, s, i + 1, TRUE, bl)
RECURSIVE SortBlocks(_)
SortBlocks(bl) == IF Len(bl) = 0 THEN <<>>
                  ELSE LET m == CHOOSE i \in 1..Len(bl) : \A j \in 1..Len(bl) : bl[i].start <= bl[j].start
                       IN <<bl[m]>> \o SortBlocks([j \in 1..(Len(bl) - 1) |-> IF j < m THEN bl[j] ELSE bl[j + 1]])
RECURSIVE Expand(_, _, _)
Expand(c, b, i) == IF i >= b.amount THEN <<>>
                   ELSE <<[sp |-> b.sp, first |-> b.start + i * Len(Pat(c, b.sp)), n |-> Len(Pat(c, b.sp))]>> \o Expand(c, b, i + 1)
RECURSIVE Instances(_, _, _)
Instances(c, bl, k) == IF k > Len(bl) THEN <<>> ELSE Expand(c, bl[k], 0) \o Instances(c, bl, k + 1)

RInit(c) == /\ cfg = c /\ pc = "load" /\ avail = Stream(c) /\ blocks = <<>> /\ loaded = {} /\ nload = 0 /\ obs = <<>>

(* load the next topology of cfg.order *)
AddTop == /\ pc = "load" /\ nload < Len(cfg.order)
          /\ LET s == cfg.order[nload + 1]
                 pat == Pat(cfg, s)
                 at == FirstOcc(avail, pat) IN
             IF at = 0 \/ s \in cfg.clones       \* the atom-name check fails before anything is consumed
             THEN /\ obs' = Append(obs, [sp |-> s, ok |-> FALSE, list |-> Instances(cfg, blocks, 1)])
                  /\ UNCHANGED <<avail, blocks, loaded>>
             ELSE LET r == Scan(avail, pat, s, at, TRUE, blocks) IN
                  /\ avail' = r.avail
                  /\ blocks' = SortBlocks(r.blocks)
                  /\ loaded' = loaded \cup {s}
                  /\ obs' = Append(obs, [sp |-> s, ok |-> TRUE, list |-> Instances(cfg, SortBlocks(r.blocks), 1)])
          /\ nload' = nload + 1
          /\ UNCHANGED <<cfg, pc>>
Finish == pc = "load" /\ nload = Len(cfg.order) /\ pc' = "done" /\ UNCHANGED <<cfg, avail, blocks, loaded, nload, obs>>

(* ---- refinement ---------------------------------------------------------------------------- *)
AlgIsAbs == Instances(cfg, blocks, 1) = AbsObs(cfg, loaded)
ErrorIffAbsent == \A i \in 1..Len(obs) :
                    obs[i].ok <=> (HasInstance(cfg, obs[i].sp) /\ \A j \in 1..(i - 1) : ~(obs[j].sp = obs[i].sp /\ obs[j].ok))
Tiling == LET I == Instances(cfg, blocks, 1) IN
          /\ \A i \in 1..(Len(I) - 1) : I[i].first + I[i].n <= I[i + 1].first        \* disjoint, in file order
          /\ \A i \in 1..Len(I) : I[i].first + I[i].n <= Len(Stream(cfg))
ConsumedExactly == \A p \in 1..Len(avail) : (avail[p] = Consumed) <=>
                      \E i \in 1..Len(AbsObs(cfg, loaded)) : LET e == AbsObs(cfg, loaded)[i] IN e.first < p /\ p <= e.first + e.n
=============================================================================
