------------------------------ MODULE Aliasing ------------------------------
(***************************************************************************)
(* Who shares what: copies, deep copies and views of atoms, residues and   *)
(* molecules (gaddlemaps components).                                      *)
(*                                                                         *)
(* The heap is a set of cells; every slot (object, atom, field) of a live  *)
(* object designates one cell.  A copy designates fresh cells holding the  *)
(* same values; a view (an atom obtained by indexing / iterating, a        *)
(* residue of a molecule) designates the very cells of its parent.  An     *)
(* assignment or a rigid operation through an object writes the cells of   *)
(* its slots.  What an object shows after any history is therefore the     *)
(* value last written to its cells - through whichever object.             *)
(*                                                                         *)
(* Fields: pos, vel, num (atom number), rid (residue number), nam (atom    *)
(* and residue names).  A plain copy isolates pos, vel, num, rid; only a   *)
(* deep copy isolates nam as well (the topology is shared by plain         *)
(* copies: the property does not say what names do there, so names are     *)
(* only assigned inside families made of deep copies).                     *)
(***************************************************************************)
EXTENDS Integers, Sequences, FiniteSets, TLC

CONSTANTS Shapes,    \* shapes of the root objects: sequence of residue sizes, e.g. <<3>>, <<2, 1>>
          MaxObjs,   \* bound on the number of live objects
          MaxOps     \* bound on the history length

Fields == {"pos", "vel", "num", "rid", "nam"}
CopyFields == {"pos", "vel", "num", "rid"}

VARIABLES objs,   \* sequence of objects [kind, shape, cells, parent, fam, deepfam]
          val,    \* cell -> token (the abstract value)
          ncell, ntok,
          hist
vars == <<objs, val, ncell, ntok, hist>>

NAtomsOf(shape) == IF Len(shape) = 0 THEN 0 ELSE IF Len(shape) = 1 THEN shape[1] ELSE shape[1] + shape[2]
Bundle(base) == [pos |-> base, vel |-> base + 1, num |-> base + 2, rid |-> base + 3, nam |-> base + 4]
FreshCells(n, base) == [i \in 1..n |-> Bundle(base + 5 * (i - 1))]
AllCells(o) == {o.cells[i][f] : i \in 1..Len(o.cells), f \in Fields}

Init == \E sh \in Shapes :
        LET n == NAtomsOf(sh) IN
        /\ objs = <<[kind |-> "mol", shape |-> sh, cells |-> FreshCells(n, 1), parent |-> 0, fam |-> 1, plain |-> FALSE]>>
        /\ val = [c \in 1..(5 * n) |-> c]
        /\ ncell = 5 * n + 1 /\ ntok = 5 * n + 1 /\ hist = <<>>

Bounded == Len(hist) < MaxOps
CanAdd == Len(objs) < MaxObjs

(* a copy: fresh cells (same values) for every field; the family keeps track of name sharing *)
CopyObj(o, deep) ==
    LET n == Len(o.cells)
        nc == FreshCells(n, ncell)
        \* plain copies share the topology: names stay attached to the family and are marked as not checked
    IN [kind |-> o.kind, shape |-> o.shape, cells |-> nc, parent |-> 0,
        fam |-> IF deep THEN Len(objs) + 1 ELSE o.fam, plain |-> IF deep THEN FALSE ELSE TRUE]
Copy(i, deep) ==
    /\ Bounded /\ CanAdd
    /\ (deep => objs[i].kind = "mol")
    /\ LET o == objs[i]
           c == CopyObj(o, deep)
           n == Len(o.cells)
       IN /\ objs' = Append(objs, c)
          /\ val' = [x \in 1..(ncell + 5 * n - 1) |->
                       IF x < ncell THEN val[x]
                       ELSE LET a == (x - ncell) \div 5 + 1
                                f == CASE (x - ncell) % 5 = 0 -> "pos" [] (x - ncell) % 5 = 1 -> "vel"
                                       [] (x - ncell) % 5 = 2 -> "num" [] (x - ncell) % 5 = 3 -> "rid"
                                       [] OTHER -> "nam"
                            IN val[o.cells[a][f]]]
          /\ ncell' = ncell + 5 * n
          /\ hist' = Append(hist, [op |-> IF deep THEN "deepcopy" ELSE "copy", o |-> i, a |-> 0, f |-> "", new |-> Len(objs) + 1])
    /\ UNCHANGED ntok

(* live views: atom a of a molecule / residue; residue k of a multi-residue molecule *)
ViewAtom(i, a) ==
    /\ Bounded /\ CanAdd /\ objs[i].kind \in {"mol", "res"} /\ a \in 1..Len(objs[i].cells)
    /\ objs' = Append(objs, [kind |-> "atom", shape |-> <<1>>, cells |-> <<objs[i].cells[a]>>, parent |-> i,
                             fam |-> objs[i].fam, plain |-> objs[i].plain])
    /\ hist' = Append(hist, [op |-> "viewatom", o |-> i, a |-> a, f |-> "", new |-> Len(objs) + 1])
    /\ UNCHANGED <<val, ncell, ntok>>
ViewRes(i, k) ==
    /\ Bounded /\ CanAdd /\ objs[i].kind = "mol" /\ Len(objs[i].shape) = 2 /\ k \in 1..2
    /\ LET lo == IF k = 1 THEN 1 ELSE objs[i].shape[1] + 1
           n  == objs[i].shape[k]
       IN objs' = Append(objs, [kind |-> "res", shape |-> <<n>>,
                                cells |-> [j \in 1..n |-> objs[i].cells[lo + j - 1]], parent |-> i,
                                fam |-> objs[i].fam, plain |-> objs[i].plain])
    /\ hist' = Append(hist, [op |-> "viewres", o |-> i, a |-> k, f |-> "", new |-> Len(objs) + 1])
    /\ UNCHANGED <<val, ncell, ntok>>

(* assignment of field f through object i: every atom slot gets a new value *)
(* names are assigned through a molecule or through an atom view of a molecule (which keep topology and
   coordinates file consistent), never through the bare residues of a molecule *)
NamesAllowed(i) == /\ \A j \in 1..Len(objs) : objs[j].fam = objs[i].fam => ~objs[j].plain
                   /\ \/ objs[i].kind = "mol"
                      \/ objs[i].kind = "atom" /\ objs[i].parent # 0 /\ objs[objs[i].parent].kind = "mol"
Write(i, f) ==
    /\ Bounded
    /\ (f = "nam" => NamesAllowed(i))
    /\ (f = "rid" => objs[i].kind \in {"mol", "res"})
    /\ LET cs == [a \in 1..Len(objs[i].cells) |-> objs[i].cells[a][f]]
       IN val' = [x \in DOMAIN val |-> IF \E a \in 1..Len(cs) : cs[a] = x
                                       THEN ntok + (CHOOSE a \in 1..Len(cs) : cs[a] = x) - 1 ELSE val[x]]
    /\ ntok' = ntok + Len(objs[i].cells)
    /\ hist' = Append(hist, [op |-> "write", o |-> i, a |-> 0, f |-> f, new |-> 0])
    /\ UNCHANGED <<objs, ncell>>
(* rigid operations: all positions of the object change together *)
Rigid(i, kind) ==
    /\ Bounded /\ objs[i].kind \in {"mol", "res"}
    /\ LET cs == [a \in 1..Len(objs[i].cells) |-> objs[i].cells[a]["pos"]]
       IN val' = [x \in DOMAIN val |-> IF \E a \in 1..Len(cs) : cs[a] = x
                                       THEN ntok + (CHOOSE a \in 1..Len(cs) : cs[a] = x) - 1 ELSE val[x]]
    /\ ntok' = ntok + Len(objs[i].cells)
    /\ hist' = Append(hist, [op |-> kind, o |-> i, a |-> 0, f |-> "pos", new |-> 0])
    /\ UNCHANGED <<objs, ncell>>

Next == \/ \E i \in 1..Len(objs) : Copy(i, FALSE) \/ Copy(i, TRUE)
        \/ \E i \in 1..Len(objs) : \E a \in 1..3 : ViewAtom(i, a)
        \/ \E i \in 1..Len(objs) : \E k \in 1..2 : ViewRes(i, k)
        \/ \E i \in 1..Len(objs) : \E f \in Fields : Write(i, f)
        \/ \E i \in 1..Len(objs) : \E kd \in {"move", "move_to", "rotate"} : Rigid(i, kd)
Spec == Init /\ [][Next]_vars

(* ---- what C18 demands -------------------------------------------------------------------- *)
RECURSIVE Root(_)
Root(i) == IF objs[i].parent = 0 THEN i ELSE Root(objs[i].parent)
Related(i, j) == Root(i) = Root(j)
(* objects that are not views of one another share no cell of the copy-isolated fields *)
Isolation == \A i, j \in 1..Len(objs) : ~Related(i, j) =>
                \A a \in 1..Len(objs[i].cells) : \A b \in 1..Len(objs[j].cells) : \A f \in CopyFields :
                    objs[i].cells[a][f] # objs[j].cells[b][f]
(* deep copies share nothing at all *)
DeepIsolation == \A i, j \in 1..Len(objs) : objs[i].fam # objs[j].fam => AllCells(objs[i]) \cap AllCells(objs[j]) = {}
(* a view designates cells of its parent: writes go through *)
WriteThrough == \A i \in 1..Len(objs) : objs[i].parent # 0 => AllCells(objs[i]) \subseteq AllCells(objs[objs[i].parent])
(* a write changes exactly the cells of the written slots *)
WriteFrame == [][\A x \in DOMAIN val : val'[x] # val[x] => x \in AllCells(objs[hist'[Len(hist')].o])]_vars
=============================================================================
