------------------------------- MODULE Species -------------------------------
(***************************************************************************)
(* EXTENSION (not one of the listed properties): what makes a Molecule and *)
(* when two molecules are "the same species" - the notions the listed      *)
(* properties C04 (arguments of a map), C05 / C11 (instances of a species) *)
(* and C06 / C07 (bond table) stand on.                                    *)
(*                                                                         *)
(* A topology is [name, atoms = sequence of <<atom name, residue name,     *)
(* residue number>>, bonds = set of unordered pairs of positions]; the     *)
(* coordinate side is a flat sequence of <<atom name, residue name,        *)
(* residue number>> (cut into residues at every change of name or number). *)
(*   Match     a molecule can be built iff both sides have the same number *)
(*             of atoms and agree, position by position, on atom name and  *)
(*             residue name (residue NUMBERS are free on the coordinate    *)
(*             side); otherwise IOError and nothing is built;              *)
(*   Eq        two molecules are equal iff they have the same molecule     *)
(*             name, the same length and agree position by position on     *)
(*             atom name, residue name and TOPOLOGY residue number -       *)
(*             coordinates, coordinate-side residue numbers and bonds do   *)
(*             not matter;                                                 *)
(*   BondTable the bond table lists, for every atom with bonds, exactly    *)
(*             its bonded positions; atoms without bonds have no entry.    *)
(***************************************************************************)
EXTENDS Integers, Sequences, FiniteSets, TLC

CONSTANTS Tops, Flats, Mode          \* Mode = "build" (one construction, any pair) or "pair" (two molecules compared)
VARIABLES mols, hist
vars == <<mols, hist>>

Match(t, f) == /\ Len(t.atoms) = Len(f)
               /\ \A k \in 1..Len(f) : f[k][1] = t.atoms[k][1] /\ f[k][2] = t.atoms[k][2]
Eq(m1, m2) == /\ m1.top.name = m2.top.name
              /\ Len(m1.top.atoms) = Len(m2.top.atoms)
              /\ \A k \in 1..Len(m1.top.atoms) : m1.top.atoms[k] = m2.top.atoms[k]
BondTable(t) == [k \in {a \in 1..Len(t.atoms) : \E b \in t.bonds : a \in b} |-> {x \in 1..Len(t.atoms) : x # k /\ {k, x} \in t.bonds}]
(* residues of the coordinate side: maximal runs of equal <<residue name, residue number>> *)
Cuts(f) == {k \in 1..Len(f) : k = 1 \/ <<f[k][2], f[k][3]>> # <<f[k - 1][2], f[k - 1][3]>>}

Init == mols = <<>> /\ hist = <<>>
Build == /\ Len(mols) < (IF Mode = "build" THEN 1 ELSE 2) /\ Len(hist) = Len(mols)
         /\ \E t \in Tops : \E f \in Flats :
              /\ (Mode = "pair" => Match(t, f))
              /\ IF Match(t, f)
                 THEN /\ mols' = Append(mols, [top |-> t, flat |-> f])
                      /\ hist' = Append(hist, [op |-> "build", top |-> t, flat |-> f, out |-> "ok",
                                               nres |-> Cardinality(Cuts(f)), table |-> BondTable(t)])
                 ELSE /\ mols' = mols
                      /\ hist' = Append(hist, [op |-> "build", top |-> t, flat |-> f, out |-> "IOError", nres |-> 0, table |-> <<>>])
Compare == /\ Mode = "pair" /\ Len(mols) = 2 /\ Len(hist) = 2
           /\ hist' = Append(hist, [op |-> "compare", eq |-> Eq(mols[1], mols[2]), eqself |-> Eq(mols[1], mols[1])])
           /\ UNCHANGED mols
Next == Build \/ Compare
Spec == Init /\ [][Next]_vars

(* ---- properties of the definitions themselves ------------------------------------------ *)
EqReflexive == \A i \in 1..Len(mols) : Eq(mols[i], mols[i])
EqSymmetric == \A i, j \in 1..Len(mols) : Eq(mols[i], mols[j]) = Eq(mols[j], mols[i])
(* equal molecules can stand in for each other: the coordinate side of one fits the topology of the other *)
EqImpliesInterchangeable == \A i, j \in 1..Len(mols) : Eq(mols[i], mols[j]) => Match(mols[i].top, mols[j].flat)
BuiltOnlyIfMatch == \A i \in 1..Len(mols) : Match(mols[i].top, mols[i].flat)
TableSymmetric == \A i \in 1..Len(mols) : LET T == BondTable(mols[i].top) IN
                     \A a \in DOMAIN T : \A b \in T[a] : b \in DOMAIN T /\ a \in T[b]
=============================================================================
