--------------------------- MODULE MC_Extrapolate ---------------------------
(* a topology can only be loaded for a species that occurs in the file: cfg.loaded = the loadable species present.
   three loaded species (references of 3, 2 and 1 atoms, so that the rotation freedoms of C02 occur;
   one of them with a two-residue target) + unloaded solvent; every file of <= MaxMols molecules; every
   life cycle of <= MaxOps set-up operations (AddEnd / CalcMaps / failing Extrapolate) before the
   successful extrapolation *)
EXTENDS Extrapolate
CONSTANTS MaxMols, MaxOps
VARIABLE ops
vars == <<evars, ops>>
Loaded == {"P", "Q", "R"}
All == Loaded \cup {"W"}
Tgt == [s \in All |-> CASE s = "P" -> 4 [] s = "Q" -> 3 [] s = "R" -> 2 [] OTHER -> 1]
MCInit == /\ \E m \in UNION {[1..k -> All] : k \in 1..MaxMols} : EInit([loaded |-> {s \in Loaded : \E k \in DOMAIN m : m[k] = s}, tgt |-> Tgt, mols |-> m])
          /\ ops = <<>>
Setup == /\ Len(ops) < MaxOps /\ ~Closed      \* the exhaustive model ends with the first successful extrapolation
         /\ \/ \E s \in Loaded : AddEnd(s) /\ ops' = Append(ops, <<"AddEnd", s>>)
            \/ CalcMaps /\ ops' = Append(ops, <<"CalcMaps", "">>)
            \/ ExtrapolateErr /\ ops' = Append(ops, <<"ExtrapolateErr", outcome'>>)
MCOpen == ~Closed /\ Open /\ ops' = Append(ops, <<"Extrapolate", "ok">>)
Write == (Visit \/ Skip \/ Close) /\ UNCHANGED ops
MCNext == Setup \/ MCOpen \/ Write
MCSpec == MCInit /\ [][MCNext]_vars
=============================================================================
