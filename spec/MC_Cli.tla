------------------------------- MODULE MC_Cli -------------------------------
(* every candidate list over the files of two species (A, B) and the distractors, every subset given
   explicitly / excluded, and - through the nondeterministic passes - every iteration order *)
EXTENDS Cli
CONSTANT Tier
Real == [sp : InSystem, role : {"topCG", "topAA", "coorAA"}]
Distractors == {[sp |-> "Z", role |-> "topOther"], [sp |-> "A", role |-> "topClone"], [sp |-> "A", role |-> "coorCG"],
                [sp |-> "-", role |-> "sys"], [sp |-> "-", role |-> "txt"]}
DistractorSets == IF Tier = "quick" THEN {{}, Distractors} ELSE SUBSET Distractors
MCInit == \E r \in SUBSET Real, d \in DistractorSets, e \in SUBSET InSystem, x \in SUBSET InSystem, sh \in BOOLEAN :
             CInit([cands |-> r \cup d \cup (IF sh THEN {Shared} ELSE {}), explicit |-> e, exclude |-> x])
MCSpec == MCInit /\ [][CNext]_cvars
=============================================================================
