---------------------------- MODULE MC_TopResidues ----------------------------
EXTENDS TopResidues
(* all topologies of 1..3 atoms over two residue names and two residue numbers *)
MC_Tops == UNION {[1..n -> {"RA", "RB"} \X {1, 2}] : n \in 1..3}
=============================================================================
