------------------------------ MODULE GroView ------------------------------
(***************************************************************************)
(* The residue view of a coordinate file (gaddlemaps SystemGro).           *)
(*                                                                         *)
(* A file is a sequence of atom records; only the pair <<resid, resname>>  *)
(* matters for the tiling.  Positions are 0-based atom indices.            *)
(*                                                                         *)
(* Abs : Runs(file) = the maximal runs of equal <<resid, resname>>;        *)
(*       every access (iteration, index, negative index, slice) returns    *)
(*       the atoms of the run it designates, whatever happened before.     *)
(* Alg : the implementation's one-pass parse into templates keyed by       *)
(*       (resname, size), a run-length list of template indices, offsets   *)
(*       accumulated from template sizes, and a shared file cursor that    *)
(*       every access re-positions (seek) before reading.                  *)
(* TLC checks Alg = Abs for every file of the bounds and every access      *)
(* history (two live iterators interleaved with random access).            *)
(***************************************************************************)
EXTENDS Integers, Sequences, FiniteSets, SequencesExt, TLC

CONSTANTS Files,      \* set of files: sequences of <<resid, resname>> (one element per atom)
          NIter,      \* number of iterator handles
          GetArgs,    \* indices tried by Get
          SliceArgs,  \* set of <<start, stop, step>>; None stands for an omitted bound
          MaxOps      \* (unused by the exhaustive model: the state space is finite)

None == 1000000
R0(st, rs) == [st |-> st, runs |-> rs]   \* an access result: status + the runs read

(* ---- Abs ------------------------------------------------------------------------------ *)
Key(f, i) == f[i]
IsStart(f, i) == i = 1 \/ f[i] # f[i - 1]
Starts(f) == {i \in 1..Len(f) : IsStart(f, i)}
NRes(f) == Cardinality(Starts(f))
(* run k (1-based) as [first |-> 0-based position of its first atom, n |-> number of atoms] *)
StartSeq(f) == SetToSortSeq(Starts(f), LAMBDA x, y : x < y)
Runs(f) == LET ss == StartSeq(f) IN
           [k \in 1..Len(ss) |-> [first |-> ss[k] - 1,
                                  n |-> (IF k < Len(ss) THEN ss[k + 1] ELSE Len(f) + 1) - ss[k]]]
Run(f, k) == Runs(f)[k]

(* Python slice semantics: the indices range(n)[a:b:c] (c # 0), as a sequence of 0-based indices *)
Clamp(x, lo, hi) == IF x < lo THEN lo ELSE IF x > hi THEN hi ELSE x
SliceStart(n, a, c) == IF a = None THEN (IF c > 0 THEN 0 ELSE n - 1)
                       ELSE IF a < 0 THEN (IF a + n < 0 THEN (IF c > 0 THEN 0 ELSE 0 - 1) ELSE a + n)
                       ELSE IF a >= n THEN (IF c > 0 THEN n ELSE n - 1) ELSE a
SliceStop(n, b, c) == IF b = None THEN (IF c > 0 THEN n ELSE 0 - 1)
                      ELSE IF b < 0 THEN (IF b + n < 0 THEN (IF c > 0 THEN 0 ELSE 0 - 1) ELSE b + n)
                      ELSE IF b >= n THEN (IF c > 0 THEN n ELSE n - 1) ELSE b
RECURSIVE SliceFrom(_, _, _)
SliceFrom(i, stop, c) == IF (c > 0 /\ i >= stop) \/ (c < 0 /\ i <= stop) THEN <<>>
                         ELSE <<i>> \o SliceFrom(i + c, stop, c)
SliceIdx(n, a, b, c0) == LET c == IF c0 = None THEN 1 ELSE c0
                         IN SliceFrom(SliceStart(n, a, c), SliceStop(n, b, c), c)

(* ---- Alg: the parse -------------------------------------------------------------------- *)
(* residues in file order as <<name, size>> (the implementation's template key) *)
ResKinds(f) == LET R == Runs(f) IN [k \in 1..Len(R) |-> <<f[R[k].first + 1][2], R[k].n>>]
(* one pass: templates in order of first appearance, run-length list of <<template index, amount>> *)
RECURSIVE Parse(_, _, _, _)
Parse(kinds, i, templates, ordered) ==
    IF i > Len(kinds) THEN [templates |-> templates, ordered |-> ordered]
    ELSE LET kd == kinds[i]
             known == \E t \in 1..Len(templates) : templates[t] = kd
             tpl == IF known THEN templates ELSE Append(templates, kd)
             idx == CHOOSE t \in 1..Len(tpl) : tpl[t] = kd
             ord == IF Len(ordered) > 0 /\ ordered[Len(ordered)][1] = idx
                    THEN [ordered EXCEPT ![Len(ordered)] = <<idx, ordered[Len(ordered)][2] + 1>>]
                    ELSE Append(ordered, <<idx, 1>>)
         IN Parse(kinds, i + 1, tpl, ord)
Parsed(f) == Parse(ResKinds(f), 1, <<>>, <<>>)
(* expansion of the run-length list with offsets accumulated from the template sizes *)
RECURSIVE Expand(_, _, _, _, _)
Expand(p, block, j, start, acc) ==
    IF block > Len(p.ordered) THEN acc
    ELSE LET idx == p.ordered[block][1]
             amount == p.ordered[block][2]
             size == p.templates[idx][2]
         IN IF j > amount THEN Expand(p, block + 1, 1, start, acc)
            ELSE Expand(p, block, j + 1, start + size, Append(acc, [first |-> start, n |-> size]))
AlgRuns(f) == Expand(Parsed(f), 1, 1, 0, <<>>)

(* ---- access histories ------------------------------------------------------------------ *)
VARIABLES file,   \* the file being viewed
          absR,   \* Runs(file), computed once when the file is opened
          algR,   \* AlgRuns(file), what the implementation's parse produced
          it,     \* it[i] = number of residues already yielded by iterator i, or -1 (not started)
          cur,    \* the shared cursor of the underlying reader (atoms consumed since last seek)
          last,   \* result of the last access: sequence of [first, n] read, or <<"IndexError">> ...
          lastop  \* the last access made (the history is irrelevant beyond it[] and this)

vars == <<file, absR, algR, it, cur, last, lastop>>

Init == /\ file \in Files /\ absR = Runs(file) /\ algR = AlgRuns(file) /\ it = [i \in 1..NIter |-> 0 - 1] /\ cur = 0 /\ last = R0("none", <<>>) /\ lastop = <<"open">>

(* read run r with the implementation's steps: seek to its first atom, read n atoms *)
ReadRun(r) == [first |-> r.first, n |-> r.n]
Bounded == TRUE

IterNew(i) == /\ Bounded /\ it' = [it EXCEPT ![i] = 0] /\ last' = R0("none", <<>>)
              /\ lastop' = <<"iter", i>> /\ UNCHANGED <<file, absR, algR, cur>>
IterNext(i) == /\ Bounded /\ it[i] >= 0
               /\ IF it[i] < Len(algR)
                  THEN LET r == algR[it[i] + 1] IN
                       /\ last' = R0("ok", <<ReadRun(r)>>) /\ cur' = r.first + r.n /\ it' = [it EXCEPT ![i] = it[i] + 1]
                  ELSE /\ last' = R0("StopIteration", <<>>) /\ UNCHANGED <<cur, it>>
               /\ lastop' = <<"next", i>> /\ UNCHANGED <<file, absR, algR>>
Get(k) == /\ Bounded
          /\ LET n == Len(algR) IN
             IF k >= 0 - n /\ k < n
             THEN LET r == algR[(IF k < 0 THEN k + n ELSE k) + 1] IN
                  /\ last' = R0("ok", <<ReadRun(r)>>) /\ cur' = r.first + r.n
             ELSE /\ last' = R0("IndexError", <<>>) /\ UNCHANGED cur
          /\ lastop' = <<"get", k>> /\ UNCHANGED <<file, absR, algR, it>>
Slice(s) == /\ Bounded
            /\ LET idx == SliceIdx(Len(algR), s[1], s[2], s[3])
                   rs  == [j \in 1..Len(idx) |-> ReadRun(algR[idx[j] + 1])]
               IN /\ last' = R0("list", rs)
                  /\ cur' = IF Len(rs) = 0 THEN cur ELSE rs[Len(rs)].first + rs[Len(rs)].n
            /\ lastop' = <<"slice", s[1], s[2], s[3]>> /\ UNCHANGED <<file, absR, algR, it>>

Next == \/ \E i \in 1..NIter : IterNew(i) \/ IterNext(i)
        \/ \E k \in GetArgs : Get(k)
        \/ \E s \in SliceArgs : Slice(s)
Spec == Init /\ [][Next]_vars

(* ---- properties ------------------------------------------------------------------------ *)
(* the parse tiles the file exactly like the maximal runs *)
ParseIsRuns == algR = absR
(* runs are contiguous, disjoint and cover the file *)
Tiling == LET R == absR IN
          /\ (Len(file) > 0 => R[1].first = 0)
          /\ \A k \in 1..(Len(R) - 1) : R[k].first + R[k].n = R[k + 1].first
          /\ (Len(R) > 0 => R[Len(R)].first + R[Len(R)].n = Len(file))
          /\ \A k \in 1..Len(R) : \A a \in (R[k].first + 1)..(R[k].first + R[k].n) : file[a] = file[R[k].first + 1]
(* whatever the history, the last access returned what the Abs view designates *)
AbsOf(h) == LET R == absR n == Len(R) IN
    IF h[1] = "get" THEN (IF h[2] >= 0 - n /\ h[2] < n THEN R0("ok", <<R[(IF h[2] < 0 THEN h[2] + n ELSE h[2]) + 1]>>)
                          ELSE R0("IndexError", <<>>))
    ELSE IF h[1] = "slice" THEN R0("list", [j \in 1..Len(SliceIdx(n, h[2], h[3], h[4])) |->
                                                 R[SliceIdx(n, h[2], h[3], h[4])[j] + 1]])
    ELSE R0("none", <<>>)
AccessIsAbs == lastop[1] \in {"get", "slice"} => last = AbsOf(lastop)
(* an iterator yields run number (its own count), independent of the interleaving *)
IterIsAbs == lastop[1] = "next" =>
                LET i == lastop[2] IN
                \/ last = R0("StopIteration", <<>>) /\ it[i] = Len(absR)
                \/ it[i] >= 1 /\ last = R0("ok", <<absR[it[i]]>>)
CursorInFile == cur <= Len(file)
=============================================================================
