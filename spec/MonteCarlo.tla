----------------------------- MODULE MonteCarlo -----------------------------
(***************************************************************************)
(* The Monte-Carlo search of gaddlemaps (_backend._minimize_molecules) as  *)
(* a state machine, one action per critical section of the loop:           *)
(*                                                                         *)
(*   Start     first evaluation of the configuration handed in            *)
(*   Choose    draw of the proposal kind among the enabled types           *)
(*   Evaluate  the proposal is built from the held configuration and its   *)
(*             overlap measure computed                                    *)
(*   JudgeBetter / JudgeWorse   acceptance rule                            *)
(*   Stop      the loop ends and returns the held configuration            *)
(*                                                                         *)
(* Configurations are tokens, measures are integers that are only ever     *)
(* compared (small integers in the exhaustive configuration, dense order   *)
(* ranks of the floats in recorded traces).  counter / minE are the        *)
(* implementation's bookkeeping (Alg); MC_MonteCarlo.tla defines what the  *)
(* property demands from the history alone (Abs) and TLC shows they agree. *)
(***************************************************************************)
EXTENDS Integers, Sequences, FiniteSets, TLC

VARIABLES cfg,       \* [nSteps |-> Nat, types |-> SUBSET {0,1,2}]  fixed in Init
          pc,        \* "start" | "choose" | "eval" | "judge" | "done"
          held,      \* token of the configuration currently held
          heldE,     \* its measure
          minE,      \* lowest measure seen so far
          counter,   \* consecutive completed steps without a new lowest measure
          kind,      \* kind of the proposal under construction
          test,      \* token of the proposal
          newE,      \* its measure
          ret        \* returned token (0 = none yet)
core == <<cfg, pc, held, heldE, minE, counter, kind, test, newE, ret>>

Kinds == {0, 1, 2}      \* 0 translation, 1 rotation about the centroid, 2 single-atom move

CoreInit(c) == /\ cfg = c /\ pc = "start" /\ held = 0 /\ heldE = 0 /\ minE = 0 /\ counter = 0
               /\ kind = 0 /\ test = 0 /\ newE = 0 /\ ret = 0

Start(t, e) == /\ pc = "start"
               /\ held' = t /\ heldE' = e /\ minE' = e /\ counter' = 0
               /\ pc' = "choose"
               /\ UNCHANGED <<cfg, kind, test, newE, ret>>

Choose(k) == /\ pc = "choose"
             /\ counter < cfg.nSteps
             /\ k \in cfg.types
             /\ kind' = k /\ pc' = "eval"
             /\ UNCHANGED <<cfg, held, heldE, minE, counter, test, newE, ret>>

Evaluate(t, e) == /\ pc = "eval"
                  /\ test' = t /\ newE' = e /\ pc' = "judge"
                  /\ UNCHANGED <<cfg, held, heldE, minE, counter, kind, ret>>

Accept == /\ held' = test /\ heldE' = newE
          /\ IF newE < minE THEN minE' = newE /\ counter' = 0
                            ELSE minE' = minE /\ counter' = counter + 1
Reject == /\ UNCHANGED <<held, heldE, minE>>
          /\ counter' = counter + 1

JudgeBetter == /\ pc = "judge" /\ newE <= heldE
               /\ Accept /\ pc' = "choose"
               /\ UNCHANGED <<cfg, kind, test, newE, ret>>

(* a worse proposal: accepted iff the uniform draw is at most 0.01*heldE/newE;
   the outcome of the draw is the parameter *)
JudgeWorse(acc) == /\ pc = "judge" /\ newE > heldE
                   /\ (IF acc THEN Accept ELSE Reject) /\ pc' = "choose"
                   /\ UNCHANGED <<cfg, kind, test, newE, ret>>

Stop == /\ pc = "choose" /\ counter = cfg.nSteps
        /\ ret' = held /\ pc' = "done"
        /\ UNCHANGED <<cfg, held, heldE, minE, counter, kind, test, newE>>
=============================================================================
