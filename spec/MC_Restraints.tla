---------------------------- MODULE MC_Restraints ----------------------------
(* Exhaustive configurations of Restraints.tla.  Mode selects the sub-model:
   "route"   every (nS, nE, hydrogen mask of the fixed molecule, restraint list, ignoreH)
   "split"   every l1, l2 in 1..MaxL (offsets 0 and a second pair of offsets)
   "protein" every pair of residue-length sequences of <= MaxR residues of 1..MaxA atoms
   "manager" every assignment of option-dictionary shapes over the complete species
   Each initial state is one case; Compute moves it to phase "done" with the expected outcome. *)
EXTENDS Restraints
CONSTANTS Mode, MaxN, MaxRestr, MaxL, MaxR, MaxA
VARIABLES phase, cs, res
vars == <<phase, cs, res>>

SeqsUpTo(S, n) == UNION {[1..k -> S] : k \in 0..n}
RouteCases == {c \in [nS : 1..MaxN, nE : 1..MaxN, hS : SUBSET (1..MaxN), hE : SUBSET (1..MaxN), ignoreH : BOOLEAN, restr : {<<>>}] :
                 /\ c.hS \subseteq 1..c.nS /\ c.hE \subseteq 1..c.nE
                 /\ (IF FixedIsStart(c) THEN c.hE = {} /\ c.hS # 1..c.nS ELSE c.hS = {} /\ c.hE # 1..c.nE)}
Species == {"A", "B"}
(* A: the start molecule is the smaller one (roles swapped, the end is fixed and has hydrogens 2 and 4);
   B: the start molecule is the larger one and has hydrogens 1 and 5 *)
Sp == [s \in Species |-> IF s = "A" THEN [nS |-> 3, nE |-> 5, hS |-> {}, hE |-> {2, 4}, valid |-> <<<<1, 2>>, <<3, 5>>, <<2, 1>>, <<1, 4>>, <<3, 5>>>>, vdef |-> {0, 1}]
                                     ELSE [nS |-> 6, nE |-> 4, hS |-> {1, 5}, hE |-> {}, valid |-> <<<<5, 1>>, <<2, 3>>, <<6, 4>>, <<1, 1>>, <<2, 2>>, <<5, 1>>, <<5, 1>>>>, vdef |-> {0}]]
Entries == {"absent", "none", "valid", "bad"}
Dicts == {[given |-> FALSE, entry |-> [s \in Species |-> "absent"], extra |-> "no"]} \cup
         [given : {TRUE}, entry : [Species -> Entries], extra : {"no", "unknown", "incomplete"}]

MCInit == /\ phase = "case" /\ res = <<>>
          /\ CASE Mode = "route" -> \E c \in RouteCases : \E r \in SeqsUpTo((1..c.nS) \X (1..c.nE), MaxRestr) :
                                        cs = [c EXCEPT !.restr = r]
               [] Mode = "split" -> \E l1 \in 1..MaxL, l2 \in 1..MaxL, o \in {<<0, 0>>, <<7, 3>>} : cs = [l1 |-> l1, l2 |-> l2, o1 |-> o[1], o2 |-> o[2]]
               [] Mode = "protein" -> \E n \in 1..MaxR : \E a \in [1..n -> 1..MaxA], b \in [1..n -> 1..MaxA] : cs = [lens1 |-> a, lens2 |-> b]
               [] OTHER -> \E r \in Dicts, d \in Dicts, h \in Dicts, p \in {"no", "rev", "onlyA", "onlyB"} :
                              /\ cs = [restr |-> r, deform |-> d, ignoreH |-> h, pre |-> p]
                              \* restraints validated beforehand and passed as already parsed (reordered / for a subset of
                              \* the species): only meaningful when the restraint dictionary itself is acceptable
                              /\ (p # "no" => r.given /\ ~DictRejects(r, Species))
Compute == /\ phase = "case" /\ phase' = "done" /\ UNCHANGED cs
           /\ res' = CASE Mode = "route" -> [called |-> Called(cs), fixedIsStart |-> FixedIsStart(cs), abs |-> AbsDelivered(cs),
                                             alg |-> AlgDelivered(cs), rows |-> KeptRows(cs), types |-> DefaultTypes(cs)]
                       [] Mode = "split" -> [pairs |-> GuessAlg(cs.l1, cs.l2, cs.o1, cs.o2)]
                       [] Mode = "protein" -> [pairs |-> ProteinAlg(cs.lens1, cs.lens2)]
                       [] OTHER -> [rejected |-> Rejects(cs, Species), delivered |-> Delivered(cs, Species, Sp),
                                    aligned |-> CASE cs.pre = "onlyA" -> {"A"} [] cs.pre = "onlyB" -> {"B"} [] OTHER -> Species]
MCSpec == MCInit /\ [][Compute]_vars
Done == phase = "done"
RouteRefines == (Done /\ Mode = "route") => /\ AlgDesignatesAbs(cs)
                                            /\ \A q \in 1..Len(res.abs) : res.abs[q][1] \in KeptSet(cs)
                                            /\ Len(res.abs) <= Len(cs.restr)
                                            /\ (~cs.ignoreH => res.abs = Oriented(cs))
SplitRefines == (Done /\ Mode = "split") => GuessOK(res.pairs, cs.l1, cs.l2, cs.o1, cs.o2)
ProteinRefines == (Done /\ Mode = "protein") => ProteinOK(res.pairs, cs.lens1, cs.lens2)
ManagerTotal == (Done /\ Mode = "manager") => (res.rejected \in BOOLEAN /\ DOMAIN res.delivered = Species)
=============================================================================
