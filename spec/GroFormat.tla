----------------------------- MODULE GroFormat -----------------------------
(***************************************************************************)
(* The fixed-column GROMACS .gro text format, byte by byte.                *)
(*                                                                         *)
(* A file is a sequence of one-character strings.  Numbers are exact:      *)
(* a fixed-point value is a record [neg, ip, fr] meaning                   *)
(*     (-1)^neg * (ip + fr / 10^d)                                         *)
(* for the number of decimals d of the field it is written to, so that     *)
(* nothing in this module needs more than 32-bit integers.                 *)
(*                                                                         *)
(* Writer side : FmtInt, FmtFixed, AtomLine, BoxLine                       *)
(* Reader side : LineAt, ParseInt, ParseFixed, DetermineFormat,            *)
(*               ParseAtomLine, ParseBoxLine                               *)
(***************************************************************************)
EXTENDS Integers, Sequences, FiniteSets

NL == "\n"
SP == " "

DigitChar(n) == CASE n = 0 -> "0" [] n = 1 -> "1" [] n = 2 -> "2" [] n = 3 -> "3" [] n = 4 -> "4"
                  [] n = 5 -> "5" [] n = 6 -> "6" [] n = 7 -> "7" [] n = 8 -> "8" [] n = 9 -> "9"
DigitChars == {"0", "1", "2", "3", "4", "5", "6", "7", "8", "9"}
DigitVal(c) == CASE c = "0" -> 0 [] c = "1" -> 1 [] c = "2" -> 2 [] c = "3" -> 3 [] c = "4" -> 4
                 [] c = "5" -> 5 [] c = "6" -> 6 [] c = "7" -> 7 [] c = "8" -> 8 [] c = "9" -> 9

RECURSIVE DigitsOf(_)
DigitsOf(n) == IF n < 10 THEN <<DigitChar(n)>> ELSE Append(DigitsOf(n \div 10), DigitChar(n % 10))

RECURSIVE Pow10(_)
Pow10(k) == IF k = 0 THEN 1 ELSE 10 * Pow10(k - 1)

Rep(c, k) == [i \in 1..k |-> c]

(* Python's "{:>w}" / "{:<w}": pad to at least w, never truncate *)
PadLeft(s, w)  == IF Len(s) >= w THEN s ELSE Rep(SP, w - Len(s)) \o s
PadRight(s, w) == IF Len(s) >= w THEN s ELSE s \o Rep(SP, w - Len(s))
ZeroPadLeft(s, w) == IF Len(s) >= w THEN s ELSE Rep("0", w - Len(s)) \o s

FmtInt(n, w) == PadLeft(IF n < 0 THEN <<"-">> \o DigitsOf(0 - n) ELSE DigitsOf(n), w)

Fixed(neg, ip, fr) == [neg |-> neg, ip |-> ip, fr |-> fr]
FixedZero == Fixed(FALSE, 0, 0)
IsZero(v) == v.ip = 0 /\ v.fr = 0
(* equality of values: the sign of zero is irrelevant *)
FixedEq(a, b) == a.ip = b.ip /\ a.fr = b.fr /\ (a.neg = b.neg \/ IsZero(a))

(* "{:w.df}" of an exactly representable value *)
FmtFixed(v, w, d) ==
    PadLeft((IF v.neg THEN <<"-">> ELSE <<>>) \o DigitsOf(v.ip) \o <<".">>
            \o ZeroPadLeft(DigitsOf(v.fr), d), w)

(***************************************************************************)
(* Number wrap of the residue / atom number columns.  What the format      *)
(* REQUIRES (property C13): a number below 100000 is written unchanged,    *)
(* a larger one is written as some number that still fits five columns.    *)
(* WrapAlg is the concrete (GROMACS) convention the repaired code follows; *)
(* conformance is judged against WrapOK only.                              *)
(***************************************************************************)
WrapOK(n, written) == IF n < 100000 THEN written = n ELSE written \in 0..99999
WrapAlg(n) == n % 100000

(* an atom record: [resid, resname, name, nr, pos, vel] with pos/vel sequences of Fixed
   (vel = <<>> when the record has no velocities); names are sequences of characters *)
AtomLineWith(r, w, d, rid, nr) ==
    FmtInt(rid, 5) \o PadRight(r.resname, 5) \o PadLeft(r.name, 5) \o FmtInt(nr, 5)
    \o FmtFixed(r.pos[1], w, d) \o FmtFixed(r.pos[2], w, d) \o FmtFixed(r.pos[3], w, d)
    \o (IF r.vel = <<>> THEN <<>>
        ELSE FmtFixed(r.vel[1], w, d + 1) \o FmtFixed(r.vel[2], w, d + 1) \o FmtFixed(r.vel[3], w, d + 1))
AtomLine(r, w, d) == AtomLineWith(r, w, d, WrapAlg(r.resid), WrapAlg(r.nr))

(* box: 9 Fixed values, row-major 3x3 (d = 5, w = 9).  File order: xx yy zz xy xz yx yz zx zy *)
BoxOrder == <<1, 5, 9, 2, 3, 4, 6, 7, 8>>
BoxIsDiagonal(b) == \A i \in 4..9 : IsZero(b[BoxOrder[i]])
RECURSIVE JoinSp(_)
JoinSp(ss) == IF Len(ss) = 0 THEN <<>> ELSE IF Len(ss) = 1 THEN ss[1] ELSE ss[1] \o <<SP>> \o JoinSp(Tail(ss))
BoxLine(b) == LET n == IF BoxIsDiagonal(b) THEN 3 ELSE 9
              IN JoinSp([i \in 1..n |-> FmtFixed(b[BoxOrder[i]], 9, 5)])

(***************************************************************************)
(* Reader side                                                             *)
(***************************************************************************)
(* the text line starting at 0-based offset pos: up to and including the next newline,
   or up to the end of the data; <<>> at or beyond the end (Python readline) *)
RECURSIVE LineEnd(_, _)
LineEnd(b, i) == IF i > Len(b) THEN Len(b) ELSE IF b[i] = NL THEN i ELSE LineEnd(b, i + 1)
LineAt(b, pos) == IF pos >= Len(b) THEN <<>> ELSE SubSeq(b, pos + 1, LineEnd(b, pos + 1))

StripNL(s) == IF Len(s) > 0 /\ s[Len(s)] = NL THEN SubSeq(s, 1, Len(s) - 1) ELSE s
RECURSIVE LStrip(_)
LStrip(s) == IF Len(s) > 0 /\ s[1] \in {SP, NL} THEN LStrip(Tail(s)) ELSE s
RECURSIVE RStrip(_)
RStrip(s) == IF Len(s) > 0 /\ s[Len(s)] \in {SP, NL} THEN RStrip(SubSeq(s, 1, Len(s) - 1)) ELSE s
Strip(s) == LStrip(RStrip(s))

Bad == -1000000000   \* "not a number"

RECURSIVE DigitsVal(_)
DigitsVal(s) == IF Len(s) = 0 THEN 0 ELSE 10 * DigitsVal(SubSeq(s, 1, Len(s) - 1)) + DigitVal(s[Len(s)])
AllDigits(s) == Len(s) > 0 /\ \A i \in 1..Len(s) : s[i] \in DigitChars
(* int(text) of Python for the strings that occur here *)
ParseInt(s0) == LET s == Strip(s0) IN
    IF AllDigits(s) THEN DigitsVal(s)
    ELSE IF Len(s) > 1 /\ s[1] = "-" /\ AllDigits(Tail(s)) THEN 0 - DigitsVal(Tail(s))
    ELSE Bad

Count(s, c) == Cardinality({i \in 1..Len(s) : s[i] = c})
IndexOf(s, c) == IF \E i \in 1..Len(s) : s[i] = c THEN CHOOSE i \in 1..Len(s) : s[i] = c /\ \A j \in 1..(i-1) : s[j] # c ELSE 0

(* float(text) for a fixed-point field with exactly d decimals; [ok |-> FALSE] otherwise *)
ParseFixed(s0, d) == LET s   == Strip(s0)
                         neg == Len(s) > 0 /\ s[1] = "-"
                         t   == IF neg THEN Tail(s) ELSE s
                         dot == IndexOf(t, ".")
                     IN IF dot < 2 \/ Len(t) - dot # d THEN [ok |-> FALSE]
                        ELSE LET ipd == SubSeq(t, 1, dot - 1)
                                 frd == SubSeq(t, dot + 1, Len(t))
                             IN IF AllDigits(ipd) /\ (d = 0 \/ AllDigits(frd))
                                THEN [ok |-> TRUE, v |-> Fixed(neg, DigitsVal(ipd), DigitsVal(frd))]
                                ELSE [ok |-> FALSE]

(* format inference from the first atom line (without its newline) *)
DetermineFormat(line0) ==
    LET line  == StripNL(line0)
        size  == Len(line)
        ndots == IF size > 20 THEN Count(SubSeq(line, 21, size), ".") ELSE 0
    IN IF ndots \notin {3, 6} THEN [ok |-> FALSE]
       ELSE LET nfig == (size - 20) \div ndots
            IN IF size # 20 + ndots * nfig THEN [ok |-> FALSE]
               ELSE [ok |-> TRUE, w |-> nfig, d |-> nfig - 5, vel |-> (ndots = 6)]

ParseAtomLine(line0, w, d, hasVel) ==
    LET line == StripNL(line0)
        exp  == 20 + 3 * w * (IF hasVel THEN 2 ELSE 1)
    IN IF Len(line) # exp THEN [ok |-> FALSE]
       ELSE LET rid == ParseInt(SubSeq(line, 1, 5))
                nr  == ParseInt(SubSeq(line, 16, 20))
                F(k, dd) == ParseFixed(SubSeq(line, 21 + k * w, 20 + (k + 1) * w), dd)
                p   == [k \in 1..3 |-> F(k - 1, d)]
                v   == IF hasVel THEN [k \in 1..3 |-> F(k + 2, d + 1)] ELSE <<>>
            IN IF rid = Bad \/ nr = Bad \/ (\E k \in 1..3 : ~p[k].ok) \/ (\E k \in 1..Len(v) : ~v[k].ok)
               THEN [ok |-> FALSE]
               ELSE [ok |-> TRUE,
                     rec |-> [resid |-> rid, resname |-> Strip(SubSeq(line, 6, 10)),
                              name |-> Strip(SubSeq(line, 11, 15)), nr |-> nr,
                              pos |-> [k \in 1..3 |-> p[k].v],
                              vel |-> [k \in 1..Len(v) |-> v[k].v]]]

(* whitespace separated fields of a line *)
RECURSIVE Fields(_)
Fields(s0) == LET s == LStrip(s0) IN
    IF Len(s) = 0 THEN <<>>
    ELSE LET e == IF \E i \in 1..Len(s) : s[i] \in {SP, NL}
                  THEN (CHOOSE i \in 1..Len(s) : s[i] \in {SP, NL} /\ \A j \in 1..(i-1) : s[j] \notin {SP, NL}) - 1
                  ELSE Len(s)
         IN <<SubSeq(s, 1, e)>> \o Fields(SubSeq(s, e + 1, Len(s)))

(* the box line: up to nine 5-decimal numbers, missing ones are zero *)
ParseBoxLine(line) ==
    LET fs == Fields(line)
        ps == [i \in 1..Len(fs) |-> ParseFixed(fs[i], 5)]
    IN IF \E i \in 1..Len(fs) : ~ps[i].ok THEN [ok |-> FALSE]
       ELSE [ok |-> TRUE,
             box |-> [k \in 1..9 |->
                        IF \E i \in 1..9 : i <= Len(fs) /\ BoxOrder[i] = k
                        THEN ps[CHOOSE i \in 1..9 : BoxOrder[i] = k].v ELSE FixedZero]]
=============================================================================
