---------------------------- MODULE MC_GroView ----------------------------
EXTENDS GroView
CONSTANTS Tier
Pairs == {<<1, "X">>, <<2, "X">>, <<1, "Y">>}
MaxAtoms == IF Tier = "quick" THEN 4 ELSE 5
MC_Files == UNION {[1..n -> Pairs] : n \in 1..MaxAtoms}
MC_GetArgs == IF Tier = "quick" THEN {0 - 5, 0 - 2, 0 - 1, 0, 1, 3} ELSE (0 - 6)..5
MC_SliceArgs == IF Tier = "quick"
                THEN {<<None, None, None>>, <<1, None, None>>, <<None, 0 - 1, None>>, <<None, None, 0 - 1>>,
                      <<0 - 3, 7, 2>>, <<3, 0, 0 - 2>>}
                ELSE {<<a, b, c>> : a \in {None, 0 - 3, 0, 2}, b \in {None, 0 - 1, 2, 7}, c \in {None, 2, 0 - 1, 0 - 2}}
MC_MaxOps == IF Tier = "quick" THEN 3 ELSE 4
=============================================================================
