------------------------------ MODULE MC_Chi2 ------------------------------
EXTENDS Chi2
CONSTANTS Tier
(* points with ties (equidistant pairs) and distinct distances, in the plane z = 0 and off it *)
P == IF Tier = "quick" THEN {<<0, 0, 0>>, <<2, 0, 0>>, <<1, 1, 0>>} ELSE {<<0, 0, 0>>, <<2, 0, 0>>, <<1, 1, 0>>, <<1, 0, 3>>}
SeqsUpTo(S, n) == UNION {[1..k -> S] : k \in 1..n}
MaxF == 3
MaxM == 3
RestrLists(nf, nm) == LET Pr == {<<i, j>> : i \in 1..nf, j \in 1..nm} IN
                      {<<>>} \cup {<<p>> : p \in Pr} \cup {<<p, q>> : p \in Pr, q \in Pr}
                      \cup (IF Tier = "quick" THEN {} ELSE {<<p, q, r>> : p \in Pr, q \in Pr, r \in {<<1, 1>>, <<nf, nm>>}})
MC_Cases == {}
(* enumerate the cases directly in the initial predicate (restraint indices within range) *)
MCInit == /\ phase = "case" /\ res = <<>>
          /\ \E f \in SeqsUpTo(P, MaxF) : \E m \in SeqsUpTo(P, MaxM) : \E r \in RestrLists(Len(f), Len(m)) :
                cs = [fixed |-> f, mobile |-> m, restr |-> r]
MCSpec == MCInit /\ [][Next]_vars
=============================================================================
