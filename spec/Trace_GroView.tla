--------------------------- MODULE Trace_GroView ---------------------------
(***************************************************************************)
(* Trace validation for the residue view: recorded access histories on a   *)
(* real SystemGro must be behaviours of GroView.tla.  Every atom of the    *)
(* generated file is unique, so the harness can tell which file positions  *)
(* an access actually returned (runs = [first, n]); data_ok says that every *)
(* returned field equals the record written at that position.              *)
(***************************************************************************)
EXTENDS GroView, Json, IOUtils, TLCExt

Traces == ndJsonDeserialize(IOEnv.TRACE_FILE)
VARIABLES tid, l
tvars == <<vars, tid, l>>
Ev == Traces[tid].ev
Clause(name, e) == IF e THEN TRUE ELSE PrintT(<<"FAIL", Traces[tid].tid, l, name>>) /\ FALSE
IsOp(o) == l <= Len(Ev) /\ Ev[l].op = o /\ l' = l + 1 /\ UNCHANGED tid

FileOf(t) == [i \in 1..Len(Traces[t].cfg.file) |-> <<Traces[t].cfg.file[i][1], Traces[t].cfg.file[i][2]>>]
TraceInit == /\ tid \in 1..Len(Traces) /\ l = 1
             /\ file = FileOf(tid) /\ absR = Runs(FileOf(tid)) /\ algR = AlgRuns(FileOf(tid))
             /\ it = [i \in 1..NIter |-> 0 - 1] /\ cur = 0 /\ last = R0("none", <<>>) /\ lastop = <<"open">>

ObsRuns(e) == [j \in 1..Len(e.runs) |-> [first |-> e.runs[j].first, n |-> e.runs[j].n]]
Matches(e) == /\ Clause("status", e.st = last'.st)
              /\ Clause("returns_designated_residues", ObsRuns(e) = last'.runs)
              /\ Clause("data_equal", e.data_ok)

TrOpen == /\ IsOp("open") /\ UNCHANGED vars
          /\ Clause("residue_count", Ev[l].nres = Len(absR))
          /\ Clause("atom_count", Ev[l].natoms = Len(file))
          /\ Clause("box_title", Ev[l].box_ok /\ Ev[l].title_ok)
          /\ Clause("alg_parse_is_runs", algR = absR)
TrIter == IsOp("iter") /\ IterNew(Ev[l].it)
TrNext == IsOp("next") /\ IterNext(Ev[l].it) /\ Matches(Ev[l])
TrGet == IsOp("get") /\ Get(Ev[l].k) /\ Matches(Ev[l])
TrSlice == IsOp("slice") /\ Slice(<<Ev[l].a, Ev[l].b, Ev[l].c>>) /\ Matches(Ev[l])
(* a complete fresh iteration: the concatenation of the residues is the file *)
TrIterAll == /\ IsOp("iterall") /\ UNCHANGED vars
             /\ Clause("iteration_tiles_file", ObsRuns(Ev[l]) = absR)
             /\ Clause("data_equal", Ev[l].data_ok)
TrLen == IsOp("len") /\ UNCHANGED vars /\ Clause("len", Ev[l].n = Len(absR))

TraceNext == TrOpen \/ TrIter \/ TrNext \/ TrGet \/ TrSlice \/ TrIterAll \/ TrLen
TraceSpec == TraceInit /\ [][TraceNext]_tvars
Accepted == (l = Len(Ev) + 1) => PrintT(<<"ACC", Traces[tid].tid>>)
=============================================================================
