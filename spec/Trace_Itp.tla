----------------------------- MODULE Trace_Itp -----------------------------
(***************************************************************************)
(* Trace validation for the .itp reader/writer and the topology reader.    *)
(* cfg.file is the abstract file (token-level lines) the harness rendered  *)
(* to text; the events carry what the real ItpFile / read_topology /       *)
(* MoleculeTop / are_connected returned, normalised to tokens.             *)
(* "graph" traces (large molecules) carry the bond list directly and a     *)
(* connectivity certificate (component labels + spanning-forest parents)   *)
(* that TLC verifies in linear time.                                       *)
(***************************************************************************)
EXTENDS Itp, Json, IOUtils, TLCExt
Traces == ndJsonDeserialize(IOEnv.TRACE_FILE)
VARIABLES tid, l
Ev == Traces[tid].ev
Cfg == Traces[tid].cfg
(* clauses that belong to a sibling property of the same engine are not evaluated by this check (they would
   otherwise mask a later clause of this property on the same trace); the sibling check evaluates them *)
CONSTANT SkipClauses
Clause(name, e) == IF name \in SkipClauses \/ e THEN TRUE ELSE PrintT(<<"FAIL", Traces[tid].tid, l, name>>) /\ FALSE
IsOp(o) == l <= Len(Ev) /\ Ev[l].op = o /\ l' = l + 1 /\ UNCHANGED <<tid, vars>>

ToLine(j) == L(j.k, j.t, j.c)
FileOf(t) == [i \in 1..Len(Traces[t].cfg.file) |-> ToLine(Traces[t].cfg.file[i])]
TraceInit == /\ tid \in 1..Len(Traces) /\ l = 1 /\ phase = "trace"
             /\ file = (IF Traces[tid].cfg.kind = "file" THEN FileOf(tid) ELSE <<>>)
             /\ res = (IF Traces[tid].cfg.kind = "file" THEN View(FileOf(tid)) ELSE <<>>)

ObsView(e) == [header |-> [i \in 1..Len(e.header) |-> ToLine(e.header[i])],
               names |-> e.names,
               items |-> [j \in 1..Len(e.items) |-> [q \in 1..Len(e.items[j]) |-> ToLine(e.items[j][q])]]]
SameView(e) == /\ Clause("section_names_in_order_of_first_appearance", e.names = res.names)
               /\ Clause("section_lines", ObsView(e).items = res.items)
               /\ Clause("header_lines", ObsView(e).header = res.header)

TrRead == IsOp("read") /\ SameView(Ev[l])
TrRewrite == IsOp("rewrite") /\ SameView(Ev[l])       \* write(), then read the written file
TrRewrite2 == IsOp("rewrite2") /\ SameView(Ev[l])     \* and once more: the round trip is stable

PairSet(bs) == {{bs[i][1], bs[i][2]} : i \in 1..Len(bs)}
(* file traces: topology read off the view *)
TrTopo == /\ IsOp("topo")
          /\ Clause("molecule_name", Ev[l].name = MolName(res))
          /\ Clause("atoms_in_file_order", [i \in 1..Len(Ev[l].atoms) |-> <<Ev[l].atoms[i][1], Ev[l].atoms[i][2], Ev[l].atoms[i][3]>>] = AtomsOf(res))
          /\ Clause("bond_graph", PairSet(Ev[l].bonds) = BondSet(res))
          /\ Clause("bonds_symmetric", Ev[l].symmetric)
(* the same reading of the file the library wrote back: "and therefore the same molecule name, atoms and bonds" *)
TrTopo2 == /\ IsOp("topo2")
           /\ Clause("rewritten_molecule_name", Ev[l].name = MolName(res))
           /\ Clause("rewritten_atoms_in_file_order", [i \in 1..Len(Ev[l].atoms) |-> <<Ev[l].atoms[i][1], Ev[l].atoms[i][2], Ev[l].atoms[i][3]>>] = AtomsOf(res))
           /\ Clause("rewritten_bond_graph", PairSet(Ev[l].bonds) = BondSet(res))
           /\ Clause("rewritten_bonds_symmetric", Ev[l].symmetric)
(* graph traces: the bond list is part of the configuration *)
TrGraph == /\ IsOp("graph")
           /\ Clause("atom_count", Ev[l].natoms = Cfg.n)
           /\ Clause("bond_graph", PairSet(Ev[l].bonds) = PairSet(Cfg.bonds))
           /\ Clause("bonds_symmetric", Ev[l].symmetric)

(* connectivity with a certificate: label = component id per atom, parent/depth = spanning forest *)
Bonds == IF Cfg.kind = "file" THEN BondSet(res) ELSE PairSet(Cfg.bonds)
NAtoms == IF Cfg.kind = "file" THEN Len(AtomLines(res)) ELSE Cfg.n
CertOK(e) == LET B == Bonds IN
             /\ Len(e.label) = NAtoms /\ Len(e.parent) = NAtoms /\ Len(e.depth) = NAtoms
             /\ \A b \in B : \A x \in b : \A y \in b : e.label[x + 1] = e.label[y + 1]
             /\ \A i \in 1..NAtoms :
                   \/ e.parent[i] = i - 1 /\ e.depth[i] = 0 /\ e.label[i] = i - 1       \* a root
                   \/ /\ {i - 1, e.parent[i]} \in B
                      /\ e.depth[e.parent[i] + 1] = e.depth[i] - 1
                      /\ e.label[e.parent[i] + 1] = e.label[i]
TrConn == /\ IsOp("conn")
          \* the harness computes the certificate from the bonds the implementation returned; when those are not the
          \* file's bonds (clause bond_graph of the event before) there is nothing to certify
          /\ Clause("certificate_valid_MACHINERY", (PairSet(Ev[l].bonds) = Bonds /\ Ev[l].natoms = NAtoms) => CertOK(Ev[l]))
          /\ Clause("connectivity_test_answers", Ev[l].exc = "")
          /\ Clause("connected_iff_one_component",
                    Ev[l].value = (\A i \in 1..NAtoms : Ev[l].label[i] = Ev[l].label[1]))
TrCopy == /\ IsOp("copy")
          /\ Clause("copy_equal", Ev[l].equal)
          /\ Clause("copy_independent", Ev[l].independent)

(* a topology of more than a megabyte (a polymer): line counts per section, read / written back / read again *)
TrBig == /\ IsOp("big")
         /\ Clause("section_names_in_order_of_first_appearance", Ev[l].names_ok)
         /\ Clause("section_lines", Ev[l].read = Ev[l].nlines /\ Ev[l].rewritten = Ev[l].nlines /\ Ev[l].last_line_ok)
TraceNext == TrBig \/ TrRead \/ TrRewrite \/ TrRewrite2 \/ TrTopo \/ TrTopo2 \/ TrGraph \/ TrConn \/ TrCopy
TraceSpec == TraceInit /\ [][TraceNext]_<<vars, tid, l>>
Accepted == (l = Len(Ev) + 1) => PrintT(<<"ACC", Traces[tid].tid>>)
=============================================================================
