---------------------------- MODULE MC_GroFile ----------------------------
(* Model constants for exhaustive checking of GroFile (quick and thorough bounds). *)
EXTENDS GroFile

CONSTANTS Tier      \* "quick" | "thorough"

Chars(s) == s   \* names are written directly as sequences

T_text == <<"M", "y", " ", "b", "o", "x">>
(* a title with a non-ASCII character: the two bytes of its UTF-8 encoding (the file is a byte sequence) *)
T_uni == <<"t", "b195", "b169">>      \* pseudo characters "bNNN" = the byte NNN
MC_Titles == IF Tier = "quick" THEN {T_text, T_text \o <<NL>>, <<>>} ELSE {T_text, T_text \o <<NL>>, <<>>, T_uni}

MC_Declared == IF Tier = "quick" THEN {1, 2} ELSE {1, 2, 3}
MC_Formats == IF Tier = "quick" THEN {<<6, 1>>, <<9, 4>>}
              ELSE {<<8, 3>>, <<6, 1>>, <<9, 4>>, <<11, 6>>}

F(neg, ip, fr) == Fixed(neg, ip, fr)
BoxDiag == <<F(FALSE, 3, 12345), FixedZero, FixedZero,
             FixedZero, F(FALSE, 12, 50000), FixedZero,
             FixedZero, FixedZero, F(FALSE, 999, 99999)>>
BoxTric == <<F(FALSE, 5, 0), FixedZero, FixedZero,
             F(TRUE, 1, 25000), F(FALSE, 5, 1), FixedZero,
             F(FALSE, 0, 1), F(TRUE, 0, 99999), F(FALSE, 4, 70000)>>
MC_Boxes == {BoxDiag, BoxTric}

(* palette of records; fractions are taken modulo 10^d so that the same palette is valid for
   every number of decimals d *)
Pal(d) ==
  LET nines == Pow10(d) - 1
      vn    == Pow10(d + 1) - 1
      half  == 5 * Pow10(d - 1)
  IN {
   [resid |-> 1, resname |-> <<"S","O","L">>, name |-> <<"O","W">>, nr |-> 1,
    pos |-> <<FixedZero, F(FALSE, 1, half), F(TRUE, 1, 0)>>, vel |-> <<>>],
   [resid |-> 99999, resname |-> <<"A","B","C","D","E">>, name |-> <<"V","W","X","Y","Z">>, nr |-> 99999,
    pos |-> <<F(FALSE, 9999, nines), F(TRUE, 999, nines), F(FALSE, 0, 1)>>, vel |-> <<>>],
   [resid |-> 100000, resname |-> <<"X">>, name |-> <<"Y">>, nr |-> 100000,
    pos |-> <<F(FALSE, 12, 1), F(TRUE, 0, 1), F(FALSE, 100, 0)>>,
    vel |-> <<F(FALSE, 999, vn), F(TRUE, 99, vn), FixedZero>>],
   [resid |-> 1234567, resname |-> <<"1","2","A","B">>, name |-> <<"H","1","'">>, nr |-> 199998,
    pos |-> <<F(FALSE, 1, 0), F(FALSE, 2, 0), F(FALSE, 3, 0)>>,
    vel |-> <<F(FALSE, 0, 1), F(TRUE, 0, 5), F(FALSE, 1, 0)>>],
   [resid |-> 0, resname |-> <<"R">>, name |-> <<"C","1">>, nr |-> 0,
    pos |-> <<F(TRUE, 0, half), F(FALSE, 0, half), F(FALSE, 7, nines)>>, vel |-> <<>>]
  }
MC_Records == {}
MC_MaxRecs == IF Tier = "quick" THEN 2 ELSE 3

(* quick bounds explore a rejected writeline only in files without other settings *)
MCRejectOK == (outcome' = "OSError" /\ mode' = "body") =>
                 (Tier = "thorough" \/ (title = UnsetTitle /\ fmt = UnsetFmt /\ box = UnsetBox))
MCWriteNext(r) == WriteNext(r) /\ MCRejectOK

(* Next, with the record palette that fits the chosen number of decimals *)
MCNext == \/ \E t \in Titles : SetTitle(t)
          \/ \E n \in Declared : SetDeclared(n)
          \/ \E f \in Formats : SetFormat(f)
          \/ \E b \in Boxes : SetBox(b)
          \/ \E r \in Pal(Fmt[2]) : WriteFirst(r)
          \/ \E r \in Pal(Fmt[2]) : MCWriteNext(r)
          \/ Close1 \/ Close2 \/ Close3
MCSpec == Init /\ [][MCNext]_vars
=============================================================================
