----------------------------- MODULE Restraints -----------------------------
(***************************************************************************)
(* Restraint pairs from the user (or the guesser) to the optimiser.        *)
(*                                                                         *)
(* Route: Alignment.align_molecules.  A case c has sizes nS, nE, hydrogen  *)
(* atoms hS, hE (sets of 1-based atom numbers), the user's list restr of   *)
(* <<i, j>> (i in the start, j in the end molecule) and ignoreH.           *)
(*   Abs  = what the property demands: the optimiser receives, in order,   *)
(*          the pairs <<fixed atom, mobile atom>> of the user's list, the  *)
(*          fixed molecule being the start iff nS >= nE, minus the pairs   *)
(*          whose fixed-side atom is a filtered hydrogen.                  *)
(*   Alg  = the implementation: pairs reversed on role swap, fixed index   *)
(*          re-based to its rank among the kept (non-hydrogen) rows.       *)
(* Split / Guess: guess_residue_restrains and guess_protein_restrains.     *)
(* The predicates Covers / InRange / Monotone / SamePosition are the       *)
(* property; GuessAlg is the implementation's contiguous grouping.         *)
(***************************************************************************)
EXTENDS Integers, Sequences, FiniteSets, TLC

(* ---- Route -------------------------------------------------------------------------------- *)
FixedIsStart(c) == c.nS >= c.nE
NFixed(c) == IF FixedIsStart(c) THEN c.nS ELSE c.nE
HFixed(c) == IF FixedIsStart(c) THEN c.hS ELSE c.hE
Oriented(c) == [q \in 1..Len(c.restr) |->
                  IF FixedIsStart(c) THEN c.restr[q] ELSE <<c.restr[q][2], c.restr[q][1]>>]
Filtered(c, a) == c.ignoreH /\ a \in HFixed(c)
AbsDelivered(c) == SelectSeq(Oriented(c), LAMBDA p : ~Filtered(c, p[1]))
KeptSet(c) == {a \in 1..NFixed(c) : ~Filtered(c, a)}
(* rows handed to the optimiser for the fixed molecule: the kept atoms in atom order *)
RECURSIVE SortedSeq(_)
SortedSeq(S) == IF S = {} THEN <<>> ELSE LET m == CHOOSE x \in S : \A y \in S : x <= y IN <<m>> \o SortedSeq(S \ {m})
KeptRows(c) == SortedSeq(KeptSet(c))
RankIn(c, a) == Cardinality({b \in KeptSet(c) : b <= a})
AlgDelivered(c) == LET o == AbsDelivered(c) IN [q \in 1..Len(o) |-> <<RankIn(c, o[q][1]), o[q][2]>>]
(* the optimiser is not called at all for a one-atom end molecule *)
Called(c) == c.nE # 1
AlgDesignatesAbs(c) == LET a == AlgDelivered(c) b == AbsDelivered(c) r == KeptRows(c) IN
                       /\ Len(a) = Len(b)
                       /\ \A q \in 1..Len(a) : r[a[q][1]] = b[q][1] /\ a[q][2] = b[q][2]
(* default deformation types when the user gives none *)
DefaultTypes(c) == IF c.nS = 1 \/ c.nE = 1 THEN {0} ELSE {0, 1, 2}

(* ---- Split / Guess ------------------------------------------------------------------------ *)
(* pairs are <<i, j>> 0-based atom indices as the code returns them *)
Group(len, p, k) == {i \in 0..(len - 1) : ((k - 1) * len) \div p <= i /\ i < (k * len) \div p}
Min2(a, b) == IF a <= b THEN a ELSE b
GuessAlg(l1, l2, o1, o2) == LET n == Min2(l1, l2) IN
    UNION {{<<i + o1, j + o2>> : i \in Group(l1, n, k), j \in Group(l2, n, k)} : k \in 1..n}
Covers(P, l1, l2, o1, o2) == /\ \A i \in o1..(o1 + l1 - 1) : \E p \in P : p[1] = i
                             /\ \A j \in o2..(o2 + l2 - 1) : \E p \in P : p[2] = j
InRange(P, l1, l2, o1, o2) == \A p \in P : p[1] \in o1..(o1 + l1 - 1) /\ p[2] \in o2..(o2 + l2 - 1)
Monotone(P) == \A p, q \in P : (p[1] < q[1] => p[2] <= q[2]) /\ (p[2] < q[2] => p[1] <= q[1])
GuessOK(P, l1, l2, o1, o2) == Covers(P, l1, l2, o1, o2) /\ InRange(P, l1, l2, o1, o2) /\ Monotone(P)
(* multi-residue molecules: lens1, lens2 = atoms per residue in sequence order *)
RECURSIVE SumTo(_, _)
SumTo(s, n) == IF n = 0 THEN 0 ELSE s[n] + SumTo(s, n - 1)
ResOf(lens, a) == CHOOSE r \in 1..Len(lens) : SumTo(lens, r - 1) <= a /\ a < SumTo(lens, r)
ProteinAlg(lens1, lens2) == UNION {GuessAlg(lens1[r], lens2[r], SumTo(lens1, r - 1), SumTo(lens2, r - 1)) : r \in 1..Len(lens1)}
ProteinOK(P, lens1, lens2) ==
    /\ \A p \in P : /\ p[1] \in 0..(SumTo(lens1, Len(lens1)) - 1) /\ p[2] \in 0..(SumTo(lens2, Len(lens2)) - 1)
                    /\ ResOf(lens1, p[1]) = ResOf(lens2, p[2])            \* same sequence position only
    /\ Covers(P, SumTo(lens1, Len(lens1)), SumTo(lens2, Len(lens2)), 0, 0)
    /\ Monotone(P)

(* ---- Manager routing ----------------------------------------------------------------------- *)
(* an option dictionary: [given |-> BOOLEAN, entry |-> [species -> "absent"|"none"|"valid"|"bad"],
   extra |-> "no" | "unknown" | "incomplete"]; three of them: restr, deform, ignoreH *)
DictRejects(d, complete) == d.given /\ (d.extra # "no" \/ \E s \in complete : d.entry[s] = "bad")
Rejects(o, complete) == DictRejects(o.restr, complete) \/ DictRejects(o.deform, complete) \/ DictRejects(o.ignoreH, complete)
Uses(d, s) == d.given /\ d.entry[s] = "valid"
(* what reaches the optimiser for each complete species.  sp[s] = [nS, nE, hS, hE, valid] is the species
   (valid = the restraint list used for a "valid" entry); a "valid" ignoreH entry is FALSE (the default is TRUE)
   and a "valid" deformation entry is sp[s].vdef (e.g. (0, 1), or the translation-only (0,)). *)
Delivered(o, complete, sp) ==
    [s \in complete |->
        LET c == [nS |-> sp[s].nS, nE |-> sp[s].nE, hS |-> sp[s].hS, hE |-> sp[s].hE,
                  restr |-> IF Uses(o.restr, s) THEN sp[s].valid ELSE <<>>,
                  ignoreH |-> ~Uses(o.ignoreH, s)]
        IN [restr |-> AbsDelivered(c), rows |-> KeptRows(c), fixedIsStart |-> FixedIsStart(c),
            types |-> IF Uses(o.deform, s) THEN sp[s].vdef ELSE DefaultTypes(c)]]
=============================================================================
