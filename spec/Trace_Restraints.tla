--------------------------- MODULE Trace_Restraints ---------------------------
(***************************************************************************)
(* Trace validation of the real restraint plumbing against Restraints.tla: *)
(* each trace is one observation                                           *)
(*   Split{l1, l2, o1, o2, pairs}     guess_residue_restrains              *)
(*   Protein{lens1, lens2, outcome, pairs}   guess_protein_restrains       *)
(*   Route{nS, nE, hS, hE, restr, ignoreH, called, fixed, delivered, rows} *)
(*          what the optimiser received from Alignment.align_molecules,    *)
(*          decoded by the harness into atom identities by coordinates     *)
(* and TLC evaluates the property's predicates on the observed values.     *)
(***************************************************************************)
EXTENDS Restraints, Json, IOUtils, TLCExt
Traces == ndJsonDeserialize(IOEnv.TRACE_FILE)
VARIABLES tid, l
Ev == Traces[tid].ev
Clause(name, e) == IF e THEN TRUE ELSE PrintT(<<"FAIL", Traces[tid].tid, l, name>>) /\ FALSE
Note(name, e) == IF e THEN TRUE ELSE PrintT(<<"NOTE", Traces[tid].tid, l, name>>)
IsOp(o) == l <= Len(Ev) /\ Ev[l].op = o /\ l' = l + 1 /\ UNCHANGED tid
SetOf(s) == {s[i] : i \in 1..Len(s)}
PairSet(s) == {<<s[i][1], s[i][2]>> : i \in 1..Len(s)}
PairSeq(s) == [i \in 1..Len(s) |-> <<s[i][1], s[i][2]>>]
TraceInit == tid \in 1..Len(Traces) /\ l = 1

TrSplit == /\ IsOp("Split")
           /\ LET e == Ev[l] P == PairSet(e.pairs) IN
              /\ Clause("every_atom_has_a_partner", Covers(P, e.l1, e.l2, e.o1, e.o2))
              /\ Clause("indices_in_range", InRange(P, e.l1, e.l2, e.o1, e.o2))
              /\ Clause("atom_order_preserved", Monotone(P))
              /\ Note("differs_from_contiguous_grouping", P = GuessAlg(e.l1, e.l2, e.o1, e.o2))
TrProtein == /\ IsOp("Protein")
             /\ LET e == Ev[l] P == PairSet(e.pairs) IN
                /\ Clause("refused_iff_residue_counts_differ", (e.outcome = "error") <=> (Len(e.lens1) # Len(e.lens2)))
                /\ Clause("pairs_only_same_sequence_position_cover_and_order",
                          e.outcome = "pairs" => ProteinOK(P, e.lens1, e.lens2))
TrRoute == /\ IsOp("Route")
           /\ LET e == Ev[l]
                  c == [nS |-> e.nS, nE |-> e.nE, hS |-> SetOf(e.hS), hE |-> SetOf(e.hE), restr |-> PairSeq(e.restr), ignoreH |-> e.ignoreH] IN
              /\ Clause("optimiser_called_unless_one_atom_end", e.called = Called(c))
              /\ Clause("fixed_molecule_is_the_larger_ties_start", e.called => (e.fixed = (IF FixedIsStart(c) THEN "start" ELSE "end")))
              /\ Clause("fixed_rows_are_all_atoms_or_all_non_hydrogens", e.called => (e.rows = KeptRows(c)))
              /\ Clause("pairs_designate_the_users_atoms_in_order", e.called => (PairSeq(e.delivered) = AbsDelivered(c)))
              /\ Clause("mobile_rows_are_the_whole_mobile_molecule", e.called => e.mobileRowsOK)
TrException == IsOp("Exception") /\ Clause("no_exception", FALSE)
TraceNext == TrSplit \/ TrProtein \/ TrRoute \/ TrException
TraceSpec == TraceInit /\ [][TraceNext]_<<tid, l>>
Accepted == (l = Len(Ev) + 1) => PrintT(<<"ACC", Traces[tid].tid>>)
=============================================================================
