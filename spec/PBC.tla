-------------------------------- MODULE PBC --------------------------------
(***************************************************************************)
(* Periodic (minimum-image) distance, gaddlemaps Residue.distance_to, on   *)
(* integer lattices where everything is exact.                             *)
(*                                                                         *)
(* Abs (orthorhombic box L): d2 = min over image vectors n of |d + n L|^2. *)
(* Alg (any box B, rows = lattice vectors): s = d B^-1, s := s - round(s), *)
(* d' = s B.  TLC checks, for every pair of points and every box of the    *)
(* bounds: Alg = Abs for orthorhombic boxes, d2 <= plain distance,         *)
(* symmetry, invariance under every lattice shift (also triclinic).        *)
(* Separations at exactly half a box edge (two images tie) are excluded,   *)
(* as in the property.                                                     *)
(***************************************************************************)
EXTENDS Integers, Sequences, FiniteSets, TLC

CONSTANTS Boxes,     \* set of 3x3 integer matrices (rows = box vectors); orthorhombic = diagonal
          Points,    \* set of lattice points (second point)
          From,      \* set of lattice points (first point)
          Shifts     \* set of integer triples n (image / lattice shifts)

Dot(u, v) == u[1] * v[1] + u[2] * v[2] + u[3] * v[3]
Cross(u, v) == <<u[2] * v[3] - u[3] * v[2], u[3] * v[1] - u[1] * v[3], u[1] * v[2] - u[2] * v[1]>>
Sub(u, v) == <<u[1] - v[1], u[2] - v[2], u[3] - v[3]>>
Add(u, v) == <<u[1] + v[1], u[2] + v[2], u[3] + v[3]>>
N2(u) == Dot(u, u)
Det(B) == Dot(Cross(B[1], B[2]), B[3])
IsOrtho(B) == \A i, j \in 1..3 : i # j => B[i][j] = 0
(* row vector times matrix *)
VecMat(v, B) == <<v[1] * B[1][1] + v[2] * B[2][1] + v[3] * B[3][1],
                  v[1] * B[1][2] + v[2] * B[2][2] + v[3] * B[3][2],
                  v[1] * B[1][3] + v[2] * B[2][3] + v[3] * B[3][3]>>
(* adjugate: B^-1 = Adj(B) / Det(B); columns of Adj are cross products of rows *)
Adj(B) == LET c1 == Cross(B[2], B[3]) c2 == Cross(B[3], B[1]) c3 == Cross(B[1], B[2])
          IN <<<<c1[1], c2[1], c3[1]>>, <<c1[2], c2[2], c3[2]>>, <<c1[3], c2[3], c3[3]>>>>
Abs(x) == IF x < 0 THEN 0 - x ELSE x
(* round(num / den) to the nearest integer, den > 0, ties excluded by the callers *)
RoundDiv(num, den) == IF num >= 0 THEN (2 * num + den) \div (2 * den) ELSE 0 - ((2 * (0 - num) + den) \div (2 * den))
IsTie(num, den) == (2 * Abs(num)) % (2 * Abs(den)) = Abs(den)

(* fractional coordinates of d times Det *)
FracD(d, B) == LET s == VecMat(d, Adj(B)) dt == Det(B) IN IF dt > 0 THEN s ELSE <<0 - s[1], 0 - s[2], 0 - s[3]>>
HasTie(d, B) == \E k \in 1..3 : IsTie(FracD(d, B)[k], Abs(Det(B)))
(* Alg: wrapped vector (exact: s - round(s) is a multiple of 1/Det, times B gives integers) *)
Wrapped(d, B) == LET dt == Abs(Det(B))
                     s == FracD(d, B)
                     n == <<RoundDiv(s[1], dt), RoundDiv(s[2], dt), RoundDiv(s[3], dt)>>
                 IN Sub(d, VecMat(n, B))
AlgD2(p, q, B) == N2(Wrapped(Sub(q, p), B))
(* Abs for orthorhombic boxes: the true minimum over ALL image vectors; per component the
   minimum of (d + n L)^2 is attained for |n| <= |d| / L + 1 *)
MinComp(d, L) == LET k == Abs(d) \div L + 1
                     S == {(d + n * L) * (d + n * L) : n \in (0 - k)..k}
                 IN CHOOSE x \in S : \A y \in S : x <= y
MinImageD2(p, q, B) == LET d == Sub(q, p) IN MinComp(d[1], B[1][1]) + MinComp(d[2], B[2][2]) + MinComp(d[3], B[3][3])

VARIABLES phase, box, pp, qq, res
vars == <<phase, box, pp, qq, res>>
Init == /\ phase = "case" /\ box \in Boxes /\ pp \in From /\ qq \in Points /\ res = <<>>
        /\ ~HasTie(Sub(qq, pp), box)
Compute == /\ phase = "case" /\ phase' = "done" /\ UNCHANGED <<box, pp, qq>>
           /\ res' = [ortho |-> IsOrtho(box), d2 |-> AlgD2(pp, qq, box), plain2 |-> N2(Sub(qq, pp))]
Next == Compute
Spec == Init /\ [][Next]_vars

Done == phase = "done"
MinImage == (Done /\ IsOrtho(box)) => res.d2 = MinImageD2(pp, qq, box)
NotLonger == (Done /\ IsOrtho(box)) => res.d2 <= res.plain2
Symmetric == Done => AlgD2(qq, pp, box) = res.d2
ShiftInvariant == Done => \A n \in Shifts :
                     /\ AlgD2(pp, Add(qq, VecMat(n, box)), box) = res.d2
                     /\ AlgD2(Add(pp, VecMat(n, box)), qq, box) = res.d2
=============================================================================
