--------------------------- MODULE Trace_Recognise ---------------------------
(***************************************************************************)
(* Trace validation of the real System against the Abs layer of            *)
(* Recognise.tla on random larger files.  Events:                          *)
(*   AddTop{sp, ok, list}   list = <<sp, first residue, residues>> of the  *)
(*        molecules the System hands out after the call, decoded by the    *)
(*        harness from the atom numbers of the file it wrote itself;       *)
(*        names / coords = atom names equal the topology's, coordinates    *)
(*        equal the file's, for every molecule                             *)
(*   Access{len, composition, index, slices, iteration}  booleans: the     *)
(*        derived operations agree with the list just observed             *)
(***************************************************************************)
EXTENDS Recognise, Json, IOUtils, TLCExt
Traces == ndJsonDeserialize(IOEnv.TRACE_FILE)
VARIABLES tid, l
Ev == Traces[tid].ev
Clause(name, e) == IF e THEN TRUE ELSE PrintT(<<"FAIL", Traces[tid].tid, l, name>>) /\ FALSE
IsOp(o) == l <= Len(Ev) /\ Ev[l].op = o /\ l' = l + 1 /\ UNCHANGED tid
C == Traces[tid].cfg
TraceInit == /\ tid \in 1..Len(Traces) /\ l = 1
             /\ cfg = [pattern |-> C.pattern, mols |-> C.mols, order |-> <<>>, clones |-> {}]
             /\ pc = "load" /\ avail = <<>> /\ blocks = <<>> /\ loaded = {} /\ nload = 0 /\ obs = <<>>
ObsList(s) == [i \in 1..Len(s) |-> [sp |-> s[i][1], first |-> s[i][2], n |-> s[i][3]]]
TrAdd == /\ IsOp("AddTop")
         /\ LET s == Ev[l].sp
                okExp == HasInstance(cfg, s) /\ s \notin loaded
                L2 == IF okExp THEN loaded \cup {s} ELSE loaded IN
            /\ Clause("refused_iff_no_matching_run", Ev[l].ok = okExp)
            /\ Clause("exactly_the_instances_in_file_order", ObsList(Ev[l].list) = AbsObs(cfg, L2))
            /\ Clause("atom_names_match_topology", Ev[l].names)
            /\ Clause("coordinates_are_the_files", Ev[l].coords)
            /\ loaded' = L2
         /\ UNCHANGED <<cfg, pc, avail, blocks, nload, obs>>
TrAccess == /\ IsOp("Access")
            /\ Clause("len_agrees", Ev[l].len)
            /\ Clause("composition_agrees", Ev[l].composition)
            /\ Clause("indexing_agrees", Ev[l].index)
            /\ Clause("slicing_agrees", Ev[l].slices)
            /\ UNCHANGED rvars
TrException == IsOp("Exception") /\ Clause("no_exception", FALSE) /\ UNCHANGED rvars
TraceNext == TrAdd \/ TrAccess \/ TrException
TraceSpec == TraceInit /\ [][TraceNext]_<<rvars, tid, l>>
Accepted == (l = Len(Ev) + 1) => PrintT(<<"ACC", Traces[tid].tid>>)
=============================================================================
