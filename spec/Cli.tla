--------------------------------- MODULE Cli ---------------------------------
(***************************************************************************)
(* Command-line tool: automatic discovery of the files of each species     *)
(* (sort_molecules) and the selection of what is mapped (main).            *)
(*                                                                         *)
(* A candidate file is a record [sp, role].  Roles of real files:          *)
(*   "topCG"  start topology of species sp (matches the system)            *)
(*   "topAA"  end topology of sp (same molecule name, other atoms)         *)
(*   "coorAA" end coordinates of sp (loadable only with topAA of sp)       *)
(* Distractors: "topOther" (a species that is not in the system),          *)
(* "topClone" (same residue signature as a start topology, other atom      *)
(* names and its own molecule name), "coorCG" (start-resolution            *)
(* coordinates of sp), "sys" (the system file itself), "txt" (no parser).  *)
(* cfg.explicit = species given with --mol (their start topologies are     *)
(* loaded into the discovery System first; their own files may or may not  *)
(* be among the candidates under other paths), cfg.exclude = --exclude.    *)
(*                                                                         *)
(* Abs: a species is discovered iff it is in the system, not explicit, and *)
(* all three of its files are candidates; it then gets exactly them.       *)
(* Alg: the implementation's three passes over PYTHON SETS - the iteration *)
(* order is arbitrary (string hashing), so every pass picks any pending    *)
(* file next.  TLC explores every order: OrderIndependent.                 *)
(***************************************************************************)
EXTENDS Integers, Sequences, FiniteSets, TLC

CONSTANTS InSystem        \* species present in the system with a loadable start topology
VARIABLES cfg, phase, pend, used, consumed, cg, aa, co, crashed
cvars == <<cfg, phase, pend, used, consumed, cg, aa, co, crashed>>

None == [sp |-> "-", role |-> "none"]
IsTop(f) == f.role \in {"topCG", "topAA", "topOther", "topClone"}
IsCoord(f) == f.role \in {"coorAA", "coorAB", "coorCG", "sys"}
(* the molecule name written in a topology file *)
NameOf(f) == CASE f.role = "topClone" -> "clone" [] f.role = "topOther" -> "other" [] OTHER -> f.sp
(* "coorAB": ONE end-resolution coordinate file holding a molecule of A and a molecule of B (an ion pair):
   it loads with the end topology of either species *)
Shared == [sp |-> "AB", role |-> "coorAB"]
Loadable(c, t) == t.role = "topAA" /\ ((c.role = "coorAA" /\ c.sp = t.sp) \/ (c.role = "coorAB" /\ t.sp \in {"A", "B"}))

Tops(c) == {f \in c.cands : IsTop(f)}
Coords(c) == {f \in c.cands : IsCoord(f)}
Added == {s \in InSystem : cg[s] # None}

CInit(c) == /\ cfg = c /\ phase = "p1" /\ pend = Tops(c) /\ used = {}
            /\ consumed = c.explicit
            /\ cg = [s \in InSystem |-> None] /\ aa = [s \in InSystem |-> None] /\ co = [s \in InSystem |-> None]
            /\ crashed = FALSE

(* pass 1: try to recognise each topology in the system *)
P1(f) == /\ phase = "p1" /\ f \in pend /\ pend' = pend \ {f}
         /\ IF f.role = "topCG" /\ f.sp \in InSystem /\ f.sp \notin consumed
            THEN /\ cg' = [cg EXCEPT ![f.sp] = f] /\ consumed' = consumed \cup {f.sp} /\ used' = used \cup {f}
            ELSE UNCHANGED <<cg, consumed, used>>
         /\ UNCHANGED <<cfg, phase, aa, co, crashed>>
P1Done == /\ phase = "p1" /\ pend = {} /\ phase' = "p2" /\ pend' = Tops(cfg) \ used
          /\ UNCHANGED <<cfg, used, consumed, cg, aa, co, crashed>>
(* pass 2: an unused topology with the name of a recognised species is its end topology *)
P2(f) == /\ phase = "p2" /\ f \in pend /\ pend' = pend \ {f}
         /\ IF NameOf(f) \in Added /\ aa[NameOf(f)] = None
            THEN aa' = [aa EXCEPT ![NameOf(f)] = f]
            ELSE UNCHANGED aa
         /\ UNCHANGED <<cfg, phase, used, consumed, cg, co, crashed>>
P2Done == /\ phase = "p2" /\ pend = {} /\ phase' = "p3" /\ pend' = Coords(cfg)
          /\ UNCHANGED <<cfg, used, consumed, cg, aa, co, crashed>>
(* pass 3: a coordinate file that loads with the end topology of a species is its end coordinates;
   a recognised species WITHOUT end topology is simply skipped (it stays incomplete) *)
P3(f) == /\ phase = "p3" /\ f \in pend /\ pend' = pend \ {f}
         /\ co' = [s \in InSystem |-> IF s \in Added /\ co[s] = None /\ aa[s] # None /\ Loadable(f, aa[s]) THEN f ELSE co[s]]
         /\ UNCHANGED <<cfg, phase, used, consumed, cg, aa, crashed>>
P3Done == /\ phase = "p3" /\ pend = {} /\ phase' = "done" /\ pend' = {}
          /\ UNCHANGED <<cfg, used, consumed, cg, aa, co, crashed>>
CNext == (\E f \in pend : P1(f) \/ P2(f) \/ P3(f)) \/ P1Done \/ P2Done \/ P3Done

(* ---- Abs ---------------------------------------------------------------------------------- *)
Has(c, s, r) == [sp |-> s, role |-> r] \in c.cands
CoordsFor(c, s) == {f \in c.cands : Loadable(f, [sp |-> s, role |-> "topAA"])}
AbsDiscovered(c) == {s \in InSystem \ c.explicit : Has(c, s, "topCG") /\ Has(c, s, "topAA") /\ CoordsFor(c, s) # {}}
Complete == {s \in InSystem : cg[s] # None /\ aa[s] # None /\ co[s] # None}
(* what main() maps: the explicit species and the discovered ones that are not excluded *)
AbsMapped(c) == c.explicit \cup (AbsDiscovered(c) \ c.exclude)
OrderIndependent == phase = "done" =>
    /\ ~crashed
    /\ Complete = AbsDiscovered(cfg)
    /\ \A s \in Complete : cg[s] = [sp |-> s, role |-> "topCG"] /\ aa[s] = [sp |-> s, role |-> "topAA"] /\ co[s] \in CoordsFor(cfg, s)
NeverReAddsExplicit == \A s \in cfg.explicit : cg[s] = None
=============================================================================
