--------------------------- MODULE MC_Recognise ---------------------------
(* every file of <= MaxMols molecules over the species below (W is never loaded: solvent), every
   permutation of every subset of the loadable species as loading order (optionally with a species
   loaded twice) *)
EXTENDS Recognise
CONSTANTS MaxMols, Repeats, WithClone, MaxOrder
Loadable == IF WithClone THEN {"A", "B", "C", "D", "X"} ELSE {"A", "B", "C", "D"}      \* X: a clone of A (same residue name and size, other atom names); never in a file
AllSpecies == (Loadable \ {"X"}) \cup {"W"}
(* A single residue; B two different residues; C the same residue kind twice; D a second single-residue
   species; kinds are residue signatures (resname, atom count) *)
Pattern == [s \in AllSpecies \cup {"X"} |-> CASE s \in {"A", "X"} -> <<"a">> [] s = "B" -> <<"b", "c">> [] s = "C" -> <<"d", "d">>
                                   [] s = "D" -> <<"e">> [] OTHER -> <<"w">>]
Injective(f) == \A i, j \in DOMAIN f : f[i] = f[j] => i = j
Orders == {o \in UNION {[1..k -> Loadable] : k \in 0..MaxOrder} : Injective(o)}
          \cup (IF Repeats THEN {<<s, t, s>> : s \in Loadable, t \in Loadable} ELSE {})
MCInit == \E m \in UNION {[1..k -> AllSpecies] : k \in 1..MaxMols}, o \in Orders :
             RInit([pattern |-> Pattern, mols |-> m, order |-> o, clones |-> {"X"}])
MCNext == AddTop \/ Finish
MCSpec == MCInit /\ [][MCNext]_rvars
=============================================================================
