--------------------------- MODULE Trace_XMapGeom ---------------------------
(***************************************************************************)
(* Trace validation for the exchange-map geometry on arbitrary (floating   *)
(* point) inputs.  The discrete structure is decided here from the logged  *)
(* bond graph: which atoms are anchors, which are the two frame neighbours *)
(* (deps), whether the reported anchor is a nearest one (dense ranks of    *)
(* the target-reference distances).  The numeric clauses are relation      *)
(* booleans measured by the harness on the real outputs; the spec says     *)
(* which of them each action must establish.                               *)
(*                                                                         *)
(* One JSON line per trace: [tid, cfg |-> [n, bonds, nt, degenerate],      *)
(* ev |-> <<Build, CallSame, CallRigid*, CallDeformed*>>]                  *)
(***************************************************************************)
EXTENDS XMapGeom, Json, IOUtils, TLCExt

Traces == ndJsonDeserialize(IOEnv.TRACE_FILE)
NoPlacements(n) == {}
NoPerp(e) == {}
NoTargets == <<>>

VARIABLES tid, l, equiv
tvars == <<vars, tid, l, equiv>>

Ev == Traces[tid].ev
Cfg == Traces[tid].cfg
(* clauses that belong to a sibling property of the same engine are not evaluated by this check (they would
   otherwise mask a later clause of this property on the same trace); the sibling check evaluates them *)
CONSTANT SkipClauses
Clause(name, e) == IF name \in SkipClauses \/ e THEN TRUE ELSE PrintT(<<"FAIL", Traces[tid].tid, l, name>>) /\ FALSE
IsOp(o) == l <= Len(Ev) /\ Ev[l].op = o /\ l' = l + 1 /\ UNCHANGED <<tid, vars>>

TraceInit == /\ tid \in 1..Len(Traces) /\ l = 1 /\ equiv = <<>>
             /\ phase = "trace"
             /\ g = [n |-> Traces[tid].cfg.n,
                     bonds |-> {{Traces[tid].cfg.bonds[i][1], Traces[tid].cfg.bonds[i][2]} :
                                   i \in 1..Len(Traces[tid].cfg.bonds)}]
             /\ ref = <<>> /\ res = <<>>

NT == Cfg.nt
Degenerate(a) == a \in {Cfg.degenerate[i] : i \in 1..Len(Cfg.degenerate)}
Deps(t) == IF g.n <= 2 THEN {1} ELSE {equiv[t], N1of(equiv[t]), N2of(equiv[t])}

(* Build: the reported anchor of every target atom has >= 2 bonds and is a nearest such atom *)
TrBuild == /\ IsOp("Build")
           /\ equiv' = Ev[l].equiv
           /\ Clause("anchor_has_two_bonds", \A t \in 1..NT : Ev[l].equiv[t] \in Anchors)
           /\ Clause("anchor_is_nearest",
                     \A t \in 1..NT : \A b \in Anchors : Ev[l].rk[t][Ev[l].equiv[t]] <= Ev[l].rk[t][b])

(* map(ref): every target atom at a + s (p - a) for its anchor *)
TrCallSame == /\ IsOp("CallSame") /\ UNCHANGED equiv
              /\ Clause("finite", Ev[l].finite)
              /\ Clause("law", g.n >= 3 => \A t \in 1..NT : Ev[l].law[t])

(* map(g ref) vs g map(ref): equality for generic anchors, axis invariants where an axis is free,
   the distance only for a single-atom reference *)
TrCallRigid == /\ IsOp("CallRigid") /\ UNCHANGED equiv
               /\ Clause("finite", Ev[l].finite)
               /\ Clause("equivariant",
                         \A t \in 1..NT : (g.n >= 3 /\ ~Degenerate(equiv[t])) => Ev[l].eq[t])
               /\ Clause("axis_invariant",
                         \A t \in 1..NT : (g.n = 2 \/ (g.n >= 3 /\ Degenerate(equiv[t]))) =>
                               (Ev[l].dist[t] /\ Ev[l].axial[t] /\ Ev[l].radial[t]))
               /\ Clause("dist_only", g.n = 1 => \A t \in 1..NT : Ev[l].dist[t])

(* arbitrary conformation: scaled distances; locality w.r.t. every displaced reference atom *)
TrCallDeformed == /\ IsOp("CallDeformed") /\ UNCHANGED equiv
                  /\ Clause("finite", Ev[l].finite)
                  /\ Clause("scaled_distance", \A t \in 1..NT : Ev[l].dist[t])
                  /\ Clause("mutual_distance", \A t \in 1..NT : Ev[l].mutual[t])
TrDisplace == /\ IsOp("Displace") /\ UNCHANGED equiv
              /\ Clause("local", \A t \in 1..NT : (Ev[l].atom \notin Deps(t)) => Ev[l].unchanged[t])

TraceNext == TrBuild \/ TrCallSame \/ TrCallRigid \/ TrCallDeformed \/ TrDisplace
TraceSpec == TraceInit /\ [][TraceNext]_tvars
Accepted == (l = Len(Ev) + 1) => PrintT(<<"ACC", Traces[tid].tid>>)
=============================================================================
