--------------------------- MODULE Trace_Alignment ---------------------------
(***************************************************************************)
(* Trace validation of real Alignment.align_molecules runs against         *)
(* Alignment.tla.  Events (one per specification action; levels are        *)
(* measured by harness/project.py against the conformations the caller     *)
(* supplied: 0 identical, 1 translated, 2 rigid, 3 bonds kept, 4 other):   *)
(*   Construct{copyS, copyE}   MoveStart{lvAs, centred}   Roles{mobile}    *)
(*   Early | Enter{fixedRows, lvAe}   Step{k, acc, lvl}*   WriteBack{who}  *)
(*   Final{lv = <<cs, ce, as, ae>>, names, finite}   Repeat{same}          *)
(* The specification decides which molecule must be the mobile one, which  *)
(* relation each step may establish and what Promise() demands at the end. *)
(***************************************************************************)
EXTENDS Alignment, Json, IOUtils, TLCExt
Traces == ndJsonDeserialize(IOEnv.TRACE_FILE)
VARIABLES tid, l
Ev == Traces[tid].ev
Clause(name, e) == IF e THEN TRUE ELSE PrintT(<<"FAIL", Traces[tid].tid, l, name>>) /\ FALSE
IsOp(o) == l <= Len(Ev) /\ Ev[l].op = o /\ l' = l + 1 /\ UNCHANGED tid
SetOf(s) == {s[i] : i \in 1..Len(s)}
C == Traces[tid].cfg
TraceInit == /\ tid \in 1..Len(Traces) /\ l = 1
             /\ AInit([nS |-> C.nS, nE |-> C.nE, types |-> SetOf(C.types), tree |-> C.tree])

TrConstruct == /\ IsOp("Construct") /\ Clause("order_Construct", pc = "new")
               /\ Clause("alignment_works_on_copies", Ev[l].copyS /\ Ev[l].copyE)
               /\ Construct
TrMoveStart == /\ IsOp("MoveStart") /\ Clause("order_MoveStart", pc = "ready")
               /\ Clause("start_only_translated", Ev[l].lvAs <= 1)
               /\ Clause("start_centred_on_end", Ev[l].centred)
               /\ MoveStart
TrRoles == /\ IsOp("Roles") /\ Clause("order_Roles", pc = "moved")
           /\ Clause("molecule_with_fewer_atoms_is_mobile", Ev[l].mobile \in {MobileOf(cfg), "unobserved"})
           /\ SelectRoles
TrEarly == /\ IsOp("Early") /\ Clause("order_Early", pc = "roles")
           /\ Clause("optimiser_skipped_only_for_one_atom_end", cfg.nE = 1)
           /\ Early
TrEnter == /\ IsOp("Enter") /\ Clause("order_Enter", pc = "roles")
           /\ Clause("optimiser_runs_unless_one_atom_end", cfg.nE # 1)
           /\ Clause("fixed_rows_are_the_larger_molecule", Ev[l].fixedRows = (IF mobile = "as" THEN "ae" ELSE "as"))
           /\ Clause("end_untouched_before_optimisation", Ev[l].lvAe = 0)
           /\ Enter
TrStep == /\ IsOp("Step") /\ Clause("order_Step", pc = "mc")
          /\ Clause("kind_enabled", Ev[l].k \in cfg.types)
          /\ Clause("accepted_move_is_structure_preserving", Ev[l].acc => Ev[l].lvl <= StepLevel(cfg, Ev[l].k))
          /\ Step(Ev[l].k, Ev[l].acc)
TrWriteBack == /\ IsOp("WriteBack") /\ Clause("order_WriteBack", pc = "mc")
               /\ Clause("result_written_to_mobile_only", Ev[l].who \in {mobile, "none"})
               /\ WriteBack
Lv(o) == CASE o = "cs" -> Ev[l].lv[1] [] o = "ce" -> Ev[l].lv[2] [] o = "as" -> Ev[l].lv[3] [] OTHER -> Ev[l].lv[4]
TrFinal == /\ IsOp("Final") /\ Clause("order_Final", pc = "done")
           /\ Clause("caller_molecules_not_modified", Lv("cs") = 0 /\ Lv("ce") = 0)
           /\ Clause("larger_molecule_only_translated", LET big == IF MobileOf(cfg) = "as" THEN "ae" ELSE "as" IN
                                                        Lv(big) <= Promise(cfg, big))
           /\ Clause("mobile_molecule_keeps_structure", Lv(MobileOf(cfg)) <= Promise(cfg, MobileOf(cfg)))
           /\ Clause("names_and_order_unchanged", Ev[l].names)
           /\ Clause("finite", Ev[l].finite)
           /\ UNCHANGED avars
TrRepeat == /\ IsOp("Repeat") /\ Clause("order_Repeat", pc = "done")
            /\ Clause("deterministic_given_seed", Ev[l].same)
            /\ UNCHANGED avars
TrException == IsOp("Exception") /\ Clause("no_exception", FALSE) /\ UNCHANGED avars
TraceNext == TrConstruct \/ TrMoveStart \/ TrRoles \/ TrEarly \/ TrEnter \/ TrStep \/ TrWriteBack \/ TrFinal \/ TrRepeat \/ TrException
TraceSpec == TraceInit /\ [][TraceNext]_<<avars, tid, l>>
Accepted == (l = Len(Ev) + 1 /\ pc = "done") => PrintT(<<"ACC", Traces[tid].tid>>)
=============================================================================
