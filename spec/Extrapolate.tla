----------------------------- MODULE Extrapolate -----------------------------
(***************************************************************************)
(* Manager: attaching end molecules, building the exchange maps and        *)
(* extrapolating the whole system to a new coordinate file.                *)
(*                                                                         *)
(* cfg.loaded : species whose start topology was loaded                    *)
(* cfg.tgt    : species -> number of atoms of its end (target) molecule    *)
(* cfg.mols   : the input file as the sequence of species of its molecules *)
(*              (species not in cfg.loaded: solvent, never mapped)         *)
(* ends / maps: species with an end molecule attached / with a map built   *)
(* The writer is a single pass over the molecules with a running atom      *)
(* counter: Visit writes the mapped molecule of a complete species, Skip   *)
(* passes over everything else, Close ends the file.  `written` is the     *)
(* abstract file: one entry [src, first, n] per written molecule.          *)
(***************************************************************************)
EXTENDS Integers, Sequences, FiniteSets, TLC

VARIABLES cfg, ends, maps, phase, cursor, natoms, written, out, outcome
evars == <<cfg, ends, maps, phase, cursor, natoms, written, out, outcome>>

EInit(c) == /\ cfg = c /\ ends = {} /\ maps = {} /\ phase = "setup" /\ cursor = 0 /\ natoms = 0
            /\ written = <<>> /\ out = "absent" /\ outcome = "none"

AddEnd(s) == /\ phase = "setup" /\ s \in cfg.loaded
             /\ ends' = ends \cup {s} /\ outcome' = "none"
             /\ UNCHANGED <<cfg, maps, phase, cursor, natoms, written, out>>
(* a map is built for every species that is complete at this moment *)
CalcMaps == /\ phase = "setup"
            /\ maps' = maps \cup ends /\ outcome' = "none"
            /\ UNCHANGED <<cfg, ends, phase, cursor, natoms, written, out>>
(* looking at the overlap of a complete species (Alignment.write_comparative_gro) is an observation: it writes its own
   file and changes nothing of the manager *)
Compare(s) == /\ phase = "setup" /\ s \in ends
              /\ UNCHANGED <<cfg, ends, maps, phase, cursor, natoms, written, out, outcome>>
Ready == ends # {} /\ ends \subseteq maps
(* pre-flight checks fail: an error, and no file is created *)
ExtrapolateErr == /\ phase = "setup" /\ ~Ready
                  /\ outcome' = IF ends = {} THEN "err_nothing_to_map" ELSE "err_maps_missing"
                  /\ out' = "absent"            \* this call creates no file
                  /\ UNCHANGED <<cfg, ends, maps, phase, cursor, natoms, written>>
Open == /\ phase = "setup" /\ Ready
        /\ phase' = "writing" /\ cursor' = 1 /\ natoms' = 0 /\ written' = <<>> /\ out' = "open" /\ outcome' = "ok"
        /\ UNCHANGED <<cfg, ends, maps>>
Visit == /\ phase = "writing" /\ cursor <= Len(cfg.mols) /\ cfg.mols[cursor] \in ends
         /\ written' = Append(written, [src |-> cursor, first |-> natoms + 1, n |-> cfg.tgt[cfg.mols[cursor]]])
         /\ natoms' = natoms + cfg.tgt[cfg.mols[cursor]]
         /\ cursor' = cursor + 1
         /\ UNCHANGED <<cfg, ends, maps, phase, out, outcome>>
Skip == /\ phase = "writing" /\ cursor <= Len(cfg.mols) /\ cfg.mols[cursor] \notin ends
        /\ cursor' = cursor + 1
        /\ UNCHANGED <<cfg, ends, maps, phase, natoms, written, out, outcome>>
(* the manager stays usable: after the file is closed further ends / maps / extrapolations may follow *)
Close == /\ phase = "writing" /\ cursor = Len(cfg.mols) + 1
         /\ phase' = "setup" /\ out' = "closed"
         /\ UNCHANGED <<cfg, ends, maps, cursor, natoms, written, outcome>>

(* ---- what the property demands of the file, from the input alone ---------------------------- *)
RECURSIVE AbsFile(_, _, _, _)
AbsFile(c, E, k, n) == IF k > Len(c.mols) THEN <<>>
                       ELSE IF c.mols[k] \in E
                            THEN <<[src |-> k, first |-> n + 1, n |-> c.tgt[c.mols[k]]]>> \o AbsFile(c, E, k + 1, n + c.tgt[c.mols[k]])
                            ELSE AbsFile(c, E, k + 1, n)
RECURSIVE SumN(_)
SumN(w) == IF Len(w) = 0 THEN 0 ELSE w[1].n + SumN(Tail(w))
Closed == phase = "setup" /\ out = "closed" /\ outcome = "ok"
FileIsAbs == Closed => /\ written = AbsFile(cfg, ends, 1, 0)
                                 /\ natoms = SumN(written)
PrefixIsAbs == phase = "writing" => \E m \in 0..Len(AbsFile(cfg, ends, 1, 0)) : written = SubSeq(AbsFile(cfg, ends, 1, 0), 1, m)
NoFileOnError == outcome \in {"err_nothing_to_map", "err_maps_missing"} => out = "absent"
ErrorIffNotReady == [][(outcome' # outcome /\ outcome' \in {"err_nothing_to_map", "err_maps_missing"}) => ~Ready]_evars
=============================================================================
