#!/venv/bin/python
"""Mutation self-check (DESIGN Appendix B step 4): small textual breaking changes, each applied to a
scratch worktree of /repo (never to /repo itself); `./check <ID> --tier quick` must exit 1 there.

  selfmut.py list [ID]
  selfmut.py run [ID|name ...] [--tests]     --tests also runs the 74 baseline tests on the mutant

Results are written to out/selfmut.json (not evidence; a development aid recorded in DESIGN.md)."""
import json
import os
import shutil
import subprocess
import sys
from concurrent.futures import ThreadPoolExecutor

VERIF = os.path.dirname(os.path.dirname(os.path.abspath(__file__)))
BK = 'gaddlemaps/_backend.py'
AL = 'gaddlemaps/_alignment.py'
MG = 'gaddlemaps/_manager.py'
XM = 'gaddlemaps/_exchage_map.py'
SY = 'gaddlemaps/components/_system.py'
CO = 'gaddlemaps/components/_components.py'
CLI = 'gaddlemaps/_cli.py'
TM = 'gaddlemaps/_transform_molecule.py'
AUX = 'gaddlemaps/_auxilliary.py'
RES = 'gaddlemaps/components/_residue.py'
PAR = 'gaddlemaps/parsers/__init__.py'
ITP = 'gaddlemaps/parsers/_itp_parse.py'
TOP = 'gaddlemaps/parsers/_top_parsers.py'
CT = 'gaddlemaps/components/_components_top.py'

# name: (property, file, old, new)
MUTANTS = {
 'X04-match-ignores-resname': ('X04', CO, 'if atom.resname != at_top.resname or atom.name != at_top.name:', 'if atom.name != at_top.name:'),
 'X04-match-length-unchecked': ('X04', CO, 'if len(molecule_top) != sum(len(res) for res in residues):', 'if len(molecule_top) > sum(len(res) for res in residues):'),
 'X04-eq-ignores-name': ('X04', CO, '            molecule.name == self.name and\n', ''),
 'X04-eq-ignores-top-resid': ('X04', CO, '                         self.index == atom.index and\n                         self.top_resid == atom.top_resid)', '                         self.index == atom.index)'),
 'X04-table-one-direction': ('X04', CO, '                bond_info[index].append((index_to, distance))', '                if index_to > index:\n                    bond_info[index].append((index_to, distance))'),
 'X03-add-shares-atoms': ('X03', RES, 'return Residue(self.atoms + other.atoms)', 'return Residue(self._atoms_gro + other.atoms)'),
 'X03-add-atom-not-copied': ('X03', RES, 'return Residue(self.atoms + [other.copy()])', 'return Residue(self.atoms + [other])'),
 'X03-copy-shares': ('X03', RES, '        return Residue(self.atoms)\n', '        return Residue(self._atoms_gro)\n'),
 'X03-resname-cut-4': ('X03', RES, 'new_resname = new_resname[:5]', 'new_resname = new_resname[:4]'),
 'X03-ids-length-unchecked': ('X03', RES, "if len(self) != len(new_ids):", "if len(self) > len(new_ids):"),
 'C01-projection-not-rotated': ('C01', XM, "        proyect = np.dot(self._refsystems[atomref][0], proyect)\n", "        proyect = np.dot(np.eye(3), proyect)\n"),
 'C01-nearest-by-x-only': ('C01', XM, 'distances = [(euclidean(targetatom.position, ref_pos(index)), index)', 'distances = [(abs(targetatom.position[0] - ref_pos(index)[0]), index)'),
 'C01-scale-on-restore-missing': ('C01', XM, 'return proyect * self.scale_factor', 'return proyect * (self.scale_factor if self.scale_factor else 1.0)'),
 'C02-restore-with-transposed-frame': ('C02', XM, 'return center + np.dot(proyection, vectores)', 'return center + np.dot(vectores, proyection)'),
 'C02-one-atom-frame-fixed-EQUIVALENT': ('C02', XM, 'rand_pos = [np.random.rand(3) + pos[0] for _ in range(3-n_atoms)]', 'rand_pos = [np.ones(3) * (k + 1) for k in range(3-n_atoms)]'),
 'C03-second-neighbour-any': ('C03', XM, 'ind1, ind2 = atom.closest_atoms()', 'ind1, ind2 = sorted(atom.bonds)[0], sorted(atom.bonds)[-1]'),
 'C03-origin-at-neighbour': ('C03', AUX, '    return (vec1, vec2, vec3), pos0', '    return (vec1, vec2, vec3), pos1'),
 'C15-bonds-directed': ('C15', CT, '        atom.bonds.add(hash(self))\n', '        pass\n'),
 'C15-first-atom-only-connected': ('C15', 'gaddlemaps/components/__init__.py', 'return len(connected_atoms) == len(atoms)', 'return len(connected_atoms) >= len(atoms) - 1'),
 'C18-move-to-about-first-atom': ('C18', RES, 'displacement = new_position - self.geometric_center', 'displacement = new_position - self.atoms_positions[0]'),
 'C18-move-in-place-on-shared-array': ('C18', RES, 'self.atoms_positions = self.atoms_positions + displacement', 'pos = self.atoms_positions\n        pos += displacement\n        self.atoms_positions = pos'),
 'C19-no-wrap-when-inside': ('C19', RES, 'vect -= np.round(vect)', 'vect -= np.round(vect) * (np.abs(vect) > 1)'),
 'C09-judge-against-min': ('C09', BK, '_accept_metropolis(chi2, chi2_new)', '_accept_metropolis(chi2_min, chi2_new)'),
 'C09-newmin-on-tie': ('C09', BK, 'if chi2 < chi2_min:', 'if chi2 <= chi2_min:'),
 'C09-reset-on-every-accept': ('C09', BK, 'if chi2 < chi2_min:', 'if True:'),
 'C09-one-step-more': ('C09', BK, 'while counter < n_steps:', 'while counter <= n_steps:'),
 'C09-one-step-less': ('C09', BK, 'while counter < n_steps:', 'while counter < n_steps - 1:'),
 'C09-equal-not-accepted': ('C09', BK, 'condition = factor >= 1', 'condition = factor > 1'),
 'C09-acceptance-factor': ('C09', BK, 'acceptance: float = 0.01', 'acceptance: float = 0.02'),
 'C09-chi2-not-updated': ('C09', BK, '            chi2 = chi2_new\n', '            pass\n'),
 'C09-rotation-about-origin': ('C09', BK, 'test = _dot(mol2_positions-mol2_com, rot_matrix) + mol2_com',
                               'test = _dot(mol2_positions, rot_matrix)'),
 'C09-kind-outside-types': ('C09', BK, 'change = _choice(sim_type)', 'change = _choice(sim_type) if counter % 7 else 0'),
 'C09-counter-before-continue': ('C09', BK, '                counter = 0\n                continue', '                counter = 0'),
 'C06-writeback-wrong-molecule': ('C06', AL, '''        if len(self.start) < len(self.end):
            self.start.atoms_positions = mol2_positions
        else:
            self.end.atoms_positions = mol2_positions''', '''        if len(self.start) < len(self.end):
            self.end.atoms_positions = mol2_positions
        else:
            self.start.atoms_positions = mol2_positions'''),
 'C06-end-moved-to-start': ('C06', AL, 'self.start.move_to(self.end.geometric_center)', 'self.end.move_to(self.start.geometric_center)'),
 'C06-setter-no-copy': ('C06', AL, '            self._start = molecule.copy()', '            self._start = molecule'),
 'C06-tie-start-mobile': ('C06', AL, 'if len(self.start) < len(self.end):', 'if len(self.start) <= len(self.end):', 'all'),
 'C06-bond-drift': ('C06', TM, '(modulo - bond) * unit', '(modulo - bond * (1 + 1e-8)) * unit'),
 'C06-rotation-inversion': ('C06', BK, 'test = _dot(mol2_positions-mol2_com, rot_matrix) + mol2_com', 'test = -_dot(mol2_positions-mol2_com, rot_matrix) + mol2_com'),
 'C06-unseeded-randomness': ('C06', BK, 'desplazamiento = _rand_norm(0, displacement_module, 3)', 'desplazamiento = np.random.default_rng().normal(0, displacement_module, 3)'),
 'C10-no-reversal': ('C10', AL, 'restrictions = [i[::-1] for i in restrictions]', 'restrictions = list(restrictions)'),
 'C10-rebase-mobile-index': ('C10', AL, 'new_restrictions.append((index_1map[index_1], index_2))', 'new_restrictions.append((index_1map[index_1], index_1map.get(index_2, index_2)))'),
 'C10-offbyone-index-map': ('C10', AL, 'index_1map[index] = len(positions) - 1', 'index_1map[index] = len(positions)'),
 'C10-h-restraint-kept': ('C10', AL, '        if index_1 in index_1map:\n            new_restrictions.append((index_1map[index_1], index_2))',
                          '        new_restrictions.append((index_1map.get(index_1, 0), index_2))'),
 'C10-split-overlap': ('C10', AL, '(i+1)*length // wanted_parts]', '(i+1)*length // wanted_parts + 1]'),
 'C10-wrong-offset': ('C10', AL, 'offset2 += len(mol_res2)', 'offset2 += len(mol_res1)'),
 'C10-ignoreH-option-lost': ('C10', MG, '                new_ign[name] = val', '                new_ign[name] = True'),
 'C10-unknown-name-accepted': ('C10', MG, "            if name not in complete_correspondence:\n                raise KeyError('There are no molecules with names {} in the '", "            if False:\n                raise KeyError('There are no molecules with names {} in the '"),
 'C10-ignoreH-crosstalk': ('C10', MG, 'ignor = ignore_hydrogens[name]', 'ignor = all(ignore_hydrogens.values())'),
 'C10-deform-too-long-accepted': ('C10', MG, 'if not 1 <= len(deformation) <= 3:', 'if not 1 <= len(deformation) <= 4:'),
 'C10-validate-wrong-molecule': ('C10', MG, 'ind2 = mol_end[tup[1]]', 'ind2 = mol_start[tup[1]]'),
 'C11-no-sort': ('C11', SY, 'self._molecules_ordered.sort(key=lambda x: x[1])', 'self._molecules_ordered.sort(key=lambda x: x[0])'),
 'C11-block-not-reset': ('C11', SY, '                new_block = True\n                start_index += 1', '                start_index += 1'),
 # equivalent inside the property's domain (disjoint residue signatures): not expected to be caught
 'C11-prefix-match-EQUIVALENT': ('C11', SY, 'if (av_gro[start_index:start_index+l_index_mol] == index_mol_gro).all():', 'if av_gro[start_index] == index_mol_gro[0]:'),
 'C11-minus-one-special-case': ('C11', SY, '                if index == -1:', '                if False:'),
 'C11-template-coordinates': ('C11', SY, '''            residues = self.system_gro[gro_start:gro_end]  # type: ignore
            mol = self.different_molecules[index].copy(residues)''', '''            residues = self.system_gro[gro_start:gro_end]  # type: ignore
            mol = self.different_molecules[index].copy()'''),
 'C11-skip-after-match': ('C11', SY, '                start_index += l_index_mol\n', '                start_index += l_index_mol + 1\n'),
 'C11-first-occurrence-only-unconsumed': ('C11', SY, '                av_gro[start_index:start_index+l_index_mol] = -1\n', ''),
 'C11-len-counts-blocks': ('C11', SY, 'return sum(elem[2] for elem in self._molecules_ordered)', 'return len(self._molecules_ordered)'),
 'C04-result-aliases-target': ('C04', XM, 'new_mol = self._targetmolecule.copy()', 'new_mol = self._targetmolecule'),
 'C04-species-check-dropped': ('C04', XM, 'if self._refmolecule != refmolecule:', 'if False:'),
 'C04-frames-cached-per-object': ('C04', XM, '        self._calculate_refsystems(refmolecule)\n        new_mol = self._restore_molecule()',
                                  '        if refmolecule is not getattr(self, "_last", None):\n            self._calculate_refsystems(refmolecule)\n        self._last = refmolecule\n        new_mol = self._restore_molecule()'),
 'C04-resids-not-copied': ('C04', XM, '        new_mol.resids = refmolecule.resids\n', ''),
 'C04-map-remade-per-call': ('C04', XM, '        self._calculate_refsystems(refmolecule)\n        new_mol = self._restore_molecule()',
                             '        self._calculate_refsystems(refmolecule)\n        self._make_map()\n        new_mol = self._restore_molecule()'),
 'C04-hidden-randomness': ('C04', XM, '        self._calculate_refsystems(refmolecule)\n        new_mol = self._restore_molecule()',
                           '        self._calculate_refsystems(refmolecule)\n        np.random.rand()\n        new_mol = self._restore_molecule()'),
 'C05-counter-reset-per-molecule': ('C05', MG, '                new_mol = complete_correspondence[name].exchange_map(mol)  # type: ignore\n', '                new_mol = complete_correspondence[name].exchange_map(mol)  # type: ignore\n                atom_index = 1\n'),
 'C05-box-not-forwarded': ('C05', MG, '            fgro.box_matrix = self.system.system_gro.box_matrix\n', ''),
 'C05-title-not-forwarded': ('C05', MG, '            fgro.comment = self.system.system_gro.comment_line\n', ''),
 'C05-grouped-by-species': ('C05', MG, '            for mol in self.system:\n                name = mol.name', '            for mol in sorted(self.system, key=lambda m: m.name):\n                name = mol.name'),
 'C05-atom-number-gap': ('C05', MG, '                    atom_index += 1\n', '                    atom_index += 1 if atom_index != 7 else 2\n'),
 'C05-maps-check-skipped': ('C05', MG, '            if align.exchange_map is None:', '            if False:'),
 'C05-file-opened-before-checks': ('C05', MG, "        complete_correspondence = self.complete_correspondence\n        # Check if there is something to map", "        complete_correspondence = self.complete_correspondence\n        open(fgro_out, 'w').close()\n        # Check if there is something to map"),
 'C05-last-molecule-dropped': ('C05', MG, '            for mol in self.system:\n                name = mol.name', '            for mol in list(self.system)[:-1] or list(self.system):\n                name = mol.name'),
 'C05-resids-from-template': ('C05', XM, '        new_mol.resids = refmolecule.resids\n', ''),
 'C05-incomplete-species-written': ('C05', MG, '                if name not in complete_correspondence:\n                    continue', '                if name not in complete_correspondence:\n                    for atom in mol:\n                        line = atom.gro_line()\n                        line[3] = atom_index\n                        atom_index += 1\n                        fgro.writeline(line)\n                    continue'),
 'C20-known-not-preloaded': ('C20', CLI, 'system = System(reference_coordinates, *[files[0] for files in known_files])', 'system = System(reference_coordinates)'),
 'C20-exclude-ignored': ('C20', CLI, '                if (args.exclude is not None) and (molecule_name in args.exclude):', '                if False:'),
 'C20-scale-not-forwarded': ('C20', CLI, 'manager.calculate_exchange_maps(scale_factor=scale)', 'manager.calculate_exchange_maps()'),
 'C20-outfile-ignored': ('C20', CLI, '        out_path = outfile\n', '        out_path = os.path.join(folder, f"mapped_{basename}")\n'),
 'C20-default-name-in-cwd': ('C20', CLI, 'out_path = os.path.join(folder, f"mapped_{basename}")', 'out_path = f"mapped_{basename}"'),
 'C20-first-coordinate-wins': ('C20', CLI, '''                try:
                    Molecule.from_files(coordinate_file, molecule_info["top_AA"])
                except OSError:
                    pass
                else:
                    added_molecues[molecule_name]["coor_AA"] = coordinate_file''', '''                added_molecues[molecule_name]["coor_AA"] = coordinate_file'''),
 'C20-aa-top-by-order': ('C20', CLI, '        if (filename not in used_files) and (molecule.name in added_molecues):', '        if (filename not in used_files) and added_molecues:\n            molecule = type("M", (), {"name": sorted(added_molecues)[0]})()\n            if "top_AA" in added_molecues[molecule.name]:\n                continue'),
 'C20-end-swapped-between-species': ('C20', CLI, '        end_molecules[name] = Molecule.from_files(specie[1], specie[2])', '        end_molecules[name] = Molecule.from_files(species[0][1], species[0][2])'),
 'C20-unseeded': ('C20', CLI, '    manager.align_molecules()\n', '    import numpy as _np\n    _np.random.seed()\n    manager.align_molecules()\n'),
 'C01-anchor-with-one-bond': ('C01', XM, 'if len(atom.bonds) >= 2:', 'if len(atom.bonds) >= 1:'),
 'C01-farthest-anchor': ('C01', XM, 'return sorted(distances)[0][1]', 'return sorted(distances)[-1][1]'),
 'C01-scale-applied-twice': ('C01', XM, 'return proyect * self.scale_factor', 'return proyect * self.scale_factor ** 2'),
 'C01-frame-not-normalised': ('C01', AUX, '    else:\n        vec3 /= np.linalg.norm(vec3)', '    else:\n        vec3 = vec3 * 1.0'),
 'C02-frames-not-recomputed': ('C02', XM, '        self._calculate_refsystems(refmolecule)\n        new_mol = self._restore_molecule()', '        new_mol = self._restore_molecule()'),
 'C02-absolute-vectors': ('C02', AUX, '    aux = pos1-pos0', '    aux = pos1'),
 'C02-two-atom-axis-random': ('C02', XM, 'positions = np.array([pos[0]] + rand_pos + list(pos[1:]))', 'positions = np.array(list(pos) + rand_pos)'),
 'C03-neighbours-highest-index': ('C03', CT, 'return sorted(self.bonds)[:natoms]', 'return sorted(self.bonds)[-natoms:]'),
 'C03-restore-about-first-atom': ('C03', XM, '        center = self._refsystems[atomref][1]\n', '        center = self._refsystems[min(self._refsystems)][1]\n'),
 'C07-restored-twice': ('C07', TM, '                wait_queue.remove(bonds[0])\n', ''),
 'C07-input-modified': ('C07', TM, 'atoms_pos = np.copy(atoms_pos)', 'atoms_pos = np.asarray(atoms_pos)'),
 'C07-wrong-bond-length': ('C07', TM, 'queue.append((ind2, bonds[0], bonds[1]))', 'queue.append((ind2, bonds[0], bonds_info[ind2][0][1]))'),
 'C07-parent-moved': ('C07', TM, 'atoms_pos[ind2] = atoms_pos[ind2] + (modulo - bond) * unit', 'atoms_pos[ind1] = atoms_pos[ind1] - (modulo - bond) * unit'),
 'C07-fifo-order-EQUIVALENT': ('C07', TM, 'ind1, ind2, bond = queue.pop()', 'ind1, ind2, bond = queue.popleft()'),
 'C08-penalty-ignores-restrained': ('C08', BK, 'len(self.set_restriction2.union(distances.argmin(axis=1))))', 'len(set(distances.argmin(axis=1))))'),
 'C08-only-path-when-some': ('C08', BK, 'if not mol1_not_restriction_mask.any():', 'if not mol1_not_restriction_mask.all():'),
 'C08-min-over-wrong-axis': ('C08', BK, '        chi2 = np.sum(distances.min(axis=1))\n        n_cg_far = len(mol2)', '        chi2 = np.sum(distances.min(axis=0))\n        n_cg_far = len(mol2)'),
 'C08-duplicates-collapsed': ('C08', BK, '            self._mol1_restriction = mol1[restriction1]', '            restriction1, self.restriction2 = np.unique(self.restrictions, axis=0).T\n            self._mol1_restriction = mol1[restriction1]'),
 'C12-offset-from-first-kind': ('C12', SY, '            len_mol = len(self.different_molecules[index])\n            for _ in range(ammount):', '            len_mol = len(self.different_molecules[0])\n            for _ in range(ammount):'),
 'C12-residues-merged-by-name': ('C12', SY, 'if (atom.resid, atom.resname) == prev_atom_residname:', 'if atom.resname == prev_atom_residname[1]:'),
 'C12-iter-without-seek': ('C12', SY, '        for _, start, len_mol in self._molecules_ordered_all_gen():\n            self._open_fgro.seek_atom(start)\n            yield', '        for _, start, len_mol in self._molecules_ordered_all_gen():\n            yield'),
 'C13-count-backfilled-at-wrong-offset': ('C13', PAR, 'self._file.seek(self._init_position-1-self.NUMBER_FIGURES)', 'self._file.seek(self._init_position-self.NUMBER_FIGURES)'),
 'C13-wrap-99999': ('C13', PAR, 'atominfo[3] = atomlist[3] % 100000', 'atominfo[3] = atomlist[3] % 99999'),
 'C13-velocity-width': ('C13', PAR, 'float_format_dict["velocities"] = float_format_dict["decimals"]+1', 'float_format_dict["velocities"] = float_format_dict["decimals"]'),
 'C14-count-check-dropped': ('C14', PAR, '            if self._natoms != self._current_atom:', '            if False:'),
 'C14-bad-box-line-accepted': ('C14', PAR, '            self._box_matrix = extract_lattice_gro(line)\n        except ValueError:', '            self._box_matrix = extract_lattice_gro(line)\n        except ValueError:\n            self._box_matrix = __import__("numpy").zeros((3, 3))\n            return\n        except KeyError:'),
 'C15-pairs-ignored': ('C15', TOP, "for key in ('constraints', 'bonds', 'pairs'):", "for key in ('constraints', 'bonds'):"),
 'C15-numbers-as-positions': ('C15', TOP, 'bonds.append((atoms_number[bond[0]], atoms_number[bond[1]]))', 'bonds.append((bond[0] - 1, bond[1] - 1))'),
 'C16-repeated-section-overwritten': ('C16', ITP, '                if sec not in self:\n                    self[sec] = ItpSection(sec, [])', '                self[sec] = ItpSection(sec, [])'),
 'C17-axis-not-normalised': ('C17', AUX, 'norm_ax = axis / np.linalg.norm(axis)', 'norm_ax = np.asarray(axis, dtype=float)'),
 'C17-left-handed-frame': ('C17', AUX, 'vec2 = np.cross(vec3, vec1)', 'vec2 = np.cross(vec1, vec3)'),
 'C17-input-modified': ('C17', AUX, '    vec1 = pos2-pos0\n', '    vec1 = pos2\n    vec1 -= pos0\n'),
 'C18-rotate-about-origin': ('C18', RES, '        com = self.geometric_center\n        atoms_pos = self.atoms_positions - com', '        com = np.zeros(3)\n        atoms_pos = self.atoms_positions - com'),
 'C18-residue-copy-shares-atoms': ('C18', RES, '        return Residue(self.atoms)', '        return Residue(self._atoms_gro)'),
 'C19-floor-instead-of-round': ('C19', RES, 'vect -= np.round(vect)', 'vect -= np.floor(vect)'),
 'C19-inverse-flag-ignored': ('C19', RES, '            if inv:\n                inv_box = box_vects\n                box_vects = np.linalg.inv(inv_box)', '            if False:\n                inv_box = box_vects\n                box_vects = np.linalg.inv(inv_box)'),
}


def sh(cmd, **kw):
    return subprocess.run(cmd, shell=True, stdout=subprocess.PIPE, stderr=subprocess.STDOUT, text=True, **kw)


def run_one(name, tests=False):
    pid, path, old, new = MUTANTS[name][:4]
    every = len(MUTANTS[name]) > 4
    wt = '/tmp/selfmut_%s' % name
    sh('git -C /repo worktree remove --force %s' % wt)
    shutil.rmtree(wt, ignore_errors=True)
    r = sh('git -C /repo worktree add --detach %s HEAD' % wt)
    if r.returncode:
        return name, {'error': r.stdout[-300:]}
    out = {'property': pid}
    try:
        fp = os.path.join(wt, path)
        src = open(fp).read()
        if src.count(old) < 1:
            return name, {'error': 'pattern not found'}
        open(fp, 'w').write(src.replace(old, new) if every else src.replace(old, new, 1))
        if tests:
            r = sh('cd %s && /venv/bin/python -m pytest -q -x -p no:cacheprovider --timeout=900 '
                   '--continue-on-collection-errors 2>&1 | tail -3' % wt, timeout=3000)
            out['tests_tail'] = r.stdout[-200:]
        env = dict(os.environ, VERIF_REPO=wt)
        try:
            r = sh('cd %s && ./check %s --tier quick' % (VERIF, pid), env=env, timeout=1500)
        except subprocess.TimeoutExpired:
            sh("pkill -f 'VERIF_REPO=%s' ; pkill -f '[c]heck %s --tier quick'" % (wt, pid))
            out['exit'] = 'timeout'
            return name, out
        out['exit'] = r.returncode
        out['first'] = [l for l in r.stdout.splitlines() if ' x {' in l][:3]
        if r.returncode == 2:
            out['tail'] = r.stdout[-600:]
    finally:
        sh('git -C /repo worktree remove --force %s' % wt)
        shutil.rmtree(wt, ignore_errors=True)
    return name, out


def main():
    args = [a for a in sys.argv[1:] if not a.startswith('--')]
    tests = '--tests' in sys.argv
    if args and args[0] == 'list':
        for n, m in MUTANTS.items():
            if len(args) < 2 or m[0] == args[1]:
                print(n, m[1])
        return
    sel = args[1:] if args and args[0] == 'run' else args
    names = [n for n in MUTANTS if not sel or n in sel or MUTANTS[n][0] in sel]
    path = os.path.join(VERIF, 'out', 'selfmut.json')
    res = {}
    if os.path.exists(path):
        res = json.load(open(path))
    with ThreadPoolExecutor(max_workers=3) as ex:
        for name, out in ex.map(lambda n: run_one(n, tests), names):
            res[name] = out
            print('%-34s exit=%s %s' % (name, out.get('exit'), (out.get('first') or [out.get('error', '')])[:1]), flush=True)
    os.makedirs(os.path.dirname(path), exist_ok=True)
    json.dump(res, open(path, 'w'), indent=1)


if __name__ == '__main__':
    main()
