#!/usr/bin/env python3
"""Write the prompts for one round of independent breaking changes (sub-agents given only the property text).

  mkprompts.py <round>            e.g. m7 -> /tmp/mut/prompts/<ID>_<round>.txt for every property

Each prompt holds the property (title, statement, quantifier, anchors' files), the list of ideas already
taken (the summaries of seeded/<ID>-*), and the deliverables.  Nothing else from /verif is shown."""
import glob
import json
import os
import sys

ROOT = os.path.dirname(os.path.dirname(os.path.abspath(__file__)))
HINTS = {
    'm14': ('prefer a clause of the statement or a part of the quantified domain that none of them touches; look for the '
            'function, branch or line of the anchored files that NONE of the ideas above modified and change that; or make a '
            'change whose effect needs two of the earlier kinds of trigger at the same time (for example a boundary size '
            'AND a second call); keep it realistic: something a maintainer would plausibly merge'),
    'm13': ('prefer a clause of the statement or a part of the quantified domain that none of them touches; the harness you '
            'are up against already varies argument types and layouts, holds results across calls, refills buffers in '
            'place, regenerates files in place, uses boundary sizes, near-degenerate geometry and retries after failures, '
            'so look for something of a different nature: a dependence on global interpreter state (numpy print options, '
            'errstate, warnings filters, locale, recursion limit, random state consumed or not), on the order of keys in '
            'a mapping the caller passes, on object identity vs equality of two arguments, on an attribute the caller may '
            'set on a library object, or a subtle change of WHICH exception / return type is produced'),
    'm12': ('prefer a clause of the statement or a part of the quantified domain that none of them touches; re-read the '
            'statement word by word and pick the clause that looks least likely to be checked by a test harness that '
            'already knows all the ideas above; think of conditions on the VALUES involved (signs, zeros, ties, exact '
            'equality of two inputs, symmetry, very unequal magnitudes in one input), of what a caller may do between two '
            'calls that are individually fine, and of rarely used but documented parameters and return values'),
    'm11': ('prefer a clause of the statement or a part of the quantified domain that none of them touches; look at the '
            'upper and lower ends of the quantified domain (the largest sizes, budgets and counts it names, the smallest '
            'ones: one atom, one residue, one record, one step), at branches of the anchored code that ordinary inputs never '
            'reach, at errors that are small (1e-9 .. 1e-6 relative) but systematic, at behaviour that differs between the '
            'first call and later calls of a process, and at what the statement promises about inputs that are refused'),
    'm10': ('prefer a clause of the statement or a part of the quantified domain that none of them touches; think of two '
            'cooperating sites that each look fine alone, of a shared helper (an __eq__, __hash__, copy, a small parsing or '
            'formatting function, a default argument) changed for another reason, of sorting keys and stability, of string '
            'padding / truncation / case, of rounding modes and comparisons with <= versus <, of the first or last '
            'iteration of a loop, and of behaviour that depends on the order in which the caller supplies equal things'),
    'm9': ('prefer a clause of the statement or a part of the quantified domain that none of them touches; think of empty, '
           'single-element and duplicated inputs, of what is left behind after an exception part-way (and a retry on the same '
           'object), of generators / iterators consumed twice, of clean-up in close() / __exit__ / __del__, of thresholds where '
           'a faster algorithm takes over (sizes of some hundreds or thousands), of float formatting and parsing corner cases '
           '(exponent notation, negative zero, values that round up to the next power of ten), and of two features of the '
           'library used together'),
    'm8': ('prefer a clause of the statement or a part of the quantified domain that none of them touches; think of other '
           'legal forms of the same argument (tuples, lists, numpy scalars and integer types, pathlib paths, opened files, '
           'relative paths, generators), of using one object for a second job after a first one finished or failed, of '
           'shortcuts that only switch on above a size threshold, of the iteration order of sets and dicts, of what '
           'happens after a refused / failing call, and of an interaction with another documented method of the same class'),
    'm7': ('prefer a clause of the statement or a part of the quantified domain that none of them touches; think of state '
           'that survives between calls (module-level or class-level data, caches keyed by identity or by path, defaults '
           'evaluated once), of numeric edge values (exact zeros, negative zero, equal values, values at a format width), '
           'of the order in which a caller may legitimately do two things, and of a second public entry point that must '
           'satisfy the same statement'),
}

TEMPLATE = """You are helping to test a verification framework by writing a realistic *breaking change* (a seeded bug) for a Python library.

The library is gaddlemaps (GADDLE Maps: Monte Carlo molecular alignment and exchange maps for changing the resolution of GROMACS systems, with .gro/.itp parsers). You have your own scratch git worktree of it at /tmp/mutwt/{pid} (work ONLY there; never touch /repo or /verif; do not read anything under /verif). Python with all dependencies: /venv/bin/python. The existing test suite is run from the worktree root with:
  /venv/bin/python -m pytest -q -p no:cacheprovider --timeout=900 --continue-on-collection-errors
(about 74 tests pass, some fail/error already on the unchanged tree because a fixture file is empty: the set of PASSING tests must stay the same with your change).

The property your change must break:

  id: {pid}
  title: {title}
  statement: {statement}
  quantified over: {quant}
  code anchors: {files}

Task: make ONE small, realistic change to the library source (something that could plausibly be committed as a refactoring, optimisation or bug fix by a maintainer) such that
  * the library still imports and the tests that passed before still pass,
  * the property above is violated, but only under something SPECIFIC: a particular interleaving or multi-step sequence of operations, an unusual but legitimate input, a boundary value, a particular size relation, a crash/fault point, or two cooperating sites that each look fine alone. Ordinary use must NOT expose it at once.
  * it stays inside the domain the property quantifies over (documented, legitimate inputs and call sequences),
  * it is NOT one of these ideas, which are already taken (choose a different mechanism AND a different kind of trigger; {hint}): {taken}

Deliver exactly these three files:
  /tmp/mut/{pid}.out/{rnd}.diff      output of `git -C /tmp/mutwt/{pid} diff` (library source only; do not include tests or your demo)
  /tmp/mut/{pid}.out/{rnd}_demo.py   a self-contained demonstration program, run as `cd <worktree root> && /venv/bin/python /tmp/mut/{pid}.out/{rnd}_demo.py`, that imports gaddlemaps from the current directory (put `import sys; sys.path.insert(0, '.')` first), exits 0 on the unchanged tree and exits non-zero (printing what is violated) with your change applied. It must be deterministic (seed any randomness) and finish within two minutes. It must check the PROPERTY (observable behaviour), not the source text.
  /tmp/mut/{pid}.out/{rnd}.json      {{"summary": "<what you changed>", "needs": "<what it takes to manifest>", "files": ["<changed files>"]}}

Before finishing, verify yourself WITHOUT git stash (the stash is shared between worktrees and other agents run concurrently): save your diff, `git -C /tmp/mutwt/{pid} apply -R <diff>` -> demo exits 0; `git -C /tmp/mutwt/{pid} apply <diff>` -> demo exits non-zero; make sure the diff contains only your own change; the test suite passes the same tests as before. Leave the worktree with your change applied. Reply with a three-line summary only.
"""


def main():
    rnd = sys.argv[1]
    os.makedirs('/tmp/mut/prompts', exist_ok=True)
    for line in open(os.path.join(ROOT, 'properties.jsonl')):
        p = json.loads(line)
        pid = p['id']
        taken = []
        for mf in sorted(glob.glob(os.path.join(ROOT, 'seeded', pid + '-*', 'meta.json'))):
            taken.append(json.load(open(mf)).get('summary', '')[:260])
        os.makedirs('/tmp/mut/%s.out' % pid, exist_ok=True)
        text = TEMPLATE.format(pid=pid, title=p['title'], statement=p['statement'], quant=p['quantifier']['text'],
                               files=', '.join(p['anchors']['files']), hint=HINTS.get(rnd, HINTS['m7']),
                               taken=' || '.join(taken), rnd=rnd)
        with open('/tmp/mut/prompts/%s_%s.txt' % (pid, rnd), 'w') as fh:
            fh.write(text)
        print(pid, len(taken), 'taken ideas')


if __name__ == '__main__':
    main()
