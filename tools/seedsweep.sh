#!/bin/sh
# run every quick check under several seeds on the unchanged tree; any non-zero exit is a soundness problem
# usage: tools/seedsweep.sh "2 3 5" [IDs...]      results: out/seedsweep.log
cd "$(dirname "$0")/.."
seeds="$1"; shift
ids="$@"
[ -z "$ids" ] && ids="C01 C02 C03 C04 C05 C06 C07 C08 C09 C10 C11 C12 C13 C14 C15 C16 C17 C18 C19 C20"
mkdir -p out
for s in $seeds; do
  for p in $ids; do
    out=$(VERIF_SEED=$s VERIF_REPO=/repo ./check $p --tier quick 2>&1); rc=$?
    echo "seed=$s $p exit=$rc $(echo "$out" | tail -1)" >> out/seedsweep.log
    if [ $rc -ne 0 ]; then echo "$out" | grep -E "VIOLATION|signature| x \{|MACHINERY|Error" | head -8 >> out/seedsweep.log; fi
  done
done
