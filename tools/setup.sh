#!/bin/sh
# Offline set-up: parse every specification with SANY and self-test the TLA+ value parser.
set -e
cd "$(dirname "$0")/.."
mkdir -p out evidence
fail=0
for f in spec/*.tla; do
  m=$(basename "$f" .tla)
  if ! (cd spec && java -cp /opt/veriftools/tla/tla2tools.jar:/opt/veriftools/tla/CommunityModules-deps.jar tla2sany.SANY "$m.tla" > ../out/sany_$m.log 2>&1); then
    echo "SANY failed on $m"; fail=1
  fi
  if grep -q "Semantic errors\|Parse Error\|Fatal errors" out/sany_$m.log; then echo "SANY errors in $m"; fail=1; fi
done
/venv/bin/python -c "
import sys; sys.path.insert(0,'.')
from harness import tlaval
v = tlaval.parse_value('<<\"H\", [a |-> 1, b |-> <<TRUE, {1,2}>>], (1 :> \"x\" @@ 2 :> \"y\")>>')
assert v[1]['b'][0] is True and v[2][2] == 'y'
print('tlaval ok')
"
# binding self-test: hand-written traces, one accepted and single-field corruptions that must be rejected with the
# named clause (the trace specifications are not vacuous)
if ! /venv/bin/python tools/bindingtest.py > out/bindingtest.log 2>&1; then echo "binding self-test failed (out/bindingtest.log)"; fail=1; fi
tail -1 out/bindingtest.log
exit $fail
