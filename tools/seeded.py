#!/venv/bin/python
"""Manage seeded breaking changes (/verif/seeded/<name>/{patch.diff,demo.py,meta.json}).

  seeded.py import               copy the sub-agents' outputs from /tmp/mut/<ID>.out
  seeded.py confirm <name>...    in a scratch worktree: patch applies, demo fails with / passes without,
                                 the 74 baseline tests still pass; result recorded in meta.json
  seeded.py run <name> [ID...]   run ./check <ID> --tier quick (default: the broken property) against a scratch
                                 worktree with the patch applied; records which checks catch it
"""
import json
import os
import shutil
import subprocess
import sys
import xml.etree.ElementTree as ET

VERIF = os.path.dirname(os.path.dirname(os.path.abspath(__file__)))
SEEDED = os.path.join(VERIF, 'seeded')
STABLE = json.load(open('/root/.vp/BASELINE.json'))['stable_pass']


def sh(cmd, **kw):
    return subprocess.run(cmd, shell=True, stdout=subprocess.PIPE, stderr=subprocess.STDOUT, text=True, **kw)


def worktree(tag):
    d = '/tmp/seed_%s' % tag
    sh('git -C /repo worktree remove --force %s' % d)
    shutil.rmtree(d, ignore_errors=True)
    r = sh('git -C /repo worktree add --detach %s HEAD' % d)
    if r.returncode:
        raise SystemExit(r.stdout)
    return d


def drop(d):
    sh('git -C /repo worktree remove --force %s' % d)
    shutil.rmtree(d, ignore_errors=True)


def do_import():
    for ent in sorted(os.listdir('/tmp/mut')):
        if not ent.endswith('.out'):
            continue
        pid = ent[:-4]
        for m in ('m1', 'm2', 'm3', 'm4', 'm5', 'm6', 'm7', 'm8', 'm9', 'm10', 'm11', 'm12', 'm13', 'm14'):
            src = os.path.join('/tmp/mut', ent)
            if not os.path.exists(os.path.join(src, m + '.diff')):
                continue
            dst = os.path.join(SEEDED, '%s-%s' % (pid, m))
            if os.path.exists(os.path.join(dst, 'meta.json')) and 'confirmation' in json.load(open(os.path.join(dst, 'meta.json'))):
                continue
            os.makedirs(dst, exist_ok=True)
            shutil.copy(os.path.join(src, m + '.diff'), os.path.join(dst, 'patch.diff'))
            shutil.copy(os.path.join(src, m + '_demo.py'), os.path.join(dst, 'demo.py'))
            meta = {}
            try:
                meta = json.load(open(os.path.join(src, m + '.json')))
            except Exception:
                pass
            old = {}
            if os.path.exists(os.path.join(dst, 'meta.json')):
                old = json.load(open(os.path.join(dst, 'meta.json')))
            old.update({'property': pid, 'breaks': pid, 'summary': meta.get('summary'), 'needs': meta.get('needs'),
                        'files': meta.get('files'), 'author': 'independent sub-agent given only the property text'})
            json.dump(old, open(os.path.join(dst, 'meta.json'), 'w'), indent=1)
            print('imported', dst)


def confirm(name):
    d = os.path.join(SEEDED, name)
    meta = json.load(open(os.path.join(d, 'meta.json')))
    wt = worktree(name)
    res = {}
    try:
        demo = os.path.join(d, 'demo.py')
        r = sh('cd %s && /venv/bin/python %s' % (wt, demo), timeout=1800)
        res['demo_clean_exit'] = r.returncode
        r = sh('git -C %s apply %s' % (wt, os.path.join(d, 'patch.diff')))
        res['patch_applies'] = r.returncode == 0
        if r.returncode == 0:
            r = sh('cd %s && /venv/bin/python %s' % (wt, demo), timeout=1800)
            res['demo_mutant_exit'] = r.returncode
            res['demo_mutant_tail'] = r.stdout[-300:]
            junit = '/tmp/seed_%s.xml' % name
            sh('cd %s && /venv/bin/python -m pytest -q -p no:cacheprovider --timeout=900 '
               '--continue-on-collection-errors --junitxml=%s' % (wt, junit), timeout=3000)
            passed = set()
            for tc in ET.parse(junit).getroot().iter('testcase'):
                if not any(c.tag in ('failure', 'error', 'skipped') for c in tc):
                    passed.add('%s::%s' % (tc.get('classname'), tc.get('name')))
            missing = [t for t in STABLE if t not in passed]
            res['stable_tests_passed'] = len(STABLE) - len(missing)
            res['stable_tests_failed'] = missing
            os.remove(junit)
    finally:
        drop(wt)
    res['confirmed'] = bool(res.get('patch_applies') and res.get('demo_clean_exit') == 0
                            and res.get('demo_mutant_exit') not in (0, None)
                            and res.get('stable_tests_passed') == len(STABLE))
    meta['confirmation'] = res
    meta['what_i_ran'] = ('scratch worktree of /repo HEAD: demo.py (exit %s), git apply patch.diff, demo.py (exit %s), '
                          'baseline pytest command (%s/%d stable tests pass); worktree removed'
                          % (res.get('demo_clean_exit'), res.get('demo_mutant_exit'),
                             res.get('stable_tests_passed'), len(STABLE)))
    json.dump(meta, open(os.path.join(d, 'meta.json'), 'w'), indent=1)
    print(name, 'CONFIRMED' if res['confirmed'] else 'NOT CONFIRMED', {k: v for k, v in res.items() if k != 'demo_mutant_tail'})


def run(name, pids):
    d = os.path.join(SEEDED, name)
    meta = json.load(open(os.path.join(d, 'meta.json')))
    pids = pids or [meta['property']]
    wt = worktree('run_' + name)
    out = meta.setdefault('detected_by', {})
    try:
        r = sh('git -C %s apply %s' % (wt, os.path.join(d, 'patch.diff')))
        if r.returncode:
            raise SystemExit('patch does not apply: ' + r.stdout)
        for pid in pids:
            env = dict(os.environ, VERIF_REPO=wt, VERIF_NO_EVIDENCE='1')
            r = sh('cd %s && ./check %s --tier quick' % (VERIF, pid), env=env, timeout=7200)
            lines = [l for l in r.stdout.splitlines() if l.startswith('VIOLATION') or ' x {' in l]
            sig = [l.strip() for l in lines if ' x {' in l]
            out[pid] = {'exit': r.returncode, 'first': (sig or lines)[:3]}
            print(name, pid, 'exit', r.returncode, lines[:2])
    finally:
        drop(wt)
    json.dump(meta, open(os.path.join(d, 'meta.json'), 'w'), indent=1)


if __name__ == '__main__':
    if sys.argv[1] == 'import':
        do_import()
    elif sys.argv[1] == 'confirm':
        for n in sys.argv[2:]:
            confirm(n)
    elif sys.argv[1] == 'run':
        run(sys.argv[2], sys.argv[3:])
