#!/venv/bin/python
"""Binding self-test (guidance: "corrupt one recorded field or remove one event and show the trace is rejected").

For each trace specification a hand-written minimal trace that must be ACCEPTED and single-field corruptions /
dropped events that must be REJECTED with the named clause.  No gaddlemaps code is involved: this tests that the
trace specifications are not vacuous.  Exit 0 = all verdicts as expected.

  tools/bindingtest.py            run all
"""
import copy
import json
import os
import shutil
import sys
import tempfile

VERIF = os.path.dirname(os.path.dirname(os.path.abspath(__file__)))
sys.path.insert(0, VERIF)
from harness.traces import validate_batches          # noqa: E402

CFG = "SPECIFICATION TraceSpec\nINVARIANT Accepted\nCHECK_DEADLOCK FALSE\n"
CFG_CLI = 'SPECIFICATION TraceSpec\nCONSTANTS\n  InSystem = {"A", "B", "C", "D"}\nINVARIANT Accepted\nCHECK_DEADLOCK FALSE\n'


def mc_base():
    # budget 2: start(rank 3) ; step1 better (rank 2, new low) ; step2 worse rejected ; step3 equal accepted ; stop
    ev = [{'op': 'Start', 'tok': 1, 'rk': 3},
          {'op': 'Choose', 'k': 0},
          {'op': 'Eval', 'tok': 2, 'rk': 2, 'relT': [1], 'relR': [], 'relB': True, 'mbase': 0, 'mout': 0, 'lvl': 1, 'finite': True},
          {'op': 'Judge', 'e0': 3, 'e1': 2, 'verdict': True, 'ucmp': 'none', 'e0fresh': True},
          {'op': 'Choose', 'k': 1},
          {'op': 'Eval', 'tok': 3, 'rk': 4, 'relT': [], 'relR': [2], 'relB': True, 'mbase': 0, 'mout': 0, 'lvl': 2, 'finite': True},
          {'op': 'Judge', 'e0': 2, 'e1': 4, 'verdict': False, 'ucmp': 'gt', 'e0fresh': True},
          {'op': 'Choose', 'k': 0},
          {'op': 'Eval', 'tok': 4, 'rk': 2, 'relT': [2], 'relR': [], 'relB': True, 'mbase': 0, 'mout': 0, 'lvl': 1, 'finite': True},
          {'op': 'Judge', 'e0': 2, 'e1': 2, 'verdict': True, 'ucmp': 'none', 'e0fresh': True},
          {'op': 'Return', 'tok': 4}]
    return {'cfg': {'nSteps': 2, 'types': [0, 1], 'tree': True}, 'ev': ev}


def mutate(base, fn):
    t = copy.deepcopy(base)
    fn(t)
    return t


def cases_montecarlo():
    b = mc_base()
    out = [('ok', b, None)]
    out.append(('judged against the minimum', mutate(b, lambda t: t['ev'][9].update(e0=3)), 'judged_against_held_measure'))
    out.append(('held measure drifted from the held configuration', mutate(b, lambda t: t['ev'][6].update(e0fresh=False)),
                'held_measure_is_the_measure_of_the_held_configuration'))
    out.append(('returns a rejected configuration', mutate(b, lambda t: t['ev'][10].update(tok=3)), 'returns_last_accepted_configuration'))
    out.append(('proposal from a stale configuration', mutate(b, lambda t: t['ev'][8].update(relT=[1])), 'proposal_is_move_of_held_configuration'))
    out.append(('kind not enabled', mutate(b, lambda t: t['ev'][4].update(k=2)), 'kind_enabled'))
    out.append(('worse accepted against the draw', mutate(b, lambda t: t['ev'][6].update(verdict=True)), 'metropolis_rule'))
    out.append(('equal measure rejected', mutate(b, lambda t: t['ev'][9].update(verdict=False)), 'better_or_equal_always_accepted'))
    out.append(('stops one step early', mutate(b, lambda t: t['ev'].__delitem__(slice(7, 10))), 'stops_exactly_at_budget'))
    out.append(('one step too many', mutate(b, lambda t: t['ev'].__setitem__(slice(10, 11), [t['ev'][7], t['ev'][8], t['ev'][9], t['ev'][10]])),
                'stops_when_budget_is_spent'))
    out.append(('judge event dropped', mutate(b, lambda t: t['ev'].__delitem__(3)), 'event_order_Choose'))
    return 'Trace_MonteCarlo', CFG, out


def cases_alignment():
    b = {'cfg': {'nS': 2, 'nE': 4, 'types': [0, 1], 'tree': True},
         'ev': [{'op': 'Construct', 'copyS': True, 'copyE': True}, {'op': 'MoveStart', 'lvAs': 1, 'centred': True},
                {'op': 'Roles', 'mobile': 'as'}, {'op': 'Enter', 'fixedRows': 'ae', 'lvAe': 0},
                {'op': 'Step', 'k': 1, 'acc': True, 'lvl': 2}, {'op': 'Step', 'k': 0, 'acc': False, 'lvl': 4},
                {'op': 'WriteBack', 'who': 'as'}, {'op': 'Final', 'lv': [0, 0, 2, 0], 'names': True, 'finite': True},
                {'op': 'Repeat', 'same': True}]}
    out = [('ok', b, None)]
    out.append(('larger molecule mobile', mutate(b, lambda t: t['ev'][2].update(mobile='ae')), 'molecule_with_fewer_atoms_is_mobile'))
    out.append(('caller modified', mutate(b, lambda t: t['ev'][7].update(lv=[1, 0, 2, 0])), 'caller_molecules_not_modified'))
    out.append(('end moved', mutate(b, lambda t: t['ev'][7].update(lv=[0, 0, 2, 1])), 'larger_molecule_only_translated'))
    out.append(('mobile deformed without single-atom moves', mutate(b, lambda t: t['ev'][7].update(lv=[0, 0, 3, 0])), 'mobile_molecule_keeps_structure'))
    out.append(('accepted non-rigid rotation', mutate(b, lambda t: t['ev'][4].update(lvl=3)), 'accepted_move_is_structure_preserving'))
    out.append(('written to the fixed molecule', mutate(b, lambda t: t['ev'][6].update(who='ae')), 'result_written_to_mobile_only'))
    out.append(('not deterministic', mutate(b, lambda t: t['ev'][8].update(same=False)), 'deterministic_given_seed'))
    out.append(('no copy', mutate(b, lambda t: t['ev'][0].update(copyS=False)), 'alignment_works_on_copies'))
    return 'Trace_Alignment', CFG, out


def cases_restraints():
    route = {'op': 'Route', 'nS': 2, 'nE': 3, 'hS': [], 'hE': [2], 'restr': [[1, 2], [2, 3]], 'ignoreH': True, 'called': True,
             'fixed': 'end', 'delivered': [[3, 2]], 'rows': [1, 3], 'mobileRowsOK': True}
    split = {'op': 'Split', 'l1': 2, 'l2': 3, 'o1': 0, 'o2': 0, 'pairs': [[0, 0], [1, 1], [1, 2]]}
    prot = {'op': 'Protein', 'lens1': [1, 2], 'lens2': [2, 1], 'outcome': 'pairs', 'pairs': [[0, 0], [0, 1], [1, 2], [2, 2]]}
    b = {'ev': [route, split, prot]}
    out = [('ok', b, None)]
    out.append(('pair not reversed', mutate(b, lambda t: t['ev'][0].update(delivered=[[2, 3]])), 'pairs_designate_the_users_atoms_in_order'))
    out.append(('hydrogen restraint kept', mutate(b, lambda t: t['ev'][0].update(delivered=[[2, 1], [3, 2]])), 'pairs_designate_the_users_atoms_in_order'))
    out.append(('start fixed although smaller', mutate(b, lambda t: t['ev'][0].update(fixed='start')), 'fixed_molecule_is_the_larger_ties_start'))
    out.append(('hydrogen row kept', mutate(b, lambda t: t['ev'][0].update(rows=[1, 2, 3])), 'fixed_rows_are_all_atoms_or_all_non_hydrogens'))
    out.append(('atom without partner', mutate(b, lambda t: t['ev'][1].update(pairs=[[0, 0], [1, 1]])), 'every_atom_has_a_partner'))
    out.append(('order not preserved', mutate(b, lambda t: t['ev'][1].update(pairs=[[0, 2], [1, 0], [1, 1]])), 'atom_order_preserved'))
    out.append(('pairs across residues', mutate(b, lambda t: t['ev'][2].update(pairs=[[0, 0], [0, 1], [1, 1], [1, 2], [2, 2]])),
                'pairs_only_same_sequence_position_cover_and_order'))
    out.append(('different residue counts accepted', mutate(b, lambda t: t['ev'][2].update(lens2=[3])), 'refused_iff_residue_counts_differ'))
    return 'Trace_Restraints', CFG, out


def cases_recognise():
    cfg = {'pattern': {'A': ['a'], 'B': ['b', 'c'], 'W': ['w']}, 'mols': ['A', 'B', 'W', 'A']}
    b = {'cfg': cfg, 'ev': [{'op': 'AddTop', 'sp': 'B', 'ok': True, 'list': [['B', 1, 2]], 'names': True, 'coords': True},
                            {'op': 'Access', 'len': True, 'composition': True, 'index': True, 'slices': True},
                            {'op': 'AddTop', 'sp': 'A', 'ok': True, 'list': [['A', 0, 1], ['B', 1, 2], ['A', 4, 1]], 'names': True, 'coords': True},
                            {'op': 'AddTop', 'sp': 'A', 'ok': False, 'list': [['A', 0, 1], ['B', 1, 2], ['A', 4, 1]], 'names': True, 'coords': True}]}
    out = [('ok', b, None)]
    out.append(('not in file order', mutate(b, lambda t: t['ev'][2].update(list=[['B', 1, 2], ['A', 0, 1], ['A', 4, 1]])), 'exactly_the_instances_in_file_order'))
    out.append(('instance missing', mutate(b, lambda t: t['ev'][2].update(list=[['A', 0, 1], ['B', 1, 2]])), 'exactly_the_instances_in_file_order'))
    out.append(('second load accepted', mutate(b, lambda t: t['ev'][3].update(ok=True)), 'refused_iff_no_matching_run'))
    out.append(('wrong coordinates', mutate(b, lambda t: t['ev'][0].update(coords=False)), 'coordinates_are_the_files'))
    out.append(('len disagrees', mutate(b, lambda t: t['ev'][1].update(len=False)), 'len_agrees'))
    return 'Trace_Recognise', CFG, out


def cases_extrapolate():
    cfg = {'loaded': ['P', 'Q'], 'tgt': {'P': 4, 'Q': 3, 'W': 1}, 'mols': ['P', 'W', 'Q', 'P']}
    b = {'cfg': cfg, 'ev': [{'op': 'Extrapolate', 'outcome': 'error', 'file': False}, {'op': 'AddEnd', 'sp': 'P'},
                            {'op': 'Extrapolate', 'outcome': 'error', 'file': False}, {'op': 'CalcMaps'},
                            {'op': 'Extrapolate', 'outcome': 'ok', 'file': True},
                            {'op': 'Mol', 'src': 1, 'first': 1, 'n': 4, 'consecutive': True, 'resids': True, 'pos': True},
                            {'op': 'Mol', 'src': 4, 'first': 5, 'n': 4, 'consecutive': True, 'resids': True, 'pos': True},
                            {'op': 'Close', 'natoms': 8, 'title': True, 'box': True}]}
    out = [('ok', b, None)]
    out.append(('file left after error', mutate(b, lambda t: t['ev'][2].update(file=True)), 'no_file_written_on_error'))
    out.append(('extrapolates without maps', mutate(b, lambda t: t['ev'][2].update(outcome='ok')), 'error_iff_nothing_to_map_or_maps_missing'))
    out.append(('counter reset per molecule', mutate(b, lambda t: t['ev'][6].update(first=1)), 'atom_numbers_run_consecutively_from_one'))
    out.append(('molecule skipped', mutate(b, lambda t: t['ev'].__delitem__(6)), 'no_complete_input_molecule_left_out'))
    out.append(('incomplete species written', mutate(b, lambda t: t['ev'][6].update(src=3)), 'one_molecule_per_complete_input_molecule_in_file_order'))
    out.append(('wrong count', mutate(b, lambda t: t['ev'][7].update(natoms=9)), 'atom_count_is_sum_of_target_sizes'))
    out.append(('box lost', mutate(b, lambda t: t['ev'][7].update(box=False)), 'box_copied'))
    out.append(('resids of template', mutate(b, lambda t: t['ev'][5].update(resids=False)), 'residue_numbers_of_the_input_molecule'))
    return 'Trace_Extrapolate', CFG, out


def cases_cli():
    cfg = {'cands': [['A', 'topCG'], ['A', 'topAA'], ['A', 'coorAA'], ['B', 'topCG'], ['B', 'coorAA'], ['C', 'topCG'], ['C', 'topAA'],
                     ['C', 'coorAA'], ['Z', 'topOther']], 'explicit': ['D'], 'exclude': ['C']}

    def tr(sp):
        return [sp, [sp, 'topCG'], [sp, 'topAA'], [sp, 'coorAA']]
    b = {'cfg': cfg, 'ev': [{'op': 'Discover', 'crashed': False, 'result': [tr('A'), tr('C')]},
                            {'op': 'Main', 'ran': True, 'outAtExpectedPath': True, 'mapped': ['A', 'D']}, {'op': 'Equal', 'same': True}]}
    out = [('ok', b, None)]
    out.append(('incomplete species discovered', mutate(b, lambda t: t['ev'][0].update(result=[tr('A'), tr('B'), tr('C')])),
                'discovers_exactly_the_species_with_all_three_files'))
    out.append(('files of another species', mutate(b, lambda t: t['ev'][0].update(result=[['A', ['A', 'topCG'], ['C', 'topAA'], ['A', 'coorAA']], tr('C')])),
                'each_species_gets_exactly_its_own_files'))
    out.append(('excluded species mapped', mutate(b, lambda t: t['ev'][1].update(mapped=['A', 'C', 'D'])), 'maps_explicit_and_discovered_species_minus_excluded'))
    out.append(('explicit species dropped', mutate(b, lambda t: t['ev'][1].update(mapped=['A'])), 'maps_explicit_and_discovered_species_minus_excluded'))
    out.append(('wrong output path', mutate(b, lambda t: t['ev'][1].update(outAtExpectedPath=False)), 'output_at_requested_or_default_path'))
    out.append(('differs from library', mutate(b, lambda t: t['ev'][2].update(same=False)), 'same_output_as_library_workflow_for_same_seed'))
    out.append(('crash', mutate(b, lambda t: t['ev'][0].update(crashed=True, result=[])), 'discovery_does_not_crash'))
    return 'Trace_Cli', CFG_CLI, out


def cases_pbc():
    e = {'op': 'dist', 'finite': True, 'ortho': True, 'min_image': True, 'le_plain': True, 'symmetric': True, 'shift_inv': True,
         'inv_flag': True, 'res_point': True}
    b = {'ev': [e, dict(e, ortho=False, min_image=False, le_plain=False)]}
    out = [('ok (triclinic boxes need no minimum image)', b, None)]
    out.append(('orthorhombic not minimum image', mutate(b, lambda t: t['ev'][0].update(min_image=False)), 'minimum_image'))
    out.append(('not shift invariant (triclinic)', mutate(b, lambda t: t['ev'][1].update(shift_inv=False)), 'lattice_shift_invariant'))
    out.append(('inverse flag inconsistent', mutate(b, lambda t: t['ev'][1].update(inv_flag=False)), 'inverse_flag_consistent'))
    return 'Trace_PBC', "SPECIFICATION TraceSpec\nINVARIANT Accepted\nCHECK_DEADLOCK FALSE\n", out


def cases_frames():
    r = {'op': 'rot', 'finite': True, 'orth': True, 'det': True, 'axis_fixed': True, 'trace': True, 'transpose': True, 'compose': True,
         'scale_indep': True}
    f = {'op': 'frame', 'finite': True, 'collinear': False, 'orthonormal': True, 'right_handed': True, 'first': True, 'normal': True,
         'origin': True, 'intact': True}
    b = {'ev': [r, f, dict(f, collinear=True, normal=False)]}
    out = [('ok (collinear: normal is free)', b, None)]
    out.append(('improper rotation', mutate(b, lambda t: t['ev'][0].update(det=False)), 'det_plus_one'))
    out.append(('depends on axis length', mutate(b, lambda t: t['ev'][0].update(scale_indep=False)), 'axis_length_independent'))
    out.append(('left handed frame', mutate(b, lambda t: t['ev'][1].update(right_handed=False)), 'right_handed'))
    out.append(('generic frame not normal to plane', mutate(b, lambda t: t['ev'][1].update(normal=False)), 'third_vector_normal_to_plane'))
    out.append(('collinear frame not orthonormal', mutate(b, lambda t: t['ev'][2].update(orthonormal=False)), 'orthonormal'))
    out.append(('input modified', mutate(b, lambda t: t['ev'][2].update(intact=False)), 'inputs_not_modified'))
    return 'Trace_Frames', "SPECIFICATION TraceSpec\nINVARIANT Accepted\nCHECK_DEADLOCK FALSE\n", out


def cases_chi2():
    b = {'cfg': {'fixed': [[0, 0, 0], [2, 0, 0], [1, 1, 0]], 'nm': 2, 'restr': [[3, 1]]},
         'ev': [{'op': 'Eval', 'mobile': [[0, 0, 0], [2, 0, 0]], 'finite': True, 'nonneg': True, 'cand': [[2, 0]], 'value': 2.0},
                {'op': 'Inv', 'rigid': True, 'relabel': True, 'paths': True}]}
    out = [('ok', b, None)]
    out.append(('restraint ignored (nearest atom used)', mutate(b, lambda t: t['ev'][0].update(cand=[[0, 0]])), 'value_is_reference_definition'))
    out.append(('penalty exponent off by one', mutate(b, lambda t: t['ev'][0].update(cand=[[2, 1]])), 'value_is_reference_definition'))
    out.append(('not invariant under rigid motion', mutate(b, lambda t: t['ev'][1].update(rigid=False)), 'rigid_motion_invariant'))
    return 'Trace_Chi2', "SPECIFICATION TraceSpec\nCONSTANTS\n  Cases = {}\nINVARIANT Accepted\nCHECK_DEADLOCK FALSE\n", out


def cases_moveatom():
    b = {'cfg': {'n': 4, 'adj': [[2], [1, 3, 4], [2], [2]], 'root': 1},
         'ev': [{'op': 'Displace', 'exact_vector': True, 'input_intact': True}, {'op': 'Restore', 'c': 2}, {'op': 'Restore', 'c': 4},
                {'op': 'Restore', 'c': 3}, {'op': 'End', 'finite': True, 'exact': [[1, 2], [2, 3], [2, 4]], 'others_intact': True},
                {'op': 'Draw', 'deg': 1, 'finite': True, 'perp': True}]}
    out = [('ok (any frontier order)', b, None)]
    out.append(('atom restored before it is on the frontier', mutate(b, lambda t: t['ev'].__setitem__(slice(1, 3), [t['ev'][2], t['ev'][1]])),
                'restored_atom_is_on_the_frontier'))
    out.append(('a bond left inexact', mutate(b, lambda t: t['ev'][4].update(exact=[[1, 2], [2, 3]])), 'tree_all_bonds_exact'))
    out.append(('an atom never restored', mutate(b, lambda t: t['ev'].__delitem__(3)), 'every_claimed_atom_was_restored'))
    out.append(('input array modified', mutate(b, lambda t: t['ev'][0].update(input_intact=False)), 'input_array_not_modified'))
    out.append(('draw not perpendicular', mutate(b, lambda t: t['ev'][5].update(perp=False)), 'draw_perpendicular'))
    from harness.drivers.moveatom import TRACE_CFG as MA_CFG
    return 'Trace_MoveAtom', MA_CFG, out


# ---- byte-level specifications: a trace RECORDED from the unchanged implementation, then single fields corrupted -------
def _recorded():
    """-> list of (module, cfg, cases); needs /repo (the traces are produced by the drivers' own recorders)"""
    from harness import common
    common.import_repo()
    from harness.drivers import xmapgeom, groview, itp, grofile
    wd = tempfile.mkdtemp(prefix='verif_binding_rec_')
    out = []
    # XMapGeom: a random reference with all three groups of events
    tr = None
    for seed in range(100, 140):
        t = xmapgeom.random_trace(seed, 1, wd, {'C01', 'C02', 'C03'})
        ops = [e['op'] for e in t['ev']]
        if t['cfg']['n'] >= 4 and not t['cfg']['degenerate'] and 'CallDeformed' in ops and 'Displace' in ops and t['cfg']['nt'] >= 3:
            tr = t
            break
    ix = {op: [i for i, e in enumerate(tr['ev']) if e['op'] == op] for op in ('Build', 'CallSame', 'CallRigid', 'CallDeformed', 'Displace')}

    def flip(i, key, k=0):
        def fn(t):
            t['ev'][i][key][k] = not t['ev'][i][key][k]
        return fn

    def other_anchor(t):
        e = t['ev'][ix['Build'][0]]
        e['equiv'][0] = next(a for a in range(1, t['cfg']['n'] + 1) if a != e['equiv'][0])
    dsp = ix['Displace'][0]
    unch = tr['ev'][dsp]['unchanged']
    cases = [('recorded trace', tr, None),
             ('atom not at the law point', mutate(tr, flip(ix['CallSame'][0], 'law')), 'law'),
             ('image of moved reference differs', mutate(tr, flip(ix['CallRigid'][0], 'eq')), 'equivariant'),
             ('distance to anchor not scaled', mutate(tr, flip(ix['CallDeformed'][0], 'dist')), 'scaled_distance'),
             ('group lost its mutual distances', mutate(tr, flip(ix['CallDeformed'][0], 'mutual')), 'mutual_distance'),
             ('another anchor recorded', mutate(tr, other_anchor), None if False else 'ANY')]
    if all(unch):
        cases.append(('every atom moved with a far atom', mutate(tr, lambda t: t['ev'][dsp].update(unchanged=[False] * len(unch))), 'local'))
    out.append(('Trace_XMapGeom', xmapgeom.TRACE_CFG % '{}', cases))
    # GroView: a small file with the systematic battery
    p = groview._work(([(1, 'small', [(1, 'X', ['A']), (2, 'X', ['A']), (1, 'Y', ['A'])])], os.path.join(wd, 'gv.ndjson'), wd))
    tr = json.loads(open(p).readline())
    gi = next(i for i, e in enumerate(tr['ev']) if e['op'] == 'get' and e['st'] == 'ok')
    ia = next(i for i, e in enumerate(tr['ev']) if e['op'] == 'iterall')
    cases = [('recorded trace', tr, None),
             ('index returns the neighbouring residue', mutate(tr, lambda t: t['ev'][gi]['runs'][0].update(first=(t['ev'][gi]['runs'][0]['first'] + 1) % 3)), 'ANY'),
             ('iteration drops the last residue', mutate(tr, lambda t: t['ev'][ia]['runs'].pop()), 'ANY'),
             ('returned atoms differ from the file', mutate(tr, lambda t: t['ev'][gi].update(data_ok=False)), 'ANY'),
             ('wrong residue count', mutate(tr, lambda t: t['ev'][0].update(nres=2)), 'ANY')]
    out.append(('Trace_GroView', groview.TRACE_CFG, cases))
    # Itp: a generated topology, read / written back / read, with its bond graph
    p = itp._work(([(2, 'topo', 778)], os.path.join(wd, 'it.ndjson'), wd))
    tr = json.loads(open(p).readline())
    ti = next(i for i, e in enumerate(tr['ev']) if e['op'] == 'topo')
    t2 = next(i for i, e in enumerate(tr['ev']) if e['op'] == 'topo2')
    ci = next(i for i, e in enumerate(tr['ev']) if e['op'] == 'conn')
    cases = [('recorded trace', tr, None),
             ('a section lost on re-reading', mutate(tr, lambda t: t['ev'][1]['names'].pop()), 'section_names_in_order_of_first_appearance'),
             ('a line lost in the second write', mutate(tr, lambda t: [x for x in t['ev'][2]['items'] if x][0].pop()), 'section_lines'),
             ('molecule name differs', mutate(tr, lambda t: t['ev'][ti].update(name='OTHER')), 'molecule_name'),
             ('one bond missing', mutate(tr, lambda t: t['ev'][ti]['bonds'].pop()), 'bond_graph'),
             ('bond missing in the written-back file', mutate(tr, lambda t: t['ev'][t2]['bonds'].pop()), 'rewritten_bond_graph'),
             ('connectivity answer negated', mutate(tr, lambda t: t['ev'][ci].update(value=not t['ev'][ci]['value'])), 'connected_iff_one_component'),
             ('copy not independent', mutate(tr, lambda t: t['ev'][-2].update(independent=False)), 'copy_independent')]
    out.append(('Trace_Itp', itp.TRACE_CFG % '{}', cases))
    # GroFile: a random file written by the real writer, with the truncation sweep
    tr = grofile.random_file_trace(5, 1, wd, 5, True)
    fin = tr['ev'][-1]

    def drop_record(t):
        t['ev'][-1]['read']['recs'].pop()
        t['ev'][-1]['read']['natoms'] -= 1

    def corrupt_byte(t):
        b = t['ev'][-1]['bytes']
        k = max(i for i, c in enumerate(b) if c in '0123456789')        # last digit of the file (box line)
        b[k] = str((int(b[k]) + 1) % 10)
    cases = [('recorded trace', tr, None),
             ('reader lost a record', mutate(tr, drop_record), 'reader_count'),
             ('a digit of the box line differs', mutate(tr, corrupt_byte), 'box_in_bytes'),
             ('a prefix before the box line was accepted', mutate(tr, lambda t: t['ev'][-1].update(min_accepted=10)), 'truncation_before_box_rejected'),
             ('an accepted prefix returned other records', mutate(tr, lambda t: t['ev'][-1].update(accepted_exact=False)), 'accepted_truncation_exact'),
             ('reader rejected the complete file', mutate(tr, lambda t: t['ev'][-1]['read'].update(ok=False)), 'reader_accepts')]
    out.append(('Trace_GroFile', grofile.TRACE_CFG % '{}', cases))
    return out, wd


def main():
    scratch = tempfile.mkdtemp(prefix='verif_binding_')
    bad = 0
    try:
        groups = [fn() for fn in (cases_montecarlo, cases_alignment, cases_restraints, cases_recognise, cases_extrapolate, cases_cli,
                                  cases_pbc, cases_frames, cases_chi2, cases_moveatom)]
        rec, recdir = _recorded()
        groups += rec
        for module, cfg, cases in groups:
            part = os.path.join(scratch, module + '.ndjson')
            with open(part, 'w') as fh:
                for i, (_what, tr, _exp) in enumerate(cases, 1):
                    fh.write(json.dumps(dict(tr, tid=i)) + '\n')
            verdicts = validate_batches(module, cfg, [part], os.path.join(scratch, module), timeout=600)
            for i, (what, _tr, exp) in enumerate(cases, 1):
                v = verdicts.get(i)
                got = None if v is None else ('ACC' if v[0] == 'ACC' else v[3])
                ok = (exp is None and got == 'ACC') or (exp is not None and got == exp) or (exp == 'ANY' and got not in (None, 'ACC'))
                if not ok:
                    bad += 1
                print('%-18s %-45s expected %-55s got %s %s' % (module, what, exp or 'ACC', got, '' if ok else '  <-- UNEXPECTED'))
    finally:
        shutil.rmtree(scratch, ignore_errors=True)
        try:
            shutil.rmtree(recdir, ignore_errors=True)
        except NameError:
            pass
    print('binding self-test: %s' % ('all verdicts as expected' if not bad else '%d unexpected verdicts' % bad))
    sys.exit(1 if bad else 0)


if __name__ == '__main__':
    main()
