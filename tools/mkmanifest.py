#!/venv/bin/python
"""Regenerate /verif/MANIFEST.json from the table below (single source of truth)."""
import json
import os

VERIF = os.path.dirname(os.path.dirname(os.path.abspath(__file__)))
BASELINE = ("cd /repo && /venv/bin/python -m pytest -ra -q -p no:cacheprovider --timeout=900 "
            "--continue-on-collection-errors")

# property -> (engine, technique, level text, level note, design ref)
CHECKS = {
 'C13': ('grofile',
         'TLA+ byte-level spec of the .gro writer/reader (GroFile.tla) model-checked with TLC; every maximal TLC history replayed on the real GroFile and validated back by TLC trace validation (Trace_GroFile.tla); random files validated against the same spec',
         'TLC proves RoundTrip/UniformLines/CountField/Layout for every writer history inside the bounds (titles, declared/filled count, formats d=1..6, boxes, boundary numbers 99999/100000/199998/1e6+, extreme coordinates). Every maximal history TLC found is executed on the real writer (with crash injection in close()), and the recorded bytes + reader results are checked by TLC against the specification reader and the C13 predicates; seeded random files (up to 300 records, rounding-boundary floats with exact admissible sets) go through the same trace specification.',
         'Trusts: TLC; the projection in harness/drivers/grofile.py (Fraction-exact decimal images of floats); bounds of MC_GroFile.tla; pre-formatted string records and setters after the first record are outside the modelled domain.',
         'DESIGN 3 C13'),
 'C14': ('grofile',
         'same GroFile.tla model: every writer state is a crash point, close() split in its three file operations, all byte truncations of every complete file checked by TLC; crash points and all prefixes reproduced on the real code and validated by TLC trace validation',
         'TLC proves CrashRejected/CrashAfterBox/TruncationSafe for every crash point and every proper prefix of every file of the bounds. On the implementation: each history is cut after every writeline and after 0/1/2 writes inside close() (write-counting proxy), and every proper byte prefix of one file per layout class and of random files is opened with the real reader; TLC validates the recorded verdicts (prefix ending at or before the box line => rejected; accepted prefix => exactly the records of the complete file).',
         'Trusts: TLC; buffered data is assumed to reach the disk in order (a crash yields a byte prefix or an operation-boundary state); bounds of MC_GroFile.tla.',
         'DESIGN 3 C14'),
}

ENGINES = {
 'grofile': ('harness/drivers/grofile.py', 'GroFormat.tla + GroFile.tla + MC_GroFile.tla + Trace_GroFile.tla: exhaustive TLC, history replay with crash injection, batched trace validation'),
}


XG_NOTE = 'Trusts: TLC integer arithmetic; harness conversion lattice->nm (0.125 nm, exact) and the stated tolerances; generic random inputs keep sin(theta) >= 1e-3 at every anchor or are collinear as a user would write them (the band in between is not generated). Expected values never come from gaddlemaps code.'
CHECKS.update({
 'C01': ('xmap-geom',
         'XMapGeom.tla: exact integer lattice model of anchors / nearest-anchor tie sets / frames; TLC proves FrameLemma (restore o project = law, generic and every collinear completion) for every enumerated case and emits the expected law points, which are replayed on the real ExchangeMap; random float references validated by TLC against Trace_XMapGeom.tla',
         'Exhaustive within bounds: every placement of a 3-atom reference around the cube centre (all directions, all exactly collinear lines) x 4 bond graphs (thorough: atom 1 anywhere, 4-atom graphs) x 27 target atoms x scales; TLC computes a + s(p-a) and the nearest-anchor tie sets exactly, the real map must agree to 1e-9 nm and report a nearest atom with two bonds. Random trees/cyclic graphs of 3-40 atoms (generic, decimal-collinear, axis-aligned), 1-60 targets, s in (0,2] are recorded as traces (distance ranks, law booleans) and accepted only if the spec logic admits them.',
         XG_NOTE, 'DESIGN 3 C01'),
 'C02': ('xmap-geom',
         'XMapGeom.tla RigidLemma (nearest sets invariant, rotated law point for generic anchors, axis invariants for collinear anchors / 2-atom / 1-atom references) model-checked over the 24 lattice rotations x translations; expected images replayed on the real ExchangeMap with lattice and random SO(3) motions; random references validated with Trace_XMapGeom.tla',
         'TLC proves the rigid-motion lemma for every case of the bounds and every lattice motion; on the real code every degenerate case and a seeded sample (thorough: all) of generic ones is mapped after lattice rotations/translations and random SO(3) rotations with translations up to 50 nm: generic anchors must give g(map(ref)) to 1e-8 nm, collinear anchors and two-atom references must keep distance, axial coordinate and radial distance, one-atom references the distance.',
         XG_NOTE, 'DESIGN 3 C02'),
 'C03': ('xmap-geom',
         'XMapGeom.tla: frame triples (deps) and exact squared distances from TLC; FrameLemma (orthogonal frames => distances scale with s) model-checked; replay on the real ExchangeMap under Gaussian and lattice deformations with one-atom-at-a-time displacement; random references validated with Trace_XMapGeom.tla (clause local uses deps computed by the spec from the logged bond graph)',
         'For every enumerated case and scale the real map is applied to deformed conformations: each mapped atom must be at s x its construction distance from its anchor (1e-9), atoms of one anchor keep mutual distances x s, and displacing any reference atom outside deps[t] = (anchor, two lowest-numbered bonded atoms) leaves atom t unchanged to 1e-12 nm; displacements inside deps are counted to show non-vacuity.',
         XG_NOTE, 'DESIGN 3 C03'),
})
ENGINES['xmap-geom'] = ('harness/drivers/xmapgeom.py', 'XMapGeom.tla + MC_XMapGeom.tla + Trace_XMapGeom.tla: exhaustive lattice cases with exact expected values replayed on ExchangeMap; random float references as traces')

CHECKS['C12'] = ('groview',
  'GroView.tla: finite-state model of the residue view (one-pass parse into templates + run-length list, offsets, shared cursor, two live iterators, index/negative index/slice with Python semantics) model-checked exhaustively: parse = maximal runs, every access returns the designated run whatever the history; real SystemGro access histories validated by TLC against Trace_GroView.tla',
  'TLC explores every file of <= 4 (thorough 5) atoms over residue keys with equal names/different numbers and every reachable combination of iterator positions and last access (invariants ParseIsRuns, Tiling, AccessIsAbs, IterIsAbs, CursorInFile). On the implementation every such small file gets a systematic battery (all indices incl. out of range, 11 slices, two interleaved iterators) and random files up to 400 residues (with velocities, repeated/alternating kinds, colliding resid+name strings) get random histories of up to 200 accesses; for each access the file positions actually returned (decoded from unique atom data) and field-by-field equality with the written records are validated by TLC.',
  'Trusts: TLC; synth.py independent .gro writer; positions decoded from atom numbers (< 100000 atoms).', 'DESIGN 3 C12')
ENGINES['groview'] = ('harness/drivers/groview.py', 'GroView.tla + MC_GroView.tla + Trace_GroView.tla')

CHECKS['C17'] = ('frames',
  'Frames.tla: the 24 lattice rotations as (axis, angle) cases with exact integer matrices (Rodrigues with rational cos/sin) and the frames of lattice point triples; TLC proves the group laws (orthogonal, det +1, axis fixed, trace, R(-t)=R(t)^T, composition, axis-length independence) and the frame laws (orthogonal, right handed, first vector p0->p2, normal to the plane, every collinear completion) and emits the exact expected values, replayed on rotation_matrix / calcule_base over scales; random inputs as relation-boolean traces validated with Trace_Frames.tla',
  'Exact on the lattice: 48+48+11 rotation cases x 5 axis scales (1e-6..1e6) must reproduce the TLC matrix (either handedness convention, but consistently), 2 100 point triples x 4 scales (1e-3..1e3 nm) incl. every exactly collinear direction of the cube and a coincident middle point must give the TLC frame (generic) or an orthonormal right-handed completion (collinear). Random axes/angles/triples are measured (1e-12 tolerances) and the measured relations are checked by TLC against what the property demands.',
  'Trusts: TLC integer arithmetic; numpy for the measured relations (norms, determinants) in the harness.', 'DESIGN 3 C17')
CHECKS['C19'] = ('pbc',
  'PBC.tla: round-based wrap (s = d B^-1, s -= round(s), d = s B) in exact integer/rational arithmetic vs the true minimum over all images; TLC proves MinImage/NotLonger (orthorhombic), Symmetric and ShiftInvariant for all lattice shifts in [-3,3]^3 (orthorhombic and triclinic) and emits exact squared distances replayed on Residue.distance_to (residue/point/reverse/inverse-flag variants); random float boxes as traces validated with Trace_PBC.tla',
  'Every (box, p, q) of the lattice bounds (separations up to several boxes, ties at half a box excluded as in the property) is evaluated by the real distance_to in four variants and compared with sqrt of the TLC integer (1e-9); random orthorhombic/triclinic boxes with multi-atom residues check minimum image against an independent per-axis search, <= plain distance, symmetry, six random lattice shifts on either argument, and the inverse flag; TLC decides from the recorded booleans which are demanded for which box kind.',
  'Trusts: TLC; the per-axis brute-force minimum in the harness for random orthorhombic boxes.', 'DESIGN 3 C19')
ENGINES['frames'] = ('harness/drivers/frames.py', 'Frames.tla + MC_Frames.tla + Trace_Frames.tla')
ENGINES['pbc'] = ('harness/drivers/pbc.py', 'PBC.tla + MC_PBC.tla + Trace_PBC.tla')

CHECKS['C15'] = ('itp',
  'Itp.tla token-level model of .itp files (Abs view by section in order of first appearance; topology = name, atoms, bond set over bonds/constraints/pairs translated from file numbers to positions); real read_topology / MoleculeTop / are_connected / copy results validated by TLC against Trace_Itp.tla; connectivity of large graphs decided by a certificate (component labels + spanning forest) that TLC verifies',
  'Generated topologies (1..40 atoms: trees, forests, cyclic graphs; gapped increasing numbering; bonds split and repeated over bonds/constraints/pairs blocks; interleaved comments, blank and # lines, varied spacing) and the 13 shipped topologies that fit are read by the real code and TLC checks molecule name, atoms in file order, the exact bond set, symmetry, and again after an ItpFile write; graphs of up to 3000 atoms (chains, trees, forests, cycles) check the bond set and that are_connected answers true exactly when the certified component count is one; a copy must be equal and stay independent under bond/name/resid/name edits.',
  'Trusts: TLC; the independent tokenizer/renderer and the union-find style labelling in the harness (the certificate itself is verified by TLC).', 'DESIGN 3 C15')
CHECKS['C16'] = ('itp',
  'Itp.tla: TLC proves for every file of <= 4 (5) lines over a palette of line shapes that the single-pass reader equals the Abs view, that write-then-read preserves the view and that a second write is identical (PassIsView, RoundTrip, Conservation); every such file rendered to text, random generic files, generated topologies and the shipped topologies go through the real ItpFile read/write/read/write/read and the three observed views are validated by TLC against Trace_Itp.tla',
  'Exhaustive over the palette (repeated section names, content lines with none / empty / several trailing comments, an empty comment followed by a real one, lone ";", comment-only, blank and preprocessor lines, missing final newline) within the length bound; random files add commented-out directives, comments containing ";", "[x]" and "a=b" tokens; section names in order of first appearance, content lines token by token and comment/preprocessor lines in position must be identical after each round trip.',
  'Trusts: TLC; harness renderer keeps a blank after each separating ";" and never indents "#" lines; the three biggest shipped files (DNA, > 1200 lines) are checked on their first 1000 lines.', 'DESIGN 3 C16')
ENGINES['itp'] = ('harness/drivers/itp.py', 'Itp.tla + MC_Itp.tla + Trace_Itp.tla')

CHECKS['C18'] = ('aliasing',
  'Aliasing.tla: heap-of-cells model of copies, deep copies and live views (atom by index/iteration, residue of a molecule) with assignments and rigid operations; TLC proves Isolation, DeepIsolation, WriteThrough and the write frame for every history of the bounds; every maximal TLC history and TLC-simulated histories of length 40 are replayed on real Molecule/Residue/Atom objects comparing every slot of every live object with the cell value after each step',
  'All histories of up to 3 (thorough 4) operations over {copy, deep_copy, copy stored by an Alignment, atom view, residue view, assign positions/velocities/ids/resids/names, move, move_to, rotate} on single- and two-residue molecules handed out by a System (11k histories), plus simulated 40-step histories with up to 6 live objects: after each operation every field of every atom of every live object and every geometric centre must equal what the cell model says (changed exactly through the written object, its views and its parent), rigid operations must preserve all pairwise distances and move the centre by exactly the displacement / to the point / not at all, and the System must still hand out the molecule as in the file.',
  'Trusts: TLC; names are only assigned where the property promises isolation (families of deep copies) and through a molecule or its atom views.', 'DESIGN 3 C18')
ENGINES['aliasing'] = ('harness/drivers/aliasing.py', 'Aliasing.tla + MC_Aliasing.tla: exhaustive + simulated histories replayed with full state comparison')

CHECKS['C07'] = ('moveatom',
  'MoveAtom.tla: the bond-restoring traversal as a state machine (frontier, claimed, moved, exact bonds, traversal tree), Abs = any frontier order, Alg = LIFO stack; TLC checks MovedOnce/TreeExact/TraversalExact/NeverTwice for all labelled trees and small cyclic graphs x every root x every processing order; every enumerated case and random graphs up to 60 atoms are executed on the real move_mol_atom with a recording bond table and validated by TLC against the Abs layer (Trace_MoveAtom.tla)',
  'Exhaustive: all labelled trees with <= 6 (thorough 7) atoms and all connected cyclic graphs with <= 4 (5) atoms, every moved atom, every order in which frontier edges can be processed. On the implementation each (graph, root) runs with generic coordinates, a random displacement (tiny to large), bond tables that agree or disagree with the geometry, ascending and permuted neighbour order: the moved atom is displaced by exactly the vector, the input array is intact, the output finite, each re-placed atom was on the frontier, the whole component was re-placed once, every bond (trees) / every traversal-tree bond (cycles) is exact to 1e-9 relative; random draws of find_atom_random_displ must be finite and perpendicular to the bond / line / plane of the first neighbours.',
  'Trusts: TLC; the list of cases is written as a literal TLA+ set by the harness (Pruefer enumeration; cross-checked once against the kSubset enumeration of MC_MoveAtom.tla: 8 568 cases for the quick bounds); exactness of bonds measured with numpy norms.', 'DESIGN 3 C07')
CHECKS['C08'] = ('chi2',
  'Chi2.tla: reference definition as the set of admissible <<S, k>> (sum of squared distances, penalty exponent) under nearest-atom ties vs the implementation-shaped three code paths; TLC checks AlgInAbs, NonNegative, PathsAgree and invariance under lattice isometries / relabelling for every case; all cases with their exact <<S, k>> sets are evaluated on the real Chi2Calculator; 40x25-atom grid cases and generic floats validated as traces (Trace_Chi2.tla)',
  'Exhaustive within bounds: fixed and mobile sequences of <= 3 lattice points with equidistant pairs, every restraint list of length <= 2 (thorough 3) including duplicated fixed atoms and all-fixed-restrained (91k cases quick). The real calculator is built with a different mobile array, evaluated on another configuration first and then twice on the case; the float must equal S h^2 1.1^k for an admissible pair (1e-12). Random sets on a 256-level grid keep TLC exact for 1..40 x 1..25 atoms with five restraint shapes and several evaluations per calculator; generic floats check rigid-motion, relabelling and restraint-count invariance.',
  'Trusts: TLC; the decomposition value -> <<S, k>> candidates in the harness (1e-11); restraint indices in range.', 'DESIGN 3 C08')
ENGINES['moveatom'] = ('harness/drivers/moveatom.py', 'MoveAtom.tla + generated MC_MoveAtomCases + Trace_MoveAtom.tla')
ENGINES['chi2'] = ('harness/drivers/chi2.py', 'Chi2.tla + MC_Chi2.tla + Trace_Chi2.tla')

CHECKS['C09'] = ('montecarlo',
  'MonteCarlo.tla: the search loop as a state machine (Start, Choose, Evaluate, JudgeBetter, JudgeWorse, Stop) with the loop bookkeeping (held, heldE, minE, counter); MC_MonteCarlo.tla proves with TLC that the bookkeeping equals what the property demands as functions of the history alone (last accepted configuration, lowest accepted measure, consecutive steps without a new lowest measure) and that the search stops exactly at the budget; every terminal TLC behaviour is imposed on the real _minimize_molecules as a scripted schedule and compared, genuine runs are validated by TLC against Trace_MonteCarlo.tla, which infers counter and minimum itself',
  'Exhaustive: measures 1..3 (ties with the held and with the lowest measure), budgets <= 2 (thorough 3), type sets, every draw outcome: 2.5e5 states, ~1e4 terminal behaviours, each replayed on the real loop with a scripted overlap measure, scripted kind choice and adverse/favourable uniform draws (real proposals): judge inputs, verdicts, number of evaluations consumed and the returned array must equal the TLC behaviour. Genuine seeded runs (mobile molecules 1..25 atoms as random trees / cyclic graphs, 1..40 fixed atoms, all type subsets, budgets 1..400 (thorough 2000), five restraint shapes) are recorded through wrappers of Chi2Calculator / accept_metropolis / move_mol_atom / numpy.random.choice / rand: each proposal must be a translation / rotation about the centroid / bond-keeping single-atom move OF THE HELD configuration, the judge must receive the held measure, worse proposals follow the observed draw against 0.01*E_held/E_new, and Return must come exactly when the inferred counter reaches the budget and carry the last accepted configuration. accept_metropolis is additionally called directly (per-draw rule and 6-sigma frequencies).',
  'Trusts: TLC; harness/project.py relation measurements (1e-9 / 1e-11); the loop resolves the wrapped names at call time (otherwise exit 2, observation channel lost); termination is not claimed (genuine runs are cut after 40 x budget + 3000 steps and the prefix validated); NaN measures are outside the domain.', 'DESIGN 3 C09')
ENGINES['montecarlo'] = ('harness/drivers/montecarlo.py', 'MonteCarlo.tla + MC_MonteCarlo.tla + Trace_MonteCarlo.tla: exhaustive TLC, scripted-schedule replay on the real loop, trace validation of genuine runs')
CHECKS['C06'] = ('alignment',
  'Alignment.tla: align_molecules as a state machine over shape levels (identical / translated / rigid / bonds kept / anything) of the caller\'s molecules and the Alignment\'s copies, with Promise() = the property\'s statement; MC_Alignment.tla proves Kept, CallerUntouched, LargerOnlyTranslated, MobileKeepsStructure, OnlyMobileWritten for every size relation, type subset and schedule; real Alignment.align_molecules runs are recorded (setter copies, optimiser entry, every Monte-Carlo step through the C09 observer, write-back, final measured levels, repetition with the same seed) and validated by TLC against Trace_Alignment.tla',
  'Every configuration class TLC enumerates (sizes 1..3 (4) x 1..3 (4), 7 type subsets, tree/cyclic) is run on real molecules built through the real parsers, plus 500 (5000) random pairs of 1..40 atoms (size classes <, =, >, one-atom end, one-atom start; restraints; hydrogens; re-assignment of start/end through the setters; a degenerate star whose displacement direction is 0/0; step factors 1..10 (50)): the specification decides which molecule must be mobile, that the fixed rows are the larger molecule, that each accepted move is a translation / rigid motion / bond-keeping move, that the result is written to the mobile copy only, and that the final levels measured against the caller\'s conformations satisfy Promise (bonds to 1e-9, all pairwise distances when single-atom moves are off, caller untouched bit for bit, finite, names/order), bit-identical when repeated with the same seed.',
  'Trusts: TLC; harness/project.py; runs cut by the step cap (300 x budget + 30000 steps) are skipped and counted; larger molecule has a bond and a non-hydrogen atom, mobile molecule connected.', 'DESIGN 3 C06')
ENGINES['alignment'] = ('harness/drivers/alignment.py', 'Alignment.tla + MC_Alignment.tla + Trace_Alignment.tla; reuses the montecarlo observer')

CHECKS['C10'] = ('restraints',
  'Restraints.tla: Route (role swap + hydrogen filter; Abs = pairs in atom identities, Alg = re-based row indices), the splitter / protein-guesser predicates (Covers, InRange, Monotone, same sequence position) and the Manager option routing (Rejects / Delivered composed with Route); MC_Restraints.tla enumerates every case of four sub-models, TLC proves RouteRefines / SplitRefines / ProteinRefines and emits the expected outcome of every case, replayed on the real Alignment / Manager with a recording stub optimiser (atoms identified by coordinates); the guessers\' observed lists and random larger routings are validated by TLC against Trace_Restraints.tla',
  'Route: every (nS, nE <= 3 (4), hydrogen mask of the fixed molecule, restraint list of length <= 2 incl. duplicates, ignore_hydrogens) - 3 058 (9e4) cases - through the real align_molecules: optimiser called unless the end has one atom, fixed molecule = larger (ties: start), fixed rows = all atoms / all non-hydrogens, delivered pairs = the user\'s atoms in order minus filtered hydrogens, mobile rows = whole mobile molecule, default deformation types. Splitter: all 40 x 40 residue lengths x 2 offset pairs on the real guess_residue_restrains; protein guesser: all pairs of sequences of <= 3 (4) residues of 1..3 atoms and random sequences up to 12 residues incl. unequal counts (IOError demanded), also routed through align_molecules(None). Manager: 2 complete species (one with swapped roles) + an incomplete one + unloaded solvent, every shape of the three option dictionaries (absent / None / valid / malformed per species, unknown or incomplete species name, dictionary omitted) and pre-parsed restraints passed reordered or for a subset: rejected before any alignment, or each named species aligned once with its own restraints, hydrogen flag and deformation types (4 000 sampled in quick, all 2.6e5 in thorough).',
  'Trusts: TLC; decoding of optimiser arguments by exact coordinate match (all atoms at distinct lattice points; start and end have different shapes); restraint indices non-negative and in range; hydrogens are atoms named H<digits>.', 'DESIGN 3 C10')
ENGINES['restraints'] = ('harness/drivers/restraints.py', 'Restraints.tla + MC_Restraints.tla (four modes) + Trace_Restraints.tla')

CHECKS['C11'] = ('recognise',
  'Recognise.tla: Abs = file-ordered list of the instances of the loaded species, Alg = the implementation (residue-kind stream with in-place consumption, first-occurrence search, greedy scan with block bookkeeping, sort by start, instance generation); TLC proves AlgIsAbs, ErrorIffAbsent, Tiling and ConsumedExactly for every file and loading order of the bounds and emits the expected list after each load, replayed on the real System built from files the harness writes; random files of up to 300 molecules validated by TLC against Trace_Recognise.tla',
  'Exhaustive: every file of <= 4 (thorough 6) molecules over A (one residue), B (two different residues), C (the same residue kind twice), D (same residue name as A, other atom count) and an unloaded solvent, every permutation of every subset of the four topologies as loading order plus orders that load a species twice: 6.3e4 (1.6e6) behaviours; each replayed on the real System (quick: 30 000 sampled): after every add_ftop the molecules handed out (species, atom numbers = file positions, contiguous whole residues, atom names vs topology, coordinates vs file), the refusal with IOError exactly when no unconsumed instance exists with the list unchanged, and len / composition / System[i] for all i in -n..n-1 / IndexError outside / ten slices agreeing with the iteration. Random files: 2..6 species with 1..4 residues (repeated kinds, shared residue names with different atom counts), blocks and interleavings, unloaded species, repeated loads.',
  'Trusts: TLC; the independent .gro/.itp writers of harness/synth.py and the atom-number decoding of the files the harness wrote; species have pairwise disjoint residue signatures, consecutive residues differ in residue number.', 'DESIGN 3 C11')
ENGINES['recognise'] = ('harness/drivers/recognise.py', 'Recognise.tla + MC_Recognise.tla + Trace_Recognise.tla')

CHECKS['C04'] = ('xmap-calls',
  'XMapCalls.tla: aliasing model of ExchangeMap.__call__ (construction molecules referenced by the map, results = new objects whose conformation is the uninterpreted image F(r, t, a) of the argument conformation under the construction-time snapshot, frames overwritten per call, rejected arguments change nothing); TLC checks ResultsAreImages, FramesOfLastCall, WriteFrame, RejectedChangesNothing, SnapFixed for every history of the bounds; every maximal history (sampled) and TLC-simulated histories of length 30 are replayed on a real ExchangeMap with the full abstract state compared after each operation',
  'Histories of 5 (thorough 6) operations over {build, call on either argument or on the construction reference, five kinds of rejected argument (target, an earlier result, non-molecules, homologues with one atom more / less), coordinate mutation of any object incl. construction molecules and earlier results, residue-number mutation of arguments and reference}: 7.7e4 (1e6) states; replayed on four reference/target species (3-atom chain, two-residue tree, ring with tail, 9/23 atoms two residues), four scale factors: after every operation every live object must have bit-identical coordinates if the model says it is untouched, results must equal (1e-12 nm) what a FRESH map built from pristine files returns for F(r, t, a), carry the argument\'s residue numbers and the target\'s atom/residue names and size, be new objects; rejected arguments must raise TypeError; numpy\'s global random state must not move during a call.',
  'Trusts: TLC; the fresh-map oracle (the property\'s own reference); residue numbers of arguments are varied on the coordinate side (gro_resid), as System does - Molecule.resids also rewrites the shared topology residue numbers, which the library treats as species identity (DESIGN 5, observation O1); generic conformations; equal residue counts of reference and target.', 'DESIGN 3 C04')
ENGINES['xmap-calls'] = ('harness/drivers/xmapcalls.py', 'XMapCalls.tla + MC_XMapCalls.tla: exhaustive + simulated histories replayed with full state comparison and a fresh-map oracle')

CHECKS['C05'] = ('extrapolate',
  'Extrapolate.tla: the Manager life cycle (AddEnd, CalcMaps, failing pre-flight that creates no file, single writer pass Visit / Skip / Close with a running atom counter; the manager stays usable afterwards) with the abstract file as one entry per written molecule; MC_Extrapolate.tla proves FileIsAbs, PrefixIsAbs, NoFileOnError, ErrorIffNotReady for every file and life cycle of the bounds; every terminal behaviour is executed on a real Manager and the re-read output (independent fixed-column parser, cut into molecules by target atom names) compared with TLC\'s file and validated with random systems and the shipped BMIM/BF4 box by TLC against Trace_Extrapolate.tla',
  'Exhaustive: files of <= 3 (thorough 4) molecules over P (3-atom reference, two residues), Q (2-atom reference), R (1-atom reference) and unloaded solvent, every life cycle of <= 4 (5) AddEnd / CalcMaps / failing Extrapolate operations before the successful one: 5 661 (1e5) terminal behaviours, 2 500 (40 000) executed with rectangular / triclinic boxes, three titles incl. blank, four scales. Random systems: 2..5 species (references of 1..9 atoms, 1..2 residues), up to 120 (400) molecules in blocks or interleaved, unloaded species, species without end, extrapolation attempted before maps exist and again after more ends were attached. For every written molecule TLC decides which input molecule must come next, the running atom number and the final count; the harness supplies per molecule: residue numbers = the input molecule\'s, positions = exchange_map(input molecule) to half a unit of the third decimal (references of < 3 atoms: distance / axial / radial coordinate), and title / box / declared count at close; an error must leave no file.',
  'Trusts: TLC; the independent fixed-column reader and the files written by the harness; the species\' exchange map as the reference for positions (the property\'s own wording; the map itself is C01-C04); equal residue counts of reference and target; the shipped box uses a 3-step-factor alignment.', 'DESIGN 3 C05')
ENGINES['extrapolate'] = ('harness/drivers/extrapolate.py', 'Extrapolate.tla + MC_Extrapolate.tla + Trace_Extrapolate.tla')

CHECKS['C20'] = ('cli',
  'Cli.tla: Abs = which species are discovered (all three files among the candidates, in the system, not explicit) and mapped (explicit + discovered - excluded); Alg = the three passes of sort_molecules over Python sets with ANY pending file picked next, so TLC explores every iteration order (every string-hash seed and listing order) and proves OrderIndependent and NeverReAddsExplicit for every candidate list of the bounds; each candidate list is realised as files and run through the real sort_molecules (shuffled listing orders in-process, several PYTHONHASHSEED values in sub-processes) and compared with the specification; random four-species directories run through main() in sub-processes are validated by TLC against Trace_Cli.tla, explicit-triple runs compared byte for byte with the library workflow',
  'Exhaustive: every subset of the six role files of two species + distractors (topology of a species not in the system, a clone with the same residue signature but other atom names, start-resolution coordinates, the system file itself, a file without parser), every explicit and excluded subset: 2 048 cases (thorough: every distractor subset), all iteration orders in the model; on the implementation each case runs under 2 shuffled listing orders in-process and (quick: a third of the cases) under 4 (12) hash seeds in sub-processes, explicit species given as copies under other paths or under the very same paths. 40 (240) main() runs on a four-species system (incl. a one-bead species), half with --auto (random candidate subsets, --exclude hitting a discovered species), requested / default output path, three scales, random hash seed: output must exist at the expected path and contain exactly the expected species; explicit-only runs must equal the library workflow (Manager.from_files, ends, align, maps, extrapolate) byte for byte for the same numpy seed.',
  'Trusts: TLC; the role decoding of the paths the harness created; at most one file per (species, role) among the candidates (two candidates for one role make the choice order dependent by design: warning in the code); alignment step factor lowered to 2 in both workflows.', 'DESIGN 3 C20')
ENGINES['cli'] = ('harness/drivers/cli.py', 'Cli.tla + MC_Cli.tla + Trace_Cli.tla; sub-process runner harness/drivers/cli_runner.py for PYTHONHASHSEED variation')

PENDING_REASON = 'check not built yet in this round (build in progress; see DESIGN.md Appendix B)'


def main():
    props = [json.loads(l) for l in open(os.path.join(VERIF, 'properties.jsonl'))]
    checks = []
    na = []
    for p in props:
        pid = p['id']
        if pid in CHECKS:
            eng, tech, text, note, ref = CHECKS[pid]
            checks.append({
                'property_id': pid,
                'quick_cmd': './check %s --tier quick' % pid,
                'thorough_cmd': './check %s --tier thorough' % pid,
                'evidence_file': '/verif/evidence/%s.json' % pid,
                'replay_cmd_template': './check %s --replay {path}' % pid,
                'engine': eng,
                'level_claimed': {'category': 'model_checking', 'text': text, 'design_ref': ref},
                'level_note': note,
                'technique': tech,
            })
        else:
            na.append({'property_id': pid, 'reason': NA.get(pid, PENDING_REASON)})
    used = sorted({c['engine'] for c in checks})
    man = {
        'version': 1,
        'setup_cmd': './tools/setup.sh',
        'hooks': {'guard': 'GADDLEMAPS_VERIF',
                  'enable': 'no source hooks exist: the harness observes the library from outside (wrapping module-level names, proxies on public attributes); the guard name is reserved',
                  'baseline_off_cmd': BASELINE, 'source_commits': [], 'add_only': True},
        'engines': [{'name': e, 'path': ENGINES[e][0],
                     'serves_properties': [c['property_id'] for c in checks if c['engine'] == e],
                     'kind_free_text': ENGINES[e][1]} for e in used],
        'checks': checks,
        'notes': 'All checks: ./check <ID> --tier quick|thorough; exit 0 held / 1 violation (VIOLATION line + replay file) / 2 machinery failure. Known and fixed findings: known_findings.json. Seeded breaking changes used to test the checks: seeded/.',
        'not_applicable': na,
    }
    with open(os.path.join(VERIF, 'MANIFEST.json'), 'w') as fh:
        json.dump(man, fh, indent=1)
    print('MANIFEST.json: %d checks, %d not claimed' % (len(checks), len(na)))


NA = {}

if __name__ == '__main__':
    main()
