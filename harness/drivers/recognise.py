"""Engine `recognise` (C11): System recognises exactly the molecule instances present, in file order.

spec/Recognise.tla: Abs = file-ordered list of the instances of the loaded species; Alg = the
implementation (kind stream with in-place consumption, first-occurrence search, greedy scan with
block bookkeeping, sort, instance generation).  MC_Recognise.tla: TLC proves AlgIsAbs,
ErrorIffAbsent, Tiling, ConsumedExactly for every file of <= 4 (6) molecules over 4 loadable
species + solvent and every loading order; every behaviour (file, order, expected list after each
load) is replayed on the real System built from files written by the harness; random files of up
to 300 molecules are recorded and validated by TLC against Trace_Recognise.tla.
"""
import json
import os
import random
import re
from collections import Counter
from multiprocessing import Pool

import numpy as np

from .. import common, tlc, tlaval, synth
from ..traces import validate_batches

MC_CFG = """SPECIFICATION MCSpec
CONSTANTS
  MaxMols = %d
  Repeats = %s
  WithClone = %s
  MaxOrder = %d
INVARIANT AlgIsAbs
INVARIANT ErrorIffAbsent
INVARIANT Tiling
INVARIANT ConsumedExactly
CHECK_DEADLOCK FALSE
"""
TRACE_CFG = "SPECIFICATION TraceSpec\nINVARIANT Accepted\nCHECK_DEADLOCK FALSE\n"

# residue kinds: kind -> (resname, atom names); signatures (resname, atom count) are pairwise distinct
KINDS = {'a': ('RA', ['A1', 'A2']), 'b': ('RB', ['B1']), 'c': ('RC', ['C1', 'C2', 'C3']), 'd': ('RD', ['D1', 'D2']),
         'e': ('RA', ['A1', 'A2', 'A3']), 'w': ('WAT', ['OW']),      # kind e: the atoms of kind a plus one (ALA / ALA+OXT)
         'ax': ('RA', ['Z1', 'Z2'])}        # the clone: signature of kind 'a', other atom names
PATTERN = {'A': ['a'], 'B': ['b', 'c'], 'C': ['d', 'd'], 'D': ['e'], 'W': ['w'], 'X': ['ax']}


class Layout:
    """a coordinate file written by the harness: molecules -> residues -> atoms, with the tables needed
    to decode what the System hands out"""

    def __init__(self, workdir, tag, mols, pattern, kinds, with_vel=False):
        self.mols, self.pattern, self.kinds = mols, pattern, kinds
        os.makedirs(workdir, exist_ok=True)
        self.gro = os.path.join(workdir, tag + '.gro')
        recs = []
        self.res_of_atom = {}       # atom number -> residue index (0-based)
        self.atoms_of_res = []      # residue index -> [atom numbers]
        self.pos = {}
        nr = 0
        rid = 0
        for sp in mols:
            for kind in pattern[sp]:
                rid += 1
                resname, names = kinds[kind]
                atoms = []
                for an in names:
                    nr += 1
                    p = (round(0.001 * (nr % 9000) + 0.1, 3), round(0.002 * (nr % 4000), 3), round(0.5 + 0.003 * (rid % 3000), 3))
                    recs.append((rid, resname, an, nr, p))
                    self.res_of_atom[nr] = len(self.atoms_of_res)
                    self.pos[nr] = p
                    atoms.append(nr)
                self.atoms_of_res.append(atoms)
        synth.write_gro(self.gro, recs, box=(12.0, 12.0, 12.0))
        self.itp = {}
        for sp, pat in pattern.items():
            path = os.path.join(workdir, '%s_%s.itp' % (tag, sp))
            atoms = []
            # in every second layout a species whose consecutive residues differ in NAME carries one residue number for all of
            # them in its topology (HEAD 1 / TAIL 1): a residue boundary is a change of name or of number
            one_number = len(mols) % 2 == 1 and all(kinds[a][0] != kinds[b][0] for a, b in zip(pat, pat[1:]))
            for r, kind in enumerate(pat, 1):
                resname, names = kinds[kind]
                atoms += [(an, resname, 1 if one_number else r) for an in names]
            synth.write_itp(path, sp, atoms, [(i, i + 1) for i in range(1, len(atoms))])
            self.itp[sp] = path
        self.top_names = {sp: [an for kind in pat for an in kinds[kind][1]] for sp, pat in pattern.items()}


def observe(system, lay):
    """the molecules the System hands out -> ([sp, first residue, n residues], names ok, coords ok, ids per molecule)"""
    out, ids = [], []
    names_ok = coords_ok = True
    for mol in system:
        aid = [a.atomid for a in mol]
        res = sorted({lay.res_of_atom.get(i, -1) for i in aid})
        contiguous = aid == list(range(aid[0], aid[0] + len(aid))) and res == list(range(res[0], res[0] + len(res))) \
            and aid == [x for r in res for x in lay.atoms_of_res[r]]
        out.append([mol.name, res[0] if contiguous else -1, len(res)])
        ids.append(aid)
        if [a.name for a in mol] != lay.top_names.get(mol.name):
            names_ok = False
        pos = mol.atoms_positions
        if not all(tuple(round(float(x), 3) for x in pos[k]) == lay.pos.get(i) for k, i in enumerate(aid)):
            coords_ok = False
    return out, names_ok, coords_ok, ids


def access_checks(system, ids, listed):
    """len / composition / indexing / slicing agree with the iteration just observed"""
    n = len(ids)
    r = {'len': len(system) == n,
         'composition': dict(system.composition) == dict(Counter(e[0] for e in listed))}
    ok = True
    for i in list(range(-n, n)):
        try:
            m = system[i]
            ok = ok and [a.atomid for a in m] == ids[i]
        except common.CaseTimeout:
            raise
        except Exception:
            ok = False
    for i in (n, -n - 1, n + 3, -n - 2, -2 * n, -2 * n - 1, -n - 3, 2 * n):
        try:
            system[i]
            ok = False
        except IndexError:
            pass
        except common.CaseTimeout:
            raise
        except Exception:
            ok = False
    # a molecule the caller got by index and worked on (moved, atoms renumbered) is the caller's: asking for the same
    # instance again gives the molecule of the file
    for i in ([0, -1, n // 2] if n else []):
        try:
            m = system[i]
            before = m.atoms_positions.copy()
            m.move(np.array([3.0, -2.0, 1.0]))
            m.atoms_ids = [9000 + k for k in range(len(m))]
            again = system[i]
            ok = ok and again is not m and [a.atomid for a in again] == ids[i] and bool(np.array_equal(again.atoms_positions, before))
            ok = ok and [a.atomid for a in system[i:i + 1][0]] == ids[i] if i >= 0 else ok
        except common.CaseTimeout:
            raise
        except Exception:
            ok = False
    r['index'] = ok
    ok = True
    for sl in (slice(None), slice(1, None), slice(None, -1), slice(None, None, 2), slice(1, n, 3), slice(None, None, -1),
               slice(-2, None), slice(n, None), slice(2, 1), slice(-1, 0, -2), slice(None, None, -2), slice(None, None, -3),
               slice(n - 2, None, -2), slice(None, 0, -2), slice(-1, None, -4)):
        try:
            got = [[a.atomid for a in m] for m in system[sl]]
            ok = ok and got == ids[sl]
        except common.CaseTimeout:
            raise
        except Exception:
            ok = False
    # a suspended iteration must not depend on other reads made in the meantime
    try:
        it = iter(system)
        got = []
        for k in range(n):
            got.append([a.atomid for a in next(it)])
            if n:
                system[-1]
                system[k // 2]
                if k % 2:
                    for _m in system:
                        break
        ok = ok and got == ids
    except common.CaseTimeout:
        raise
    except Exception:
        ok = False
    r['slices'] = ok
    return r


# --------------------------------------------------------------------------- TLC behaviours
def _parse_chunk(blks):
    out = []
    for b in blks:
        st = tlaval.parse_state(b)
        if st.get('pc') != 'done':
            continue
        out.append({'mols': list(st['cfg']['mols']), 'order': list(st['cfg']['order']),
                    'obs': [{'sp': o['sp'], 'ok': o['ok'], 'list': [[e['sp'], e['first'], e['n']] for e in o['list']]} for o in st['obs']]})
    return out


def behaviours_from_dump(path):
    with open(path) as fh:
        text = fh.read()
    blks = [b.strip() for b in re.split(r'^State \d+:\s*$', text, flags=re.M)[1:] if 'pc = "done"' in b]
    with Pool(16) as pool:
        parts = pool.map(_parse_chunk, [blks[i::16] for i in range(16)])
    return [c for p in parts for c in p]


def _replay(args):
    groups, workdir, wid = args
    common.import_repo()
    from gaddlemaps.components import System
    bad = []
    n = 0
    for gi, (mols, behs) in enumerate(groups):
        lay = Layout(os.path.join(workdir, 'w%d' % wid), 'f%d' % gi, mols, PATTERN, KINDS)
        for beh in behs:
            n += 1
            why = None
            detail = {}
            try:
              with common.Guard(60):
                system = System(lay.gro)
                prev = []
                for step, o in enumerate(beh['obs']):
                    try:
                        if (step + len(beh['mols'])) % 3 == 0:
                            with open(lay.itp[o['sp']]) as fh_top:        # an opened file instead of a path
                                system.add_ftop(fh_top)
                        elif (step + len(beh['mols'])) % 3 == 1:
                            from gaddlemaps.components import MoleculeTop    # an already parsed topology
                            system.add_molecule_top(MoleculeTop(lay.itp[o['sp']]))
                        else:
                            system.add_ftop(lay.itp[o['sp']])
                        ok = True
                    except OSError:
                        ok = False
                    listed, names_ok, coords_ok, ids = observe(system, lay)
                    if ok != o['ok']:
                        why = 'refused_iff_no_matching_run'
                    elif listed != o['list']:
                        why = 'instances_differ_from_specification'
                    elif not names_ok:
                        why = 'atom_names'
                    elif not coords_ok:
                        why = 'coordinates'
                    else:
                        acc = access_checks(system, ids, listed)
                        if not all(acc.values()):
                            why = 'access:' + ','.join(k for k, v in acc.items() if not v)
                    if why:
                        detail = {'step': step + 1, 'loading': o['sp'], 'observed': listed, 'expected': o['list'], 'ok': ok}
                        break
                    prev = listed
            except Exception as exc:
                import traceback
                why = 'exception:' + type(exc).__name__
                detail = {'text': traceback.format_exc()[-600:]}
            if why:
                bad.append((beh, {'check': 'recognise:' + why, 'loads': len(beh['order'])}, detail))
    return bad, n


# --------------------------------------------------------------------------- random traces
def _work_random(args):
    items, part, workdir = args
    common.import_repo()
    from gaddlemaps.components import System
    with open(part, 'w') as fh:
        for tid, seed in items:
            rng = np.random.default_rng(seed)
            nsp = int(rng.integers(2, 7))
            kinds, pattern = {}, {}
            kid = 0
            for s in range(nsp):
                sp = 'S%d' % s
                nres = int(rng.choice([1, 1, 2, 3, 4]))
                own = []
                for _ in range(int(rng.integers(1, nres + 1))):
                    kid += 1
                    k = 'k%d' % kid
                    # same resname with another atom count is a distinct signature
                    resname = 'R%02d' % (kid if rng.random() < 0.7 else max(1, kid - 1))
                    natoms = int(rng.integers(1, 6)) + (6 if resname != 'R%02d' % kid else 0)
                    kinds[k] = (resname, ['%s%d' % (chr(65 + kid % 26), i + 1) for i in range(natoms)])
                    own.append(k)
                pattern[sp] = [own[int(rng.integers(0, len(own)))] for _ in range(nres)]
                pattern[sp][0] = own[0]
            sig = [(kinds[k][0], len(kinds[k][1])) for k in kinds]
            if len(set(sig)) != len(sig):
                for i, k in enumerate(kinds):
                    kinds[k] = ('Q%02d' % i, kinds[k][1])
            nm = int(rng.integers(1, 301))
            weights = rng.random(nsp) + 0.05
            block = rng.random() < 0.5
            mols = []
            while len(mols) < nm:
                s = int(rng.choice(nsp, p=weights / weights.sum()))
                mols += ['S%d' % s] * (int(rng.integers(1, 12)) if block else 1)
            mols = mols[:nm]
            unloaded = set(['S%d' % s for s in range(nsp) if rng.random() < 0.25])
            loadable = [s for s in pattern if s not in unloaded]
            order = [str(x) for x in rng.permutation(loadable)]
            if order and rng.random() < 0.3:
                order.insert(int(rng.integers(0, len(order) + 1)), order[0])
            ev = []
            try:
              with common.Guard(120):
                lay = Layout(os.path.join(workdir, 'p%d' % os.getpid()), 't%d' % tid, mols, pattern, kinds)
                system = System(lay.gro)
                for sp in order:
                    try:
                        if rng.random() < 0.35:
                            from gaddlemaps.components import MoleculeTop
                            system.add_molecule_top(MoleculeTop(lay.itp[sp]))
                        else:
                            system.add_ftop(lay.itp[sp])
                        ok = True
                    except OSError:
                        ok = False
                    listed, names_ok, coords_ok, ids = observe(system, lay)
                    ev.append({'op': 'AddTop', 'sp': sp, 'ok': ok, 'list': listed, 'names': names_ok, 'coords': coords_ok})
                    acc = access_checks(system, ids, listed)
                    acc['op'] = 'Access'
                    ev.append(acc)
            except Exception as exc:
                import traceback
                ev.append({'op': 'Exception', 'type': type(exc).__name__, 'text': traceback.format_exc()[-600:]})
            fh.write(json.dumps({'tid': tid, 'cfg': {'pattern': pattern, 'mols': mols},
                                 'meta': {'seed': seed, 'molecules': nm, 'species': nsp, 'order': order}, 'ev': ev}) + '\n')
    return part


def check(run):
    common.import_repo()
    quick = run.quick
    # quick: files of <= 4 molecules, orders of <= 3 topologies incl. the clone X; thorough: files of <= 5 molecules with every
    # order over the four real species, and files of <= 4 molecules with every order of <= 4 topologies incl. the clone
    blist = [(4, 'TRUE', 'TRUE', 3)] if quick else [(5, 'TRUE', 'FALSE', 4), (4, 'TRUE', 'TRUE', 4)]
    behs = []
    for b in blist:
        res = tlc.run('MC_Recognise', MC_CFG % b, run.scratch, workers=16, timeout=6000, dump=True, coverage=True, heap='16g')
        tlc.check_ok(res, 'MC_Recognise', need_actions=('AddTop', 'Finish'))
        run.add_tlc(res, 'Recognise exhaustive: files of <= %d molecules over A, B (two residues), C (repeated residue), D, solvent; '
                         'loading orders (repeats %s, clone topology %s, <= %d topologies): AlgIsAbs, ErrorIffAbsent, Tiling, ConsumedExactly' % b)
        behs += behaviours_from_dump(res.dump_path)
        os.remove(res.dump_path)
    total = len(behs)
    if total < 1000:
        raise tlc.TLCError('vacuous Recognise run: %d behaviours' % total)
    rng = random.Random(run.seed)
    limit = 30000 if quick else 600000
    if total > limit:
        rng.shuffle(behs)
        behs = behs[:limit]
        run.note('%d of the %d TLC behaviours replayed (seeded sample); TLC checked all' % (limit, total))
    groups = {}
    for b in behs:
        groups.setdefault(tuple(b['mols']), []).append(b)
    glist = sorted(groups.items())
    workdir = os.path.join(run.scratch, 'files')
    with Pool(16) as pool:
        outs = pool.map(_replay, [(glist[i::16], workdir, i) for i in range(16)])
    for bad, _n in outs:
        for beh, sig, detail in bad:
            run.violation(sig, {'engine': 'recognise', 'spec': 'MC_Recognise', 'behaviour': beh, 'detail': detail})
    for b in behs:
        run.case((tuple(b['mols']), tuple(b['order'])), nontrivial=True)
    run.traces += len(behs)
    run.samples.append({'behaviour': behs[len(behs) // 2]})
    nrand = 60 if quick else 1200
    items = [(j + 1, run.seed * 1000003 + j) for j in range(nrand)]
    jobs = [(items[i::16], os.path.join(run.scratch, 'rc%d.ndjson' % i), workdir) for i in range(16) if items[i::16]]
    with Pool(16) as pool:
        parts = pool.map(_work_random, jobs)
    traces = {}
    for p in parts:
        with open(p) as fh:
            for line in fh:
                t = json.loads(line)
                traces[t['tid']] = t
    verdicts = validate_batches('Trace_Recognise', TRACE_CFG, parts, run.scratch, timeout=3000, run=run, heap='6g')
    nm = 0
    for tid, tr in traces.items():
        v = verdicts.get(tid)
        if v is None:
            raise tlc.TLCError('no verdict for trace %r' % tid)
        run.case(('r', tr['meta']['seed']), nontrivial=True)
        run.traces += 1
        nm += tr['meta']['molecules']
        if v[0] == 'ACC':
            continue
        e = tr['ev'][v[2] - 1] if 0 < v[2] <= len(tr['ev']) else {}
        if 'list' in e:
            e = dict(e, list=e['list'][:30])
        run.violation({'check': 'trace:' + v[3]}, {'engine': 'recognise', 'spec': 'Trace_Recognise', 'failing_clause': v[3],
                                                   'event': e, 'meta': tr['meta']})
    run.rule = ('cases = (coordinate file as a sequence of molecules, topology loading order): every behaviour of MC_Recognise '
                'replayed on the real System with the expected list after each load, and random files of up to 300 molecules')
    run.extra.update({'tlc_behaviours': total, 'replayed': len(behs), 'random_files': nrand, 'random_molecules': nm})
    run.assumptions += ['species have pairwise disjoint residue signatures (resname, atom count)',
                        'consecutive residues differ in residue number', 'whole molecules only']


def main_c11(run):
    if run.replay:
        common.import_repo()
        rec = json.load(open(run.replay))
        workdir = os.path.join(run.scratch, 'files')
        if 'behaviour' in rec:
            b = rec['behaviour']
            bad, _ = _replay(([(tuple(b['mols']), [b])], workdir, 0))
            for beh, sig, detail in bad:
                run.violation(sig, {'behaviour': beh, 'detail': detail})
        else:
            part = _work_random(([(1, rec['meta']['seed'])], os.path.join(run.scratch, 'r.ndjson'), workdir))
            v = validate_batches('Trace_Recognise', TRACE_CFG, [part], run.scratch, run=run).get(1)
            if v and v[0] != 'ACC':
                run.violation({'check': 'trace:' + v[3]}, {'failing_clause': v[3]})
        run.states, run.transitions = max(run.states, 1), max(run.transitions, 1)
        run.samples.append({'replayed': run.replay})
        return
    check(run)
