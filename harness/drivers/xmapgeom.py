"""Engine `xmap-geom` (C01 anchor-and-scale law, C02 rigid-motion equivariance, C03 locality).

TLC model-checks spec/XMapGeom.tla (FrameLemma, RigidLemma, HasAnchor) over every lattice case of
the tier's bounds and dumps, per case, the expected observables in exact integers (anchor sets,
nearest-anchor tie sets, law points in 1/8 lattice units, frame triples, collinear anchors,
invariants of 1-/2-atom references).  Every case is replayed on the real ExchangeMap, built from
real Molecule objects that come out of the real .itp/.gro parsers.
"""
import json
import math
import os
import random
import re
from multiprocessing import Pool

import numpy as np

from .. import common, tlc, tlaval, synth

H = 0.125   # lattice spacing in nm (dyadic: every lattice quantity is exact in doubles)

MC_CFG = """SPECIFICATION Spec
CONSTANTS
  Tier = "%s"
  Family = "%s"
  Graphs <- MC_Graphs
  Placements <- MC_Placements
  Targets <- MC_Targets
  Scales <- MC_Scales
  Motions <- MC_Motions
  Perp <- MC_Perp
%s
CHECK_DEADLOCK FALSE
"""
INVS = {'C01': ['HasAnchor', 'FrameLemma'], 'C02': ['HasAnchor', 'RigidLemma'], 'C03': ['HasAnchor', 'FrameLemma']}

_RE_VAR = re.compile(r'^/\\ (\w+) = ', re.M)


def _parse_case(blk):
    st = tlaval.parse_state(blk)
    return st


def _parse_chunk(blks):
    out = []
    for b in blks:
        st = tlaval.parse_state(b)
        if st.get('phase') == 'done':
            out.append({'g': {'n': st['g']['n'], 'bonds': sorted(sorted(x) for x in st['g']['bonds'])},
                        'ref': [list(p) for p in st['ref']], 'res': st['res']})
    return out


def cases_from_dump(path):
    with open(path) as fh:
        text = fh.read()
    blks = [b.strip() for b in re.split(r'^State \d+:\s*$', text, flags=re.M)[1:] if '"done"' in b]
    n = 16
    with Pool(n) as pool:
        parts = pool.map(_parse_chunk, [blks[i::n] for i in range(n)])
    return [c for p in parts for c in p]


# ------------------------------------------------------------------------------------------
_CACHE = {}


def _ref_molecule(workdir, g):
    key = ('ref', g['n'], tuple(map(tuple, g['bonds'])))
    if key not in _CACHE:
        names = ['C%d' % (i + 1) for i in range(g['n'])]
        pos = [(0.1 * i, 0.0, 0.0) for i in range(g['n'])]
        _CACHE[key] = synth.make_molecule(os.path.join(workdir, 'r%d' % len(_CACHE)), 'REF', names,
                                          [tuple(b) for b in g['bonds']], pos)
    return _CACHE[key]


def _tgt_molecule(workdir, nt):
    key = ('tgt', nt)
    if key not in _CACHE:
        names = ['T%d' % (i + 1) for i in range(nt)]
        pos = [(0.01 * i, 0.5, 0.5) for i in range(nt)]
        _CACHE[key] = synth.make_molecule(os.path.join(workdir, 't%d' % nt), 'TGT', names, [], pos)
    return _CACHE[key]


def _random_rotation(rng):
    q, r = np.linalg.qr(rng.normal(size=(3, 3)))
    q = q * np.sign(np.diag(r))
    if np.linalg.det(q) < 0:
        q[:, 0] = -q[:, 0]
    return q


def replay_case(case, targets, scales, motions, props, workdir, seed):
    """-> list of (signature, record) violations, number of checks, number of non-vacuous locality moves"""
    from gaddlemaps import ExchangeMap
    g, ref, res = case['g'], np.array(case['ref'], float), case['res']
    n = g['n']
    rng = np.random.default_rng(seed)
    refmol = _ref_molecule(workdir, g)
    tgt = _tgt_molecule(workdir, len(targets))
    tpos = np.array(targets, float)
    refmol.atoms_positions = ref * H
    tgt.atoms_positions = tpos * H
    viol = []
    nchecks = 0
    nloc = 0
    geom = lambda a: 'collinear' if (a + 1) in res['collin'] else 'generic'

    def bad(kind, **kw):
        sig = {'check': kind, 'ref_atoms': n}
        sig.update({k: v for k, v in kw.items() if k in ('geometry',)})
        rec = {'engine': 'xmap-geom', 'spec': 'XMapGeom', 'graph': g, 'ref_lattice': case['ref'], 'h_nm': H}
        rec.update(kw)
        viol.append((sig, rec))

    for sc in scales:
        s = sc / 8.0
        state = np.random.get_state()
        m = ExchangeMap(refmol, tgt, s)
        eq = m.equivalences
        anchor_of = {}
        for a, ts in eq.items():
            for t in ts:
                anchor_of[t] = a
        law8 = res['law8'][sc]
        # discrete part: the anchor reported for every target is a nearest atom with >= 2 bonds
        ok_anchor = True
        for t in range(len(targets)):
            a = anchor_of.get(t)
            nchecks += 1
            if a is None or (a + 1) not in res['near'][t]:
                ok_anchor = False
                bad('anchor_is_nearest_with_two_bonds', target=t, reported=a, near=sorted(res['near'][t]), scale8=sc)
                break
        if not ok_anchor:
            continue
        lawpt = np.array([np.array(law8[t][anchor_of[t]], float) / 8.0 * H for t in range(len(targets))])
        apos = np.array([ref[anchor_of[t]] * H for t in range(len(targets))])
        if 'C01' in props and n >= 3:
            if (seed + sc) % 2 == 0:
                # the law must hold for the construction configuration also after the map was applied
                # to other conformations
                other = refmol.copy()
                other.atoms_positions = ref * H @ _random_rotation(rng).T + rng.uniform(-1, 1, 3)
                m(other)
            out = m(refmol).atoms_positions
            err = np.abs(out - lawpt).max(axis=1)
            nchecks += len(targets)
            if not np.isfinite(out).all() or err.max() > 1e-9:
                t = int(np.nanargmax(np.where(np.isfinite(err), err, np.inf)))
                bad('law', geometry=geom(anchor_of[t]), target=t, anchor=anchor_of[t], scale8=sc,
                    error_nm=float(err[t]) if np.isfinite(err[t]) else 'nan',
                    expected=lawpt[t].tolist(), observed=out[t].tolist())
        if 'C02' in props:
            mots = list(motions)
            extra = [(_random_rotation(rng), rng.uniform(-50, 50, 3) / H) for _ in range(2)]
            for mi, (R, tau) in enumerate(mots + extra):
                R = np.array(R, float)
                tau = np.array(tau, float)
                if mi == 0:
                    refmol.atoms_positions = (ref @ R.T + tau) * H     # the construction object itself, moved
                    out2 = m(refmol).atoms_positions
                    refmol.atoms_positions = ref * H
                else:
                    ref2 = refmol.copy()
                    ref2.atoms_positions = (ref @ R.T + tau) * H
                    out2 = m(ref2).atoms_positions
                nchecks += len(targets)
                if not np.isfinite(out2).all():
                    bad('finite', scale8=sc, motion=[R.tolist(), tau.tolist()])
                    continue
                a2 = (apos / H @ R.T + tau) * H
                vecs = out2 - a2
                dist_obs = np.linalg.norm(vecs, axis=1)
                dist_exp = np.array([s * math.sqrt(res['d2'][t][anchor_of[t]]) * H for t in range(len(targets))])
                generic = np.array([n >= 3 and geom(anchor_of[t]) == 'generic' for t in range(len(targets))])
                if generic.any():
                    exp = (lawpt / H @ R.T + tau) * H
                    err = np.abs(out2 - exp).max(axis=1)
                    err[~generic] = 0
                    if err.max() > 1e-8:
                        t = int(err.argmax())
                        bad('rigid_equivariance', geometry='generic', target=t, anchor=anchor_of[t], scale8=sc,
                            motion=[R.tolist(), tau.tolist()], expected=exp[t].tolist(), observed=out2[t].tolist())
                        continue
                if n == 1:
                    if np.abs(dist_obs - dist_exp).max() > 1e-8:
                        t = int(np.abs(dist_obs - dist_exp).argmax())
                        bad('distance_to_single_atom', target=t, scale8=sc, expected=float(dist_exp[t]),
                            observed=float(dist_obs[t]))
                    continue
                for t in np.nonzero(~generic)[0]:
                    t = int(t)
                    a = anchor_of[t]
                    vec = vecs[t]
                    d_exp = dist_exp[t]
                    # axis = bond (2 atoms) or anchor -> second frame neighbour (collinear triple)
                    if n == 2:
                        axis = (ref[1] - ref[0])
                    else:
                        n2 = res['triple'][a][2] - 1
                        axis = ref[n2] - ref[a]
                    axis_len = np.linalg.norm(axis)
                    u = (R @ axis) / axis_len
                    ax_exp = s * res['ax'][t][a] / axis_len * H
                    ax_obs = float(vec @ u)
                    rad_exp = math.sqrt(max(d_exp ** 2 - ax_exp ** 2, 0.0))
                    rad_obs = math.sqrt(max(float(vec @ vec) - ax_obs ** 2, 0.0))
                    if (abs(dist_obs[t] - d_exp) > 1e-8 or abs(ax_obs - ax_exp) > 1e-8
                            or abs(rad_obs ** 2 - rad_exp ** 2) > 4e-8 * max(d_exp, 1e-2) + 1e-12):
                        bad('axis_invariants', geometry='collinear' if n >= 3 else 'two_atoms', target=t,
                            anchor=a, scale8=sc, motion=[R.tolist(), tau.tolist()],
                            expected=[float(d_exp), ax_exp, rad_exp],
                            observed=[float(dist_obs[t]), ax_obs, rad_obs])
                        break
        if 'C03' in props and n >= 3:
            for kind in ('gauss', 'lattice'):
                if kind == 'gauss':
                    ref3 = ref * H + rng.normal(0, rng.choice([0.02, 0.1, 0.3]), ref.shape)
                else:
                    pts = rng.permutation(27)[:n]
                    ref3 = np.array([[p // 9, (p // 3) % 3, p % 3] for p in pts], float) * H
                # keep to the claimed domain: frame triples either exactly collinear (lattice) or
                # well conditioned
                okc = True
                for a in res['anchors']:
                    tr = res['triple'][a - 1]
                    v1 = ref3[tr[2] - 1] - ref3[tr[0] - 1]
                    v2 = ref3[tr[1] - 1] - ref3[tr[0] - 1]
                    if np.linalg.norm(v1) < 1e-3 or np.linalg.norm(v2) < 1e-3:
                        okc = False
                        break
                    sn = np.linalg.norm(np.cross(v1, v2)) / (np.linalg.norm(v1) * np.linalg.norm(v2))
                    if kind == 'gauss' and sn < 1e-3:
                        okc = False
                if not okc:
                    continue
                if kind == 'lattice':
                    # a new conformation of the very object the map was built from
                    mol3 = refmol
                    mol3.atoms_positions = ref3
                    out3 = m(mol3).atoms_positions
                    refmol.atoms_positions = ref * H
                else:
                    mol3 = refmol.copy()
                    mol3.atoms_positions = ref3
                    out3 = m(mol3).atoms_positions
                nchecks += len(targets)
                if not np.isfinite(out3).all():
                    bad('finite', scale8=sc, conformation=ref3.tolist())
                    continue
                failed = False
                for t in range(len(targets)):
                    a = anchor_of[t]
                    d_exp = s * math.sqrt(res['d2'][t][a]) * H
                    d_obs = float(np.linalg.norm(out3[t] - ref3[a]))
                    if abs(d_obs - d_exp) > 1e-9:
                        bad('scaled_distance_to_anchor', target=t, anchor=a, scale8=sc, kind=kind,
                            conformation=ref3.tolist(), expected=d_exp, observed=d_obs)
                        failed = True
                        break
                if failed:
                    continue
                by_anchor = {}
                for t in range(len(targets)):
                    by_anchor.setdefault(anchor_of[t], []).append(t)
                for a, ts in by_anchor.items():
                    if len(ts) < 2:
                        continue
                    o = out3[ts]
                    l = lawpt[ts]
                    do = np.linalg.norm(o[:, None, :] - o[None, :, :], axis=2)
                    dl = np.linalg.norm(l[:, None, :] - l[None, :, :], axis=2)
                    if np.abs(do - dl).max() > 1e-9:
                        bad('mutual_distances_same_anchor', anchor=a, scale8=sc, kind=kind,
                            conformation=ref3.tolist(), error=float(np.abs(do - dl).max()))
                        failed = True
                        break
                if failed:
                    continue
                # locality: displace one reference atom at a time
                for d in range(n):
                    ref4 = ref3.copy()
                    ref4[d] += rng.normal(0, 0.2, 3)
                    mol4 = refmol.copy()
                    mol4.atoms_positions = ref4
                    out4 = m(mol4).atoms_positions
                    moved = np.abs(out4 - out3).max(axis=1)
                    for t in range(len(targets)):
                        deps = res['triple'][anchor_of[t]]
                        if (d + 1) in deps:
                            if moved[t] > 1e-6:
                                nloc += 1
                        elif moved[t] > 1e-12:
                            bad('locality', target=t, anchor=anchor_of[t], displaced=d, deps=list(deps),
                                scale8=sc, conformation=ref3.tolist(), moved_nm=float(moved[t]))
                            failed = True
                            break
                    if failed:
                        break
        if n >= 3 and (np.random.get_state()[1] != state[1]).any():
            bad('hidden_randomness', scale8=sc)
    return viol, nchecks, nloc


# ------------------------------------------------------------------------------------------
# code -> spec: random floating-point references, recorded as traces for Trace_XMapGeom
def _sin_at(pos, a, n1, n2):
    v1 = pos[n2] - pos[a]
    v2 = pos[n1] - pos[a]
    l1, l2 = np.linalg.norm(v1), np.linalg.norm(v2)
    if l1 < 1e-6 or l2 < 1e-6:
        return 0.0
    return float(np.linalg.norm(np.cross(v1, v2)) / (l1 * l2))


def _graph_info(n, bonds):
    nb = {i: set() for i in range(n)}
    for i, j in bonds:
        nb[i - 1].add(j - 1)
        nb[j - 1].add(i - 1)
    anchors = [i for i in range(n) if len(nb[i]) >= 2]
    triple = {a: (a, sorted(nb[a])[0], sorted(nb[a])[1]) for a in anchors}
    return nb, anchors, triple


def _classify(pos, anchors, triple):
    """-> list of degenerate anchors, or None if some triple is in the ill-conditioned band"""
    deg = []
    for a in anchors:
        sn = _sin_at(pos, *triple[a])
        if sn < 1e-9:
            deg.append(a)
        elif sn < 5e-7:
            return None       # between "collinear as written" and a determined frame: not generated
    return deg


def random_reference(rng, near_lo=-5.0):
    kind = rng.choice(['tree', 'tree', 'cyclic', 'one', 'two', 'collinear', 'axis', 'near_collinear'])
    if kind == 'one':
        return kind, 1, [], rng.uniform(-1, 1, (1, 3))
    if kind == 'two':
        p = rng.uniform(-1, 1, (1, 3))
        # two beads, bonded or not (an ion pair, a topology that lists no bond): the axis is the line through the two atoms
        return kind, 2, ([(1, 2)] if rng.random() < 0.5 else []), np.vstack([p, p + _unit(rng) * rng.uniform(0.1, 0.4)])
    n = int(rng.integers(3, 41))
    order = rng.permutation(n)            # labels are shuffled so that "lowest numbered neighbours" varies
    bonds = []
    pos = np.zeros((n, 3))
    pos[order[0]] = rng.uniform(-1, 1, 3)
    for k in range(1, n):
        parent = order[int(rng.integers(0, k))]
        child = order[k]
        bonds.append((int(min(parent, child)) + 1, int(max(parent, child)) + 1))
        pos[child] = pos[parent] + _unit(rng) * rng.uniform(0.1, 0.3)
    if kind == 'cyclic':
        for _ in range(int(rng.integers(1, 4))):
            i, j = rng.choice(n, 2, replace=False)
            b = (int(min(i, j)) + 1, int(max(i, j)) + 1)
            if b not in bonds:
                bonds.append(b)
    if kind == 'near_collinear':
        # almost, but not exactly, aligned frame neighbours: still a determined frame (generic class);
        # sin(theta) log-uniform in [1e-5, 1e-3]
        nb, anchors, triple = _graph_info(n, bonds)
        branched = [x for x in anchors if len(nb[x]) >= 3]
        # a branched anchor (three or more bonds) more often than not: its frame must still come from its two
        # lowest-numbered neighbours, however nearly aligned they are; angles from a fraction of an arc second to ~5 degrees
        a = branched[int(rng.integers(0, len(branched)))] if branched and rng.random() < 0.6 else anchors[int(rng.integers(0, len(anchors)))]
        _, n1, n2 = triple[a]
        d = _unit(rng)
        perp = np.cross(d, _unit(rng))
        perp /= np.linalg.norm(perp)
        eps = 10 ** rng.uniform(near_lo, -3 if rng.random() < 0.5 else -1.1)
        pos[n2] = pos[a] + d * rng.uniform(0.1, 0.3)
        l1 = rng.uniform(0.1, 0.3) * rng.choice([-1, 1])
        pos[n1] = pos[a] + l1 * (d + eps * perp)
    if kind in ('collinear', 'axis'):
        nb, anchors, triple = _graph_info(n, bonds)
        a = anchors[int(rng.integers(0, len(anchors)))]
        _, n1, n2 = triple[a]
        if kind == 'axis':
            d = np.zeros(3)
            d[int(rng.integers(0, 3))] = rng.choice([-1, 1]) * rng.choice([0.1, 0.125, 0.153])
        else:
            d = rng.integers(-3, 4, 3).astype(float)
            if not d.any():
                d[2] = 1.0
            d *= rng.choice([0.125, 0.05, 0.1, 0.037])
        base = np.round(pos[a], 3) if rng.random() < 0.5 else pos[a]
        pos[a] = base
        k1, k2 = rng.choice([-3, -2, -1, 1, 2, 3], 2, replace=False)
        pos[n1] = base + k1 * d
        pos[n2] = base + k2 * d
    return kind, n, bonds, pos


def _unit(rng):
    v = rng.normal(size=3)
    return v / np.linalg.norm(v)


def _ranks(vals):
    order = np.argsort(vals, kind='stable')
    rk = [0] * len(vals)
    r = 0
    prev = None
    for i in order:
        v = vals[i]
        if prev is not None and abs(v - prev) > 1e-12 * max(abs(v), abs(prev), 1e-300):
            r += 1
        rk[i] = r
        prev = v
    return rk


def _rot_to(u, v):
    """proper rotation taking the unit vector u to the unit vector v"""
    u, v = u / np.linalg.norm(u), v / np.linalg.norm(v)
    w = np.cross(u, v)
    sn, cs = np.linalg.norm(w), float(u @ v)
    if sn < 1e-12:
        if cs > 0:
            return np.eye(3)
        p = np.cross(u, [1.0, 0, 0] if abs(u[0]) < 0.9 else [0, 1.0, 0])
        p /= np.linalg.norm(p)
        return 2 * np.outer(p, p) - np.eye(3)
    k = w / sn
    K = np.array([[0, -k[2], k[1]], [k[2], 0, -k[0]], [-k[1], k[0], 0]])
    return np.eye(3) + sn * K + (1 - cs) * (K @ K)


def _near_axis_rotation(rng, line):
    k, j = rng.choice(3, 2, replace=False)
    # tilt from the axis: any decade from 1e-2 to 1e-12, with half of the draws in the band 3e-8 .. 3e-5 where a tolerance
    # of 1e-5 .. 1e-8 on "is this the axis" would decide differently from the exact test
    tilt = 10.0 ** (-rng.uniform(4.5, 7.5)) if rng.random() < 0.5 else 10.0 ** (-rng.integers(2, 13))
    target = np.eye(3)[k] * rng.choice([-1, 1]) + np.eye(3)[j] * rng.choice([-1, 1]) * tilt
    if rng.random() < 0.2:
        target = np.eye(3)[k] * rng.choice([-1, 1])
    return _rot_to(np.asarray(line, float), target)


def random_trace(seed, tid, workdir, props):
    from gaddlemaps import ExchangeMap
    rng = np.random.default_rng(seed)
    for _attempt in range(50):
        kind, n, bonds, pos = random_reference(rng, -6.0 if props == {'C02'} else -5.0)
        nb, anchors, triple = _graph_info(n, bonds)
        deg = _classify(pos, anchors, triple) if n >= 3 else []
        dmin = min([np.linalg.norm(pos[i] - pos[j]) for i in range(n) for j in range(i)] or [1.0])
        if deg is not None and dmin > 1e-3:
            break
    else:
        raise common.MachineryError('could not generate a reference')
    nt = int(rng.integers(1, 61))
    if rng.random() < 0.04:
        nt = int(rng.integers(257, 700))          # sizes at which a vectorised path would take over
    centre = pos.mean(axis=0)
    tpos = centre + rng.uniform(-1, 1, (nt, 3)) * rng.choice([0.3, 1.0, 2.0])
    s = float(rng.choice([rng.uniform(0.05, 2.0), 0.5, 1.0, 2.0, 0.0]))
    if n >= 3 and len(anchors) >= 2:
        # near ties: target atoms almost on the bisecting plane of two anchors, closer to the HIGHER-numbered one by
        # 3e-6 .. 4e-4 nm (a gap that vanishes at the three decimals of a coordinate file but is a gap)
        for t in range(min(3, nt)):
            a, b = sorted(int(x) for x in rng.choice(anchors, 2, replace=False))
            u = pos[b] - pos[a]
            L = np.linalg.norm(u)
            u = u / L
            w = np.cross(u, _unit(rng)) * rng.uniform(0.0, 0.3)
            tpos[t] = 0.5 * (pos[a] + pos[b]) + w + u * 10.0 ** (-rng.uniform(3.4, 5.5))
    if nt >= 4 and n >= 3 and anchors:
        # a target atom almost, but not exactly, on its anchor (a few 1e-9 nm away): a point like any other
        tpos[nt - 2] = pos[anchors[int(rng.integers(0, len(anchors)))]] + _unit(rng) * 5e-9
    # a branched anchor whose frame neighbours are nearly aligned gets a target atom of its own (right next to it)
    for a in anchors:
        if n >= 4 and len(nb[a]) >= 3 and _sin_at(pos, *triple[a]) < 0.1:
            tpos[nt - 1] = pos[a] + _unit(rng) * 0.02
            break
    names = ['C%d' % (i + 1) for i in range(n)]
    # reference and target split into the same number of residues (as a protein and its finer image are): the map tables
    # are per molecule, whatever the residue structure
    nres = int(rng.integers(2, 4)) if (min(n, nt) >= 3 and rng.random() < 0.3) else 1

    def blocks(m, tag):
        if nres == 1:
            return None
        cuts = sorted(int(x) for x in rng.choice(np.arange(1, m), nres - 1, replace=False))
        out_, r_ = [], 0
        for i in range(m):
            if r_ < len(cuts) and i >= cuts[r_]:
                r_ += 1
            out_.append(('%s%d' % (tag, r_), r_ + 1))
        return out_
    res_ref, res_tgt = blocks(n, 'RR'), blocks(nt, 'RT')
    refmol = synth.make_molecule(os.path.join(workdir, 'rr'), 'RREF', names, bonds, np.round(pos, 3), residues=res_ref)
    # the target is a molecule like any other: it may have bonds and hydrogen-like atom names (neither enters the map)
    tnames = ['T%d' % (i + 1) for i in range(nt)]
    tbonds = []
    if rng.random() < 0.4:
        tnames = [('H%d' if rng.random() < 0.5 else 'C%d') % (i + 1) for i in range(nt)]
        tbonds = [(int(rng.integers(0, i)) + 1, i + 1) for i in range(1, nt)]
    tgt = synth.make_molecule(os.path.join(workdir, 'rt'), 'RTGT', tnames, tbonds,
                              np.round(tpos, 3), residues=res_tgt)
    refmol.atoms_positions = pos
    if rng.random() < 0.1:
        # target coordinates held in single precision (a trajectory frame): the construction conformation is what those
        # numbers say, the results are ordinary double precision positions
        tpos = tpos.astype(np.float32).astype(np.float64)
        tgt.atoms_positions = tpos.astype(np.float32)
    else:
        tgt.atoms_positions = tpos
    ev = []
    if kind in ('tree', 'cyclic') and n >= 4 and rng.random() < 0.3:
        # a bond added programmatically after the topology was already used by a map: the new map must see it
        ExchangeMap(refmol, tgt, s)
        free = [(i, j) for i in range(n) for j in range(i) if (j + 1, i + 1) not in bonds]
        # prefer a bond that changes the frame of one of its ends (the other end becomes one of its two
        # lowest-numbered neighbours), declared from either end
        def changes_frame(x, y):
            return len(nb[x]) >= 2 and y < sorted(nb[x])[1]
        changing = [(i, j) for (i, j) in free if changes_frame(i, j) or changes_frame(j, i)]
        if changing and rng.random() < 0.8:
            free = changing
        i, j = free[int(rng.integers(0, len(free)))]
        bonds2 = list(bonds) + [(j + 1, i + 1)]
        nb2, anchors2, triple2 = _graph_info(n, bonds2)
        if _classify(pos, anchors2, triple2) == []:
            top = refmol.molecule_top
            (top[i].connect(top[j])) if rng.random() < 0.5 else (top[j].connect(top[i]))
            bonds, nb, anchors, triple = bonds2, nb2, anchors2, triple2
    m = ExchangeMap(refmol, tgt, s)
    if rng.random() < 0.2:
        # the documented route to a map: an Alignment initialises it "with the current molecules configuration".  A
        # first map for another overlap, the overlap changed in place, the map initialised again with the same scale.
        from gaddlemaps import Alignment
        ali = Alignment(start=refmol, end=tgt)
        ali.end.atoms_positions = centre + rng.uniform(-1, 1, (nt, 3))
        ali.init_exchange_map(s)
        ali.end.atoms_positions = tpos
        ali.start.atoms_positions = pos
        ali.init_exchange_map(s)
        m = ali.exchange_map
    # other maps built afterwards and kept alive (another scale, another target conformation, the same atom indexes):
    # what a map does is fixed by its own construction, not by which map of the process was built last
    decoys = []
    if rng.random() < 0.5:
        tgt_d = tgt.copy()
        tgt_d.atoms_positions = centre + rng.uniform(-1, 1, (nt, 3))
        decoys.append(ExchangeMap(refmol.copy(), tgt_d, float(rng.choice([0.3, 0.7, 1.5]))))
        decoys.append(ExchangeMap(refmol.copy(), tgt.copy(), s + 0.25))
    # the map captures the construction conformations: later changes to the objects it was built from
    # (before its first use, too) must not matter.  From here on `refmol` is a copy holding the reference conformation.
    built_from = refmol
    ref_is_built_from = True
    if rng.random() < 0.5 or n < 3:
        refmol = built_from.copy()
    else:
        # an independently loaded molecule of the same species whose topology file lists the bonds in another
        # order (and direction): the species is the same, so is the map
        shuffled = [(b_ if rng.random() < 0.5 else b_[::-1]) for b_ in (bonds[int(k_)] for k_ in rng.permutation(len(bonds)))]
        refmol = synth.make_molecule(os.path.join(workdir, 'rr2'), 'RREF', names, shuffled, np.round(pos, 3), residues=res_ref)
        ref_is_built_from = True
    refmol.atoms_positions = pos
    if rng.random() < 0.5:
        tgt.atoms_positions = tpos @ _random_rotation(rng).T + rng.normal(size=3) * 3
        built_from.atoms_positions = pos @ _random_rotation(rng).T + rng.normal(size=3) * 3
    anchor_of = {}
    eq_view = m.equivalences
    for a, ts in eq_view.items():
        for t in ts:
            anchor_of[t] = a
    # what the property hands out is the caller's to keep or to edit: the map does not depend on it afterwards
    for ts in eq_view.values():
        del ts[:]
    eq_view.clear()
    d2 = ((tpos[:, None, :] - pos[None, :, :]) ** 2).sum(axis=2)
    ev.append({'op': 'Build', 'equiv': [anchor_of.get(t, -1) + 1 for t in range(nt)],
               'rk': [_ranks(list(d2[t])) for t in range(nt)]})
    A = np.array([anchor_of.get(t, 0) for t in range(nt)])
    vec0 = tpos - pos[A]
    lawpt = pos[A] + s * vec0
    res0 = m(refmol)          # the returned molecule is kept: later applications of the map must not move it
    out = res0.atoms_positions
    ev.append({'op': 'CallSame', 'finite': bool(np.isfinite(out).all()),
               'law': [bool(x) for x in (np.abs(out - lawpt).max(axis=1) <= 1e-9)]})
    same_event = ev[-1]
    if 'C02' not in props:
        # (C01 / C03 checks) the map is applied to another conformation before the first result is looked at again
        moved0 = refmol.copy()
        moved0.atoms_positions = pos @ _random_rotation(rng).T + rng.normal(size=3)
        m(moved0)
    if n == 2:
        axes = np.tile(pos[1] - pos[0], (nt, 1))
    elif n >= 3:
        axes = np.array([pos[triple[a][2]] - pos[a] if a in triple else np.ones(3) for a in A])
    else:
        axes = np.ones((nt, 3))
    axes = axes / np.linalg.norm(axes, axis=1)[:, None]
    d_exp = s * np.linalg.norm(vec0, axis=1)
    ax_exp = s * (vec0 * axes).sum(axis=1)
    def cond_slack(moved):
        """rounding slack of the equivariance comparison, per target atom: the direction of the frame normal of
        an anchor with a small angle theta between its frame neighbours is determined only to about
        u * |coordinates| / (bond * sin theta); generic anchors (sin theta ~ 1) get ~1e-14, nothing else changes"""
        big = max(float(np.abs(moved).max()), float(np.abs(pos).max()), 1.0)
        out_ = np.zeros(nt)
        for t in range(nt):
            a = int(A[t])
            if n >= 3 and a in triple:
                _, n1, n2 = triple[a]
                sn = _sin_at(pos, a, n1, n2)
                ln = min(np.linalg.norm(pos[n1] - pos[a]), np.linalg.norm(pos[n2] - pos[a]))
                if sn > 0 and ln > 0:
                    out_[t] = 64 * 1.2e-16 * big / (ln * sn) * max(d_exp[t], 1e-3)
        return out_
    if 'C02' in props or 'C01' in props:
        for _ in range((4 if (deg or n == 2) else 2) if 'C02' in props else 0):
            R = _random_rotation(rng)
            if (deg or n == 2) and rng.random() < 0.6:
                # bring the line of a collinear anchor (or the bond of a two-atom reference) to a tiny angle
                # from a coordinate axis: the fall-back frame must be orthonormal in every direction
                a0 = deg[0] if deg else 0
                line = (pos[triple[a0][2]] - pos[a0]) if n >= 3 else (pos[1] - pos[0])
                R = _near_axis_rotation(rng, line)
            tau = rng.uniform(-50, 50, 3) * rng.choice([0.0, 0.1, 1.0])
            ref2 = refmol.copy()
            ref2.atoms_positions = pos @ R.T + tau
            if ref_is_built_from and rng.random() < 0.4:
                # the very molecule the map was built with, moved in place, is an argument like any other
                built_from.atoms_positions = pos @ R.T + tau
                ref2 = built_from
            if rng.random() < 0.3:
                m.scale_factor = s          # the public attribute written again with the value it has: nothing may change
            out2 = m(ref2).atoms_positions
            fin = bool(np.isfinite(out2).all())
            exp = lawpt @ R.T + tau
            # the same comparison with the image of the unmoved reference as the caller holds it (a Molecule returned earlier)
            held = res0.atoms_positions @ R.T + tau
            vec = out2 - (pos[A] @ R.T + tau)
            dist = np.linalg.norm(vec, axis=1)
            ax = (vec * (axes @ R.T)).sum(axis=1)
            rad2 = (vec * vec).sum(axis=1) - ax ** 2
            rad2e = d_exp ** 2 - ax_exp ** 2
            ev.append({'op': 'CallRigid', 'finite': fin,
                       'eq': [bool(x) for x in (np.maximum(np.abs(out2 - exp).max(axis=1), np.abs(out2 - held).max(axis=1))
                                                <= 1e-8 + cond_slack(pos @ R.T + tau))] if fin else [False] * nt,
                       'dist': [bool(x) for x in (np.abs(dist - d_exp) <= 1e-8)] if fin else [False] * nt,
                       'axial': [bool(x) for x in (np.abs(ax - ax_exp) <= 1e-8)] if fin else [False] * nt,
                       'radial': [bool(x) for x in (np.abs(rad2 - rad2e) <= 4e-8 * np.maximum(d_exp, 1e-2) + 1e-12)]
                       if fin else [False] * nt})
    held_deformed = []
    if 'C03' in props:
        for _ in range(2):
            for _try in range(30):
                pos3 = pos + rng.normal(0, rng.choice([0.02, 0.1, 0.3]), pos.shape)
                if n < 3:
                    # one- and two-atom references: the anchor is the first atom; a new bead-bead distance is a deformation
                    if n == 1 or np.linalg.norm(pos3[1] - pos3[0]) > 0.02:
                        break
                elif _classify(pos3, anchors, triple) == [] and all(_sin_at(pos3, *triple[a]) >= 1e-3 for a in anchors):
                    break
            else:
                continue
            mol3 = refmol.copy()
            mol3.atoms_positions = pos3
            res3 = m(mol3)
            out3 = res3.atoms_positions
            fin = bool(np.isfinite(out3).all())
            dist = np.linalg.norm(out3 - pos3[A], axis=1)
            mutual = []
            for t in range(nt):
                same = np.nonzero(A == A[t])[0]
                do = np.linalg.norm(out3[same] - out3[t], axis=1)
                dl = s * np.linalg.norm(tpos[same] - tpos[t], axis=1)
                mutual.append(bool(np.abs(do - dl).max() <= 1e-9))
            ev.append({'op': 'CallDeformed', 'finite': fin,
                       'dist': [bool(x) for x in (np.abs(dist - d_exp) <= 1e-9)] if fin else [False] * nt,
                       'mutual': mutual if fin else [False] * nt})
            held_deformed.append((ev[-1], res3, pos3[A].copy()))
            for d in (rng.permutation(n)[:6] if n >= 3 else []):
                pos4 = pos3.copy()
                pos4[d] += rng.normal(0, 0.2, 3)
                mol4 = refmol.copy()
                mol4.atoms_positions = pos4
                out4 = m(mol4).atoms_positions
                ev.append({'op': 'Displace', 'atom': int(d) + 1,
                           'unchanged': [bool(x) for x in (np.abs(out4 - out3).max(axis=1) <= 1e-12)]})
        if n >= 3 and not deg:
            # locality at the construction conformation itself (nearly aligned frames included): the third and later
            # neighbours of a branched anchor are outside its frame - moving them must not move its atoms
            mol0 = refmol.copy()
            mol0.atoms_positions = pos
            out0 = m(mol0).atoms_positions
            outside = [sorted(nb[a])[2] for a in anchors if len(nb[a]) >= 3]
            for d in outside[:6] + [int(x) for x in rng.permutation(n)[:2]]:
                pos5 = pos.copy()
                pos5[d] += rng.normal(0, 0.05, 3)
                if _classify(pos5, anchors, triple) != []:
                    continue
                mol5 = refmol.copy()
                mol5.atoms_positions = pos5
                out5 = m(mol5).atoms_positions
                ev.append({'op': 'Displace', 'atom': int(d) + 1,
                           'unchanged': [bool(x) for x in (np.abs(out5 - out0).max(axis=1) <= 1e-12)]})
    # the molecule returned first is still what it was when it was returned
    late = res0.atoms_positions
    same_event['law'] = [bool(a and b) for a, b in zip(same_event['law'], np.abs(late - lawpt).max(axis=1) <= 1e-9)]
    for e_, held_, base_ in held_deformed:
        d_late = np.linalg.norm(held_.atoms_positions - base_, axis=1)
        e_['dist'] = [bool(a and b) for a, b in zip(e_['dist'], np.abs(d_late - d_exp) <= 1e-9)]
    return {'tid': tid, 'cfg': {'n': n, 'bonds': [list(b) for b in bonds], 'nt': nt,
                                'degenerate': [a + 1 for a in (deg or [])]},
            'meta': {'seed': seed, 'kind': kind, 'scale': s, 'positions': pos.tolist(),
                     'targets': tpos.tolist()},
            'ev': ev}


def _work_rand(args):
    items, props, part, workroot = args
    common.import_repo()
    workdir = os.path.join(workroot, 'wr%d' % os.getpid())
    with open(part, 'w') as fh:
        for tid, seed in items:
            try:
                with common.caller_state(tid):
                    tr = random_trace(seed, tid, workdir, props)
            except Exception as exc:
                import traceback
                tr = {'tid': tid, 'cfg': {'n': 1, 'bonds': [], 'nt': 0, 'degenerate': []},
                      'meta': {'seed': seed, 'exception': traceback.format_exc()[-1200:]},
                      'ev': [{'op': 'Exception', 'type': type(exc).__name__}]}
            fh.write(json.dumps(tr) + '\n')
    return part


TRACE_CFG = """SPECIFICATION TraceSpec
CONSTANTS
  Graphs = {}
  Placements <- NoPlacements
  Targets <- NoTargets
  Scales = {}
  Motions = {}
  Perp <- NoPerp
  SkipClauses = %s
INVARIANT Accepted
CHECK_DEADLOCK FALSE
"""
ALL_CLAUSES = {'anchor_has_two_bonds', 'anchor_is_nearest', 'axis_invariant', 'dist_only', 'equivariant', 'finite', 'law', 'local',
               'mutual_distance', 'scaled_distance'}
MINE = {'C01': {'anchor_has_two_bonds', 'anchor_is_nearest', 'law', 'finite'},
        'C02': {'anchor_has_two_bonds', 'anchor_is_nearest', 'equivariant', 'axis_invariant', 'dist_only', 'finite'},
        'C03': {'anchor_has_two_bonds', 'anchor_is_nearest', 'scaled_distance', 'mutual_distance', 'local', 'finite'}}


def tla_set(names):
    return '{' + ', '.join('"%s"' % n for n in sorted(names)) + '}'


def _work(args):
    cases, targets, scales, motions, props, workroot, seed = args
    common.import_repo()
    workdir = os.path.join(workroot, 'w%d' % os.getpid())
    out = []
    for i, c in enumerate(cases):
        try:
            ms = motions
            if len(motions) > 16 and not (c['res']['collin'] or c['g']['n'] < 3):
                # thorough tier: TLC proved the rigid-motion lemma for every lattice motion; on the implementation a generic
                # case is moved by a seeded sixth of them (every motion is used across the cases), a degenerate one by all
                ms = random.Random(seed + i).sample(list(motions), max(8, len(motions) // 6))
            v, nc, nl = replay_case(c, targets, scales, ms, props, workdir, seed + i)
        except Exception as exc:   # an exception on valid input is a violation of its own
            import traceback
            v = [({'check': 'exception', 'ref_atoms': c['g']['n'], 'exception': type(exc).__name__},
                  {'engine': 'xmap-geom', 'graph': c['g'], 'ref_lattice': c['ref'],
                   'traceback': traceback.format_exc()[-1500:]})]
            nc, nl = 0, 0
        out.append((v, nc, nl))
    return out


def check(run, props):
    common.import_repo()
    tier = run.tier
    families = ['n3', 'small'] if run.quick else ['n3', 'n4', 'small']
    if props == {'C01'} or props == {'C03'}:
        families = [f for f in families if f != 'small']
    invs = sorted({i for p in props for i in INVS[p]})
    all_cases = []
    targets = motions = None
    scales = None
    for fam in families:
        cfg = MC_CFG % (tier, fam, '\n'.join('INVARIANT ' + i for i in invs))
        res = tlc.run('MC_XMapGeom', cfg, run.scratch, workers=16, timeout=3400, dump=True, coverage=False)
        tlc.check_ok(res, 'MC_XMapGeom[%s]' % fam)
        if res.distinct < 2 or res.depth != 2:
            raise tlc.TLCError('vacuous XMapGeom run: %d states' % res.distinct)
        run.add_tlc(res, 'XMapGeom family %s (%s bounds): %s' % (fam, tier, ', '.join(invs)))
        for v in tlc.printed_values(res.stdout):
            if v[0] == 'MOTIONS':
                motions = [(dict(m)['R'], dict(m)['t']) for m in v[1]]
            elif v[0] == 'TARGETS':
                targets = [list(p) for p in v[1]]
            elif v[0] == 'SCALES':
                scales = sorted(v[1])
        cs = cases_from_dump(res.dump_path)
        os.remove(res.dump_path)
        if not cs:
            raise tlc.TLCError('no cases in dump for family ' + fam)
        all_cases += cs
    if not (targets and motions and scales):
        raise tlc.TLCError('constants were not printed by TLC')
    motions = sorted(motions, key=repr)
    rng = random.Random(run.seed)
    if run.quick:
        # identity-free sample of the lattice rotations + both translations
        rot = [m for m in motions if list(m[1]) == [0, 0, 0]]
        tr = [m for m in motions if list(m[1]) != [0, 0, 0]]
        rng.shuffle(rot)
        use_motions = rot[:4] + tr
    else:
        use_motions = motions
    if run.quick and 'C02' in props and len(all_cases) > 900:
        # every degenerate case (collinear anchors, 1-/2-atom references) + a seeded sample of generic ones
        deg = [c for c in all_cases if c['res']['collin'] or c['g']['n'] < 3]
        gen = [c for c in all_cases if not (c['res']['collin'] or c['g']['n'] < 3)]
        rng.shuffle(gen)
        all_cases = deg + gen[:max(0, 900 - len(deg))]
        run.note('C02 quick: %d degenerate cases + %d sampled generic cases replayed (TLC checked all)'
                 % (len(deg), len(all_cases) - len(deg)))
    nproc = 16
    workroot = os.path.join(run.scratch, 'work')
    chunks = [all_cases[i::nproc] for i in range(nproc)]
    jobs = [(c, targets, scales, use_motions, props, workroot, run.seed * 7919 + 1000 * i)
            for i, c in enumerate(chunks) if c]
    with Pool(nproc) as pool:
        results = pool.map(_work, jobs)
    nchecks = nloc = 0
    for chunk, rs in zip([c for c in chunks if c], results):
        for case, (viol, nc, nl) in zip(chunk, rs):
            nchecks += nc
            nloc += nl
            key = (case['g']['n'], tuple(map(tuple, case['g']['bonds'])), tuple(map(tuple, case['ref'])))
            sample = None
            if len(run.samples) < 4:
                sample = {'graph': case['g'], 'ref_lattice': case['ref'],
                          'anchors': sorted(case['res']['anchors']), 'collinear': sorted(case['res']['collin'])}
            run.case(key, nontrivial=True, sample=sample)
            run.traces += 1
            for sig, rec in viol:
                run.violation(sig, rec)
    # code -> spec: random floating-point references validated against Trace_XMapGeom
    from ..traces import validate_batches
    nrand = 160 if run.quick else 3000
    items = [(10 ** 6 + j, run.seed * 1000003 + 17 * j + 5) for j in range(nrand)]
    jobs = [(items[i::nproc], props, os.path.join(run.scratch, 'xr%d.ndjson' % i), workroot)
            for i in range(nproc) if items[i::nproc]]
    with Pool(nproc) as pool:
        parts = pool.map(_work_rand, jobs)
    rtraces = {}
    for pth in parts:
        with open(pth) as fh:
            for line in fh:
                t = json.loads(line)
                rtraces[t['tid']] = t
    mine = MINE
    allowed = set().union(*(mine[p] for p in props))
    verdicts = validate_batches('Trace_XMapGeom', TRACE_CFG % tla_set(ALL_CLAUSES - allowed), parts, run.scratch, timeout=3000, run=run)
    kinds = {}
    for tid, tr in rtraces.items():
        v = verdicts.get(tid)
        if tr['ev'] and tr['ev'][0]['op'] == 'Exception':
            v = ('FAIL', tid, 1, 'exception')
        if v is None:
            raise tlc.TLCError('no verdict for random trace %r' % tid)
        kinds[tr['meta'].get('kind')] = kinds.get(tr['meta'].get('kind'), 0) + 1
        run.case(('rand', tr['meta']['seed']), nontrivial=True,
                 sample={'random_reference': tr['meta'].get('kind'), 'n': tr['cfg']['n'], 'nt': tr['cfg']['nt'],
                         'events': [e['op'] for e in tr['ev']][:8]} if len(run.samples) < 6 else None)
        run.traces += 1
        if v[0] == 'ACC':
            continue
        clause = v[3]
        if clause not in allowed and clause != 'exception':
            run.note('clause %s failed on a random trace; decided by the sibling property check' % clause)
            continue
        sig = {'check': 'trace:' + clause, 'ref_atoms': min(tr['cfg']['n'], 3),
               'geometry': 'collinear' if tr['cfg']['degenerate'] else 'generic'}
        run.violation(sig, {'engine': 'xmap-geom', 'spec': 'Trace_XMapGeom', 'failing_clause': clause,
                            'event_index': v[2], 'trace': tr})
    run.extra['random_reference_kinds'] = kinds
    if 'C03' in props and nloc == 0:
        raise tlc.TLCError('locality check was vacuous: no displaced frame atom changed any output')
    run.rule = ('cases = (bond graph, lattice placement of the reference) enumerated exhaustively by TLC with the '
                'expected observables; each is replayed on the real ExchangeMap for scales %s/8 with 27 target atoms; '
                'distinct = distinct (graph, placement)' % scales)
    run.extra.update({'families': families, 'comparisons': nchecks, 'locality_nonvacuous_moves': nloc,
                      'motions_per_case': len(use_motions) + 2 if 'C02' in props else 0,
                      'exhaustive': True})
    run.assumptions += [
        'lattice spacing 0.125 nm: all lattice inputs and expected values are exact doubles',
        'expected values are computed by TLC in exact integer arithmetic; the harness converts and compares '
        '(tolerances: 1e-9 nm law/distances, 1e-8 nm rigid motion, 1e-12 nm locality)',
        'molecules are built through the real .itp/.gro parsers (synth.py writes the files)']


def main_c01(run):
    check(run, {'C01'})


def main_c02(run):
    check(run, {'C02'})


def main_c03(run):
    check(run, {'C03'})
