"""Extension engine `topresidues` (X02, not a listed property): residue bookkeeping of MoleculeTop.

spec/TopResidues.tla: residues = maximal runs of equal (resname, resid); resnames / resids /
resname_len_list are views of that grouping; the setters assign one value per residue, refuse a list of
the wrong length with ValueError and may merge adjacent residues; a copy is independent.  Every history
of 3 operations over every topology of 1..3 atoms is replayed on a real MoleculeTop read from a file.
"""
import json
import os
import random
import re
from multiprocessing import Pool

from .. import common, tlc, tlaval, synth

MC_CFG = """SPECIFICATION Spec
CONSTANTS
  MaxOps = %d
  Tops <- MC_Tops
INVARIANT ViewsAgree
PROPERTY CopyIndependent
PROPERTY ErrorsChangeNothing
CHECK_DEADLOCK FALSE
"""


def _parse_chunk(args):
    blks, maxops = args
    out = []
    for b in blks:
        st = tlaval.parse_state(b)
        if len(st['hist']) == maxops:
            h = [dict(x) for x in st['hist']]
            h[0]['init'] = [list(x) for x in st['top0']]
            out.append(h)
    return out


def replay(beh, workdir, n):
    from gaddlemaps.components import MoleculeTop
    init = beh[0]['init']
    path = os.path.join(workdir, 't%d.itp' % n)
    synth.write_itp(path, 'MOL', [('A%d' % (i + 1), rn, rid) for i, (rn, rid) in enumerate(init)], [(i, i + 1) for i in range(1, len(init))])
    top = MoleculeTop(path)
    cp = None

    def atoms(t):
        return [[a.resname, a.resid] for a in t]
    for step, h in enumerate(beh, 1):
        out = 'ok'
        try:
            if h['op'] == 'set_resnames':
                top.resnames = list(h['arg'])
            elif h['op'] == 'set_resids':
                top.resids = [int(x) for x in h['arg']]
            elif h['op'] == 'copy':
                cp = top.copy()
            else:
                cp.resnames = list(h['arg'])
        except ValueError:
            out = 'ValueError'
        except Exception as exc:
            import traceback
            return ({'check': 'topresidues:exception:' + type(exc).__name__, 'op': h['op']}, {'step': step, 'text': traceback.format_exc()[-400:]})
        got = {'out': out, 'top': atoms(top), 'cp': atoms(cp) if cp is not None else [], 'names': list(top.resnames), 'ids': list(top.resids),
               'namelen': [list(x) for x in top.resname_len_list]}
        want = {'out': h['out'], 'top': [list(x) for x in h['top']], 'cp': [list(x) for x in h['cp']], 'names': list(h['names']),
                'ids': list(h['ids']), 'namelen': [list(x) for x in h['namelen']]}
        if got != want:
            bad = [k for k in got if got[k] != want[k]]
            return ({'check': 'topresidues:differs_from_specification', 'op': h['op'], 'what': bad[0]}, {'step': step, 'observed': got, 'expected': want})
        if cp is not None and cp is top:
            return ({'check': 'topresidues:copy_is_same_object'}, {'step': step})
    return None


def _work(args):
    behs, workdir = args
    common.import_repo()
    wd = os.path.join(workdir, 'p%d' % os.getpid())
    os.makedirs(wd, exist_ok=True)
    return [replay(b, wd, i % 20) for i, b in enumerate(behs)]


def main_x02(run):
    common.import_repo()
    depth = 2 if run.quick else 3
    res = tlc.run('MC_TopResidues', MC_CFG % depth, run.scratch, workers=16, timeout=3000, dump=True, coverage=True)
    tlc.check_ok(res, 'MC_TopResidues', need_actions=('DoSetNames', 'DoSetIds', 'DoCopy', 'DoSetNamesCopy'))
    run.add_tlc(res, 'TopResidues exhaustive: topologies of 1..3 atoms, histories of %d operations' % depth)
    with open(res.dump_path) as fh:
        text = fh.read()
    os.remove(res.dump_path)
    blks = [b.strip() for b in re.split(r'^State \d+:\s*$', text, flags=re.M)[1:]]
    leaves = [b for b in blks if len(re.findall(r'(?<![a-z])op \|->', b)) == depth]
    rng = random.Random(run.seed)
    limit = 8000 if run.quick else 60000
    total = len(leaves)
    if total > limit:
        rng.shuffle(leaves)
        leaves = leaves[:limit]
    with Pool(16) as pool:
        behs = [b for p in pool.map(_parse_chunk, [(leaves[i::16], depth) for i in range(16)]) for b in p]
    with Pool(16) as pool:
        results = pool.map(_work, [(behs[i::16], os.path.join(run.scratch, 'w')) for i in range(16)])
    for chunk, rs in zip([behs[i::16] for i in range(16)], results):
        for b, r in zip(chunk, rs):
            ops = [(h['op'], list(h['arg'])) for h in b]
            run.case(json.dumps([b[0]['init'], ops]), nontrivial=True, sample={'init': b[0]['init'], 'history': ops} if len(run.samples) < 3 else None)
            run.traces += 1
            if r:
                run.violation(r[0], dict({'engine': 'topresidues', 'init': b[0]['init'], 'history': ops}, **r[1]))
    run.rule = 'cases = (initial topology of 1..3 atoms, history of resnames / resids assignments, copies and assignments on the copy)'
    run.extra.update({'leaves': total, 'replayed': len(behs)})
    run.assumptions += ['extension beyond the listed properties; not registered in MANIFEST.json']
