"""Engine `cli` (C20): the command-line tool equals the library workflow; discovery is deterministic.

spec/Cli.tla: Abs = which species are discovered (all three files among the candidates, in the system,
not given explicitly) and which are mapped (explicit + discovered - excluded); Alg = the three passes
of sort_molecules over Python sets, every pass picking ANY pending file next, so TLC explores every
iteration order (= every string-hash seed and listing order) and proves OrderIndependent /
NeverReAddsExplicit for every candidate list of the bounds.  Every such candidate list is then
realised as files and run through the real sort_molecules (several listing orders in-process, several
PYTHONHASHSEED values in sub-processes) and, sampled, through main(); explicit-triple runs are compared
byte for byte with the library workflow for the same seed.  Random directories over four species are
recorded and validated by TLC against Trace_Cli.tla.
"""
import contextlib
import io
import json
import os
import random
import re
import subprocess
import sys
from multiprocessing import Pool

import numpy as np

from .. import common, tlc, tlaval, synth
from ..traces import validate_batches

MC_CFG = """SPECIFICATION MCSpec
CONSTANTS
  InSystem = {"A", "B"}
  Tier = "%s"
INVARIANT OrderIndependent
INVARIANT NeverReAddsExplicit
CHECK_DEADLOCK FALSE
"""
TRACE_CFG = 'SPECIFICATION TraceSpec\nCONSTANTS\n  InSystem = {"A", "B", "C", "D"}\nINVARIANT Accepted\nCHECK_DEADLOCK FALSE\n'
# (start atoms, end atoms): coarse -> fine, equal sizes, fine -> coarse, one bead
SIZES = {'A': (3, 7), 'B': (5, 5), 'C': (6, 4), 'D': (1, 3)}
RUNNER = os.path.join(os.path.dirname(os.path.abspath(__file__)), 'cli_runner.py')


class Pool4:
    """a directory with every role file of four species + distractors (+ copies of each triple in explicit/)"""

    def __init__(self, root, seed=0):
        self.root = root
        os.makedirs(os.path.join(root, 'pool'), exist_ok=True)
        os.makedirs(os.path.join(root, 'explicit'), exist_ok=True)
        rng = np.random.default_rng(seed)
        self.cg_names, self.aa_names = {}, {}
        for sp, (ncg, naa) in SIZES.items():
            self.cg_names[sp] = ['%s%d' % (sp, i + 1) for i in range(ncg)]
            self.aa_names[sp] = ['%sX%d' % (sp, i + 1) for i in range(naa)]
            for sub in ('pool', 'explicit', 'renamed'):
                d = os.path.join(root, sub)
                os.makedirs(d, exist_ok=True)
                synth.write_itp(os.path.join(d, '%s_CG.itp' % sp), sp, [(an, sp * 3, 1) for an in self.cg_names[sp]],
                                [(i, i + 1) for i in range(1, ncg)])
                # 'renamed': the final-resolution topology calls the molecule differently (explicit triples only)
                synth.write_itp(os.path.join(d, '%s_AA.itp' % sp), sp if sub != 'renamed' else sp + '_allatom',
                                [(an, sp * 3, 1) for an in self.aa_names[sp]], [(i, i + 1) for i in range(1, naa)])
                pos = np.cumsum(rng.normal(size=(naa, 3)) * 0.08, axis=0) + 1.0
                synth.write_gro(os.path.join(d, '%s_AA.gro' % sp), [(1, sp * 3, an, i + 1, tuple(float('%.3f' % v) for v in pos[i]))
                                                                   for i, an in enumerate(self.aa_names[sp])])
        d = os.path.join(root, 'pool')
        synth.write_itp(os.path.join(d, 'Z_other.itp'), 'other', [('Q1', 'ZZZ', 1), ('Q2', 'ZZZ', 1)], [(1, 2)])
        synth.write_itp(os.path.join(d, 'A_clone.itp'), 'clone', [('K%d' % (i + 1), 'AAA', 1) for i in range(SIZES['A'][0])],
                        [(i, i + 1) for i in range(1, SIZES['A'][0])])
        synth.write_gro(os.path.join(d, 'A_CG.gro'), [(1, 'AAA', an, i + 1, (0.2 * i, 0.1, 0.3)) for i, an in enumerate(self.cg_names['A'])])
        # one end-resolution coordinate file with a molecule of A and a molecule of B
        recs, nr = [], 0
        for rid, sp in ((1, 'A'), (2, 'B')):
            pos = np.cumsum(rng.normal(size=(len(self.aa_names[sp]), 3)) * 0.08, axis=0) + rid
            for i, an in enumerate(self.aa_names[sp]):
                nr += 1
                recs.append((rid, sp * 3, an, nr, tuple(float('%.3f' % v) for v in pos[i])))
        synth.write_gro(os.path.join(d, 'AB_AA.gro'), recs)
        with open(os.path.join(d, 'notes.txt'), 'w') as fh:
            fh.write('not a simulation file\n')

    def system(self, name, present, rng, nmol=9):
        recs = []
        nr = 0
        order = []
        pres = sorted(present)
        for k in range(nmol):
            order.append(pres[k % len(pres)] if k < len(pres) else (pres + ['W'])[int(rng.integers(0, len(pres) + 1))])
        for rid, s in enumerate(order, 1):
            names = self.cg_names[s] if s != 'W' else ['OW']
            base = rng.uniform(1, 7, 3)
            pts = base + np.cumsum(rng.normal(size=(len(names), 3)) * 0.15, axis=0)
            for i, an in enumerate(names):
                nr += 1
                recs.append((rid, s * 3 if s != 'W' else 'WAT', an, nr, tuple(float('%.3f' % v) for v in pts[i])))
        path = os.path.join(self.root, 'pool', name)
        synth.write_gro(path, recs, box=(8.0, 8.0, 8.0), title='cli test system')
        return path, order

    def path(self, f, sub='pool'):
        sp, role = f
        d = os.path.join(self.root, sub)
        return {'topCG': os.path.join(d, '%s_CG.itp' % sp), 'topAA': os.path.join(d, '%s_AA.itp' % sp),
                'coorAA': os.path.join(d, '%s_AA.gro' % sp), 'topOther': os.path.join(d, 'Z_other.itp'),
                'topClone': os.path.join(d, 'A_clone.itp'), 'coorCG': os.path.join(d, 'A_CG.gro'),
                'txt': os.path.join(d, 'notes.txt'), 'sys': self.sysfile, 'coorAB': os.path.join(d, 'AB_AA.gro')}[role]

    def decode(self, path):
        b = os.path.basename(path)
        sub = os.path.basename(os.path.dirname(path))
        if b == 'AB_AA.gro' and sub == 'pool':
            return ['AB', 'coorAB']
        m = re.match(r'(\w)_(CG|AA)\.(itp|gro)$', b)
        if m and sub == 'pool':
            role = {('CG', 'itp'): 'topCG', ('AA', 'itp'): 'topAA', ('AA', 'gro'): 'coorAA', ('CG', 'gro'): 'coorCG'}[(m.group(2), m.group(3))]
            return [m.group(1), role]
        return ['?', sub + '/' + b]

    def triple(self, sp, sub):
        return [self.path((sp, 'topCG'), sub), self.path((sp, 'coorAA'), sub), self.path((sp, 'topAA'), sub)]


def decode_result(pool, result):
    out = []
    for name, info in sorted(result.items()):
        if len(info) == 3:
            out.append([name, pool.decode(info['top_CG']), pool.decode(info['top_AA']), pool.decode(info['coor_AA'])])
    return out


def mapped_species(pool, path):
    """species whose end-resolution atom names occur in the written file"""
    found = set()
    with open(path) as fh:
        lines = fh.read().split('\n')[2:-2]
    names = {ln[10:15].strip() for ln in lines}
    for sp, aan in pool.aa_names.items():
        if names & set(aan):
            found.add(sp)
    if names & {x for v in pool.cg_names.values() for x in v}:
        found.add('start-resolution atoms')
    return sorted(found)


def run_sub(jobs, hashseed, scratch, tag):
    jf = os.path.join(scratch, 'jobs_%s.json' % tag)
    of = os.path.join(scratch, 'out_%s.json' % tag)
    json.dump(jobs, open(jf, 'w'))
    env = dict(os.environ, PYTHONHASHSEED=str(hashseed), VERIF_REPO=common.REPO)
    p = subprocess.run([sys.executable, RUNNER, jf, of], env=env, stdout=subprocess.PIPE, stderr=subprocess.STDOUT, text=True, timeout=3000)
    if p.returncode != 0 or not os.path.exists(of):
        raise common.MachineryError('cli_runner failed: ' + p.stdout[-800:])
    return json.load(open(of))


def library_workflow(init, triples, scale, out, seed, steps_factor):
    from gaddlemaps import Manager, Alignment
    from gaddlemaps.components import Molecule
    from gaddlemaps.parsers import read_topology
    Alignment.STEPS_FACTOR = steps_factor
    np.random.seed(seed)
    with contextlib.redirect_stdout(io.StringIO()):
        ends = [(read_topology(t[0])[0], Molecule.from_files(t[1], t[2])) for t in triples]
        man = Manager.from_files(init, *[t[0] for t in triples])
        for name, mol in ends:
            man.molecule_correspondence[name].end = mol
        man.align_molecules()
        man.calculate_exchange_maps(scale_factor=scale)
        man.extrapolate_system(out)


# --------------------------------------------------------------------------- cases
def _parse_chunk(blks):
    out = []
    for b in blks:
        st = tlaval.parse_state(b)
        if st.get('phase') != 'done':
            continue
        c = st['cfg']
        out.append({'cands': sorted([dict(f)['sp'], dict(f)['role']] for f in c['cands']), 'explicit': sorted(c['explicit']),
                    'exclude': sorted(c['exclude'])})
    return out


def cases_from_dump(path):
    with open(path) as fh:
        text = fh.read()
    blks = [b.strip() for b in re.split(r'^State \d+:\s*$', text, flags=re.M)[1:] if 'phase = "done"' in b]
    with Pool(16) as pool:
        parts = pool.map(_parse_chunk, [blks[i::16] for i in range(16)])
    seen, out = set(), []
    for p in parts:
        for c in p:
            k = json.dumps(c, sort_keys=True)
            if k not in seen:
                seen.add(k)
                out.append(c)
    return sorted(out, key=lambda c: json.dumps(c, sort_keys=True))


def make_jobs(pool, cases, rng, present):
    """discovery jobs (one per case and listing order) for the sub-process runner"""
    jobs = []
    for ci, c in enumerate(cases):
        files = [pool.path(tuple(f)) for f in c['cands']]
        for o in range(c.get('orders', 2)):
            order = list(files)
            rng.shuffle(order)
            # explicit species: their own copies (other paths); sometimes the very same paths as the candidates
            sub = 'pool' if (ci + o) % 3 == 0 else 'explicit'
            known = [pool.triple(s, sub) for s in c['explicit']]
            jobs.append({'id': '%d.%d' % (ci, o), 'kind': 'discover', 'init': pool.sysfile, 'files': order, 'known': known})
    return jobs


def check(run):
    common.import_repo()
    quick = run.quick
    res = tlc.run('MC_Cli', MC_CFG % run.tier, run.scratch, workers=16, timeout=3000, dump=True, coverage=True, heap='12g')
    tlc.check_ok(res, 'MC_Cli', need_actions=('P1Done', 'P2Done', 'P3Done'))
    run.add_tlc(res, 'Cli exhaustive: every candidate list over the files of two species + distractors, every explicit / excluded '
                     'subset, every iteration order of the three passes: OrderIndependent, NeverReAddsExplicit')
    cases = cases_from_dump(res.dump_path)
    os.remove(res.dump_path)
    if len(cases) < 500:
        raise tlc.TLCError('vacuous Cli run: %d cases' % len(cases))
    rng = random.Random(run.seed)
    nprng = np.random.default_rng(run.seed)
    pool = Pool4(os.path.join(run.scratch, 'dir2'), run.seed)
    pool.sysfile, _order = pool.system('system2.gro', ['A', 'B'], nprng)
    import gaddlemaps._cli as cli
    from gaddlemaps import Alignment
    # --- spec -> code: every TLC case through the real sort_molecules, in-process (listing orders) ...
    nviol = 0

    def expect(c, insys):
        have = {tuple(f) for f in c['cands']}

        def coords(s):
            return [f for f in (('%s' % s, 'coorAA'), ('AB', 'coorAB')) if f in have and (f[1] == 'coorAA' or s in ('A', 'B'))]
        disc = sorted(s for s in insys if s not in c['explicit'] and all((s, r) in have for r in ('topCG', 'topAA')) and coords(s))
        return disc, sorted(set(c['explicit']) | (set(disc) - set(c['exclude'])))

    def judge(c, result_or_exc, how, insys=('A', 'B')):
        disc, _ = expect(c, insys)
        if isinstance(result_or_exc, dict) and result_or_exc.get('ok') is False:
            return run.violation({'check': 'discover:crash:' + result_or_exc['type'], 'how': how.split(':')[0]},
                                 {'engine': 'cli', 'spec': 'MC_Cli', 'case': c, 'how': how, 'text': result_or_exc['text']})
        dec = decode_result(pool, result_or_exc)
        have = {tuple(f) for f in c['cands']}
        want = [[s, [s, 'topCG'], [s, 'topAA'], [s, 'coorAA']] for s in disc]
        # the end coordinates of a species: its own file, or the shared one (either, if both are listed)
        ok = len(dec) == len(want) and all(d_[:3] == w_[:3] and tuple(d_[3]) in have and
                                          (d_[3] == [w_[0], 'coorAA'] or (d_[3] == ['AB', 'coorAB'] and w_[0] in ('A', 'B')))
                                          for d_, w_ in zip(dec, want))
        if not ok:
            return run.violation({'check': 'discover:assignment_differs_from_specification', 'how': how.split(':')[0]},
                                 {'engine': 'cli', 'spec': 'MC_Cli', 'case': c, 'how': how, 'observed': dec, 'expected': want})
        return False

    for ci, c in enumerate(cases):
        files = [pool.path(tuple(f)) for f in c['cands']]
        for o in range(2):
            order = list(files)
            rng.shuffle(order)
            known = [pool.triple(s, 'pool' if (ci + o) % 3 == 0 else 'explicit') for s in c['explicit']]
            try:
                with contextlib.redirect_stdout(io.StringIO()):
                    r = cli.sort_molecules(pool.sysfile, order, known)
            except Exception as exc:
                import traceback
                r = {'ok': False, 'type': type(exc).__name__, 'text': traceback.format_exc()[-500:]}
            judge(c, r, 'in-process:order%d' % o)
        run.case(('case', json.dumps(c, sort_keys=True)), nontrivial=True)
    run.traces += len(cases)
    # --- a candidate directory regenerated in place (same paths, other species) between two discoveries of one process
    import shutil
    regen = os.path.join(run.scratch, 'regen')
    os.makedirs(regen, exist_ok=True)
    same_paths = [os.path.join(regen, 'mol_CG.itp'), os.path.join(regen, 'mol_AA.itp'), os.path.join(regen, 'mol_AA.gro')]
    seen_species = []
    for sp in ('A', 'B', 'A'):
        for src, dst in zip([pool.path((sp, 'topCG')), pool.path((sp, 'topAA')), pool.path((sp, 'coorAA'))], same_paths):
            shutil.copyfile(src, dst)
        try:
            with contextlib.redirect_stdout(io.StringIO()):
                r = cli.sort_molecules(pool.sysfile, list(same_paths), [])
            seen_species.append(sorted(n for n, info in r.items() if len(info) == 3))
        except Exception as exc:
            seen_species.append(['<%s>' % type(exc).__name__])
    run.case(('regenerated-directory',), nontrivial=True)
    if seen_species != [['A'], ['B'], ['A']]:
        run.violation({'check': 'discover:stale_after_candidate_files_changed', 'how': 'in-process'},
                      {'engine': 'cli', 'spec': 'MC_Cli', 'expected': [['A'], ['B'], ['A']], 'observed': seen_species,
                       'paths': same_paths})
    # --- ... and in sub-processes under several hash seeds
    seeds = [0, 1, 2, 3] if quick else list(range(12))
    sub_cases = cases if not quick else [c for i, c in enumerate(cases) if i % 3 == run.seed % 3]
    for c in sub_cases:
        c['orders'] = 1
    jobs = make_jobs(pool, sub_cases, rng, ['A', 'B'])
    with Pool(min(len(seeds), 12)) as p:
        outs = p.starmap(run_sub, [(jobs, hs, run.scratch, 'd%d' % hs) for hs in seeds])
    for hs, out in zip(seeds, outs):
        for j in jobs:
            ci = int(j['id'].split('.')[0])
            r = out[j['id']]
            judge(sub_cases[ci], r if not r['ok'] else r['result'], 'subprocess:PYTHONHASHSEED=%d' % hs)
    run.extra['hash_seeds'] = seeds
    run.extra['subprocess_discoveries'] = len(jobs) * len(seeds)
    # --- main(): explicit triples vs the library workflow, default / requested output path, exclusion
    traces = []
    pool4 = Pool4(os.path.join(run.scratch, 'dir4'), run.seed + 1)
    nmain = 40 if quick else 240
    steps = 2
    all_present = ['A', 'B', 'C', 'D']
    plans = []
    for k in range(nmain):
        r = np.random.default_rng(run.seed * 1000003 + k)
        # every seventh start system is tiny (one or two molecules): smaller than a single end-resolution molecule
        present = all_present if k % 7 not in (3, 5) else (['A'] if k % 2 == 0 else ['A', 'C'])
        sysfile, _ = pool4.system(('sys_%d.gro' if k % 5 else 'sys.part%04d.eq.gro') % k, present, r, nmol=(int(r.integers(4, 12)) if k % 7 not in (3, 5) else len(present)))   # input names with several dots too
        pool4.sysfile = sysfile
        auto = k % 2 == 0
        explicit = [str(s) for s in r.choice(present, min(len(present), int(r.integers(0 if auto else 1, 3))), replace=False)]
        if not auto and k % 4 == 1:
            # two explicit species, the one with a one- or two-bead start molecule first (its exchange map draws random
            # numbers: the order of alignments and map constructions matters for the random stream)
            explicit = ['D', str(r.choice(['A', 'B', 'C']))] if len(present) == 4 else list(present[:1])
        cands = []
        if auto:
            for s in present:
                for role in ('topCG', 'topAA', 'coorAA'):
                    if r.random() < 0.85:
                        cands.append([s, role])
            for f in (['Z', 'topOther'], ['A', 'topClone'], ['A', 'coorCG'], ['-', 'txt'], ['-', 'sys']):
                if r.random() < 0.5:
                    cands.append(f)
            if r.random() < 0.4:
                # an ion-pair file serves A and B; their own coordinate files are then often missing
                cands = [f for f in cands if not (f[1] == 'coorAA' and f[0] in ('A', 'B') and r.random() < 0.7)] + [['AB', 'coorAB']]
        c = {'cands': cands, 'explicit': explicit, 'exclude': []}
        disc, _m = expect(c, present)
        exclude = []
        if auto and k % 4 == 0 and disc:
            exclude = sorted(set([disc[int(r.integers(0, len(disc)))]] + [str(s) for s in r.choice(present, int(r.integers(0, 2)), replace=False)]))
            # names that exclude nothing: a solvent without candidate files, a species given explicitly, a name listed twice
            exclude += [x for x, p_ in (('SOL', 0.5), ('W', 0.3), ('ABCD', 0.3), ('XAX', 0.2)) if r.random() < p_]     # names that merely contain a species' name
            exclude += [e_ for e_ in explicit if r.random() < 0.5]
            if r.random() < 0.3:
                exclude.append(exclude[0])
        c['exclude'] = exclude
        disc, mapped = expect(c, present)
        files = [pool4.path(tuple(f)) for f in cands]
        r.shuffle(files)
        known = [pool4.triple(s, 'renamed' if (not auto and k % 4 == 3) else 'explicit') for s in explicit]
        plan = {'k': k, 'c': c, 'auto': auto, 'mapped': mapped, 'files': files, 'known': known, 'sysfile': sysfile, 'ev': []}
        if auto:
            try:
                with contextlib.redirect_stdout(io.StringIO()):
                    res_ = cli.sort_molecules(sysfile, files, known)
                plan['ev'].append({'op': 'Discover', 'crashed': False, 'result': [[n, a, b, c_] for n, a, b, c_ in decode_result(pool4, res_)]})
            except Exception as exc:
                plan['ev'].append({'op': 'Discover', 'crashed': True, 'result': [], 'text': repr(exc)[:200]})
        if mapped:
            plan['scale'] = float(r.choice([0.5, 1.0, 0.25]))
            plan['given'] = bool(k % 3 != 0)
            plan['outp'] = os.path.join(run.scratch, 'dir4', 'out_%d.gro' % k) if plan['given'] else \
                os.path.join(os.path.dirname(sysfile), 'mapped_' + os.path.basename(sysfile))
            argv = [sysfile]
            for t in known:
                argv += ['--mol'] + t
            if auto and files:
                argv += ['--auto'] + files
            if exclude:
                argv += ['--exclude'] + exclude
            argv += ['--scale', repr(plan['scale'])]
            if plan['given']:
                argv += ['-o', plan['outp']]
            plan['seed'] = int(r.integers(0, 2 ** 31))
            plan['hs'] = int(r.integers(0, 1000))
            cwd = None
            if k % 5 == 2 and not plan['given']:
                # typed inside the data directory: bare file names, default output name next to the input (= here)
                cwd = os.path.dirname(sysfile)

                def rel(x):
                    return os.path.relpath(x, cwd) if isinstance(x, str) and os.path.isabs(x) and os.path.exists(x) else x
                argv = [rel(a) for a in argv]
            if k % 5 == 3 and plan['given']:
                # typed in another directory than the input's, the output given as a bare / relative name: it is resolved
                # against the current directory like any path on a command line
                cwd = os.path.join(run.scratch, 'dir4', 'cwd_%d' % k)
                os.makedirs(os.path.join(cwd, 'out'), exist_ok=True)
                relname = 'result_%d.gro' % k if k % 2 else os.path.join('out', 'result_%d.gro' % k)
                plan['outp'] = os.path.join(cwd, relname)
                argv = [relname if a == outp_given else a for a in argv] if (outp_given := argv[argv.index('-o') + 1]) else argv
            plan['job'] = [{'id': 'm', 'kind': 'main', 'argv': argv, 'seed': plan['seed'], 'steps_factor': steps, 'cwd': cwd}]
        plans.append(plan)
    todo = [p_ for p_ in plans if 'job' in p_]
    with Pool(16) as p:
        outs = p.starmap(run_sub, [(p_['job'], p_['hs'], run.scratch, 'm%d' % p_['k']) for p_ in todo])
    for p_, o in zip(todo, outs):
        out = o['m']
        outp = p_['outp']
        ok = out['ok'] and os.path.exists(outp)
        p_['ev'].append({'op': 'Main', 'ran': bool(out['ok']), 'outAtExpectedPath': bool(ok), 'mapped': mapped_species(pool4, outp) if ok else [],
                         'text': out.get('text', '')[-300:], 'hashseed': p_['hs']})
        if ok and not p_['auto']:
            try:
                lib = os.path.join(run.scratch, 'dir4', 'lib_%d.gro' % p_['k'])
                library_workflow(p_['sysfile'], p_['known'], p_['scale'], lib, p_['seed'], steps)
                p_['ev'].append({'op': 'Equal', 'same': open(lib, 'rb').read() == open(outp, 'rb').read()})
            except Exception as exc:
                import traceback
                p_['ev'].append({'op': 'Exception', 'type': type(exc).__name__, 'text': traceback.format_exc()[-600:]})
            finally:
                Alignment.STEPS_FACTOR = 5000
    for tid, p_ in enumerate(plans, 1):
        traces.append({'tid': tid, 'cfg': p_['c'], 'meta': {'k': p_['k'], 'auto': p_['auto'], 'expected_mapped': p_['mapped']}, 'ev': p_['ev']})
    part = os.path.join(run.scratch, 'cli.ndjson')
    with open(part, 'w') as fh:
        for t in traces:
            fh.write(json.dumps(t) + '\n')
    verdicts = validate_batches('Trace_Cli', TRACE_CFG, [part], run.scratch, timeout=3000, run=run, heap='4g')
    for tr in traces:
        v = verdicts.get(tr['tid'])
        if v is None:
            raise tlc.TLCError('no verdict for trace %r' % tr['tid'])
        run.case(('main', tr['meta']['k']), nontrivial=True)
        run.traces += 1
        if v[0] == 'ACC':
            continue
        e = tr['ev'][v[2] - 1] if 0 < v[2] <= len(tr['ev']) else {}
        run.violation({'check': 'trace:' + v[3], 'auto': tr['meta']['auto']},
                      {'engine': 'cli', 'spec': 'Trace_Cli', 'failing_clause': v[3], 'event': e, 'cfg': tr['cfg'], 'meta': tr['meta']})
    run.samples.append({'case': cases[len(cases) // 2]})
    run.rule = ('cases = (candidate file list, explicit species, excluded species): every case of MC_Cli realised as files and run through '
                'sort_molecules under shuffled listing orders and several PYTHONHASHSEED values; random four-species directories through '
                'sort_molecules and main() (sub-process, random hash seed), explicit-only runs compared byte for byte with the library workflow')
    run.extra.update({'tlc_cases': len(cases), 'main_runs': nmain})
    run.assumptions += ['at most one file per (species, role) among the candidates; distractors cannot match a species by construction',
                        'alignment step factor lowered to 2 for main() and the library workflow alike (same random stream)']


def main_c20(run):
    if run.replay:
        run.note('replay re-runs the seeded check')
    check(run)
