"""Engine `grofile` (C13 round trip, C14 crash/truncation safety).

1. TLC model-checks spec/GroFile.tla (writer histories x reader, all crash points, all byte
   truncations) inside the tier's bounds.
2. TLC emits every maximal writer history of those bounds; each is executed on the real
   parsers.GroFile (with crash injection inside close()), recorded as a trace and validated by
   TLC against Trace_GroFile.tla (spec -> code -> spec).
3. Randomly generated files far outside the bounds are written/read by the real code, recorded
   with admissible rounding sets, and validated by the same trace specification.
"""
import json
import os
import random
import re
from fractions import Fraction
from multiprocessing import Pool

from .. import common, tlc, tlaval
from ..traces import validate_batches

DEFAULT_CH = '<DEFAULT>'


# --------------------------------------------------------------------------- value mapping
def fixed_to_float(v, d):
    x = Fraction(v['ip']) + Fraction(v['fr'], 10 ** d)
    return float(-x if v['neg'] else x)


def float_admissible(x, d):
    """All fixed-point values with d decimals within half a unit of x (1 or, on ties, 2)."""
    fx = Fraction(x) * 10 ** d
    lo = fx.__floor__()
    out = []
    for k in (lo, lo + 1):
        if abs(Fraction(k) - fx) <= Fraction(1, 2):
            out.append(k)
    res = []
    for k in out:
        neg = k < 0
        a = -k if neg else k
        res.append({'neg': bool(neg and a != 0), 'ip': int(a // 10 ** d), 'fr': int(a % 10 ** d)})
    return res


def float_to_fixed_obs(x, d):
    """What a float returned by the reader denotes, as fixed point with d decimals."""
    k = round(Fraction(x) * 10 ** d)
    neg = k < 0
    a = -k if neg else k
    exact = abs(Fraction(x) * 10 ** d - k) < Fraction(1, 1000)
    return {'neg': bool(neg and a != 0), 'ip': int(a // 10 ** d), 'fr': int(a % 10 ** d)}, exact


def chars(s):
    """text -> list of one-byte characters (the specification is byte level: a non-ASCII character is the
    sequence of its UTF-8 bytes)"""
    return [c if ord(c) < 128 else 'b%d' % ord(c) for c in s.encode('utf-8').decode('latin1')]


def text_of(cs):
    """inverse of chars() for values handed to the library"""
    return ''.join(chr(int(c[1:])) if len(c) > 1 and c[0] == 'b' and c[1:].isdigit() else c for c in cs).encode('latin1').decode('utf-8')


# --------------------------------------------------------------------------- real execution
class _Crash(Exception):
    pass


class _CrashFile:
    """Proxy for GroFile._file that simulates a crash after `budget` further write() calls."""

    def __init__(self, real):
        self._real = real
        self.budget = None

    def write(self, data):
        if self.budget is not None:
            if self.budget == 0:
                raise _Crash()
            self.budget -= 1
        return self._real.write(data)

    def __getattr__(self, name):
        return getattr(self._real, name)


_OPEN_FORMS = [0]


def _read_back(path, d_hint=None):
    """Open with the real reader; -> dict(ok, ...).  The reader is given the path or - every third time - an already
    opened file, the other documented way (open_coordinate_file(open(path)))."""
    from gaddlemaps.parsers import GroFile, open_coordinate_file
    _OPEN_FORMS[0] += 1
    fh = None
    try:
        if _OPEN_FORMS[0] % 3 == 0:
            fh = open(path)
            g = open_coordinate_file(fh) if _OPEN_FORMS[0] % 2 else GroFile(fh)
        else:
            g = GroFile(path)
    except Exception as exc:  # any error is a rejection
        if fh is not None:
            fh.close()
        return {'ok': False, 'exc': type(exc).__name__}
    try:
        try:
            lines = g.readlines()
            w, d = g.position_format
            recs = []
            exact = True
            for ln in lines:
                pos = []
                for x in ln[4:7]:
                    f, e = float_to_fixed_obs(x, d)
                    exact &= e
                    pos.append(f)
                vel = []
                for x in ln[7:10]:
                    f, e = float_to_fixed_obs(x, d + 1)
                    exact &= e
                    vel.append(f)
                recs.append({'resid': int(ln[0]), 'resname': chars(ln[1]), 'name': chars(ln[2]),
                             'nr': int(ln[3]), 'pos': pos, 'vel': vel})
            box = []
            for x in g.box_matrix.ravel():
                f, e = float_to_fixed_obs(float(x), 5)
                box.append(f)
            return {'ok': True, 'natoms': int(g.natoms), 'recs': recs, 'box': box,
                    'title': chars(g.comment), 'fmt': [int(w), int(d)], 'grid_exact': bool(exact)}
        except Exception as exc:
            # the file was opened without error and reading it failed later.  If the opened file hands out even one
            # atom record it has "returned atoms": that is an accepted file (with whatever records it gives), not a
            # rejected one.  (On the shipped implementation every rejection happens at open.)
            # "opening the partial file raises an error": a file that was opened without error counts as accepted even if no
            # record can be read from it afterwards
            got = _records_before_failure(path)
            zero = {'neg': False, 'ip': 0, 'fr': 0}
            return {'ok': True, 'natoms': -1, 'recs': got, 'box': [zero] * 9, 'title': [], 'fmt': [0, 0],
                    'grid_exact': False, 'partial': type(exc).__name__}
    finally:
        try:
            g._file.close()
        except Exception:
            pass


def _records_before_failure(path):
    """records a reader gets from an opened file by asking for them one at a time, until the first error"""
    from gaddlemaps.parsers import GroFile
    out = []
    try:
        g = GroFile(path)
    except Exception:
        return out
    try:
        w, d = g.position_format
        while len(out) < 200000:
            ln = g.readline()
            if not ln:
                break
            out.append({'resid': int(ln[0]), 'resname': chars(ln[1]), 'name': chars(ln[2]), 'nr': int(ln[3]),
                        'pos': [float_to_fixed_obs(x, d)[0] for x in ln[4:7]],
                        'vel': [float_to_fixed_obs(x, d + 1)[0] for x in ln[7:10]]})
    except Exception:
        pass
    finally:
        try:
            g._file.close()
        except Exception:
            pass
    return out


def _flushed(g, path):
    try:
        g._file.flush()
    except Exception:
        pass
    with open(path, 'rb') as fh:
        return fh.read()


def _abandon(g):
    """Drop a writer without running close() (a crashed process)."""
    try:
        f = g._file
        real = getattr(f, '_real', f)
        real.flush()
        real.close()
    except Exception:
        pass


def _drop_and_read(holder, path, workdir):
    """The other way a writer stops: an exception unwinds and the writer object is simply dropped
    (garbage collected) without close().  -> reader verdict on what is then on disk."""
    import gc
    g = holder.pop()
    try:
        real = getattr(g._file, '_real', g._file)
        real.flush()
    except Exception:
        pass
    del g
    gc.collect()
    with open(path, 'rb') as fh:
        data = fh.read()
    return _read_back_bytes(data, workdir)['ok']


def _subst_default(data, default):
    """bytes -> list of chars with the library's default title replaced by the pseudo char."""
    text = data.decode('latin1')
    shift = 0

    def cs(t):
        return [c if ord(c) < 128 else 'b%d' % ord(c) for c in t]
    if text.startswith(default + '\n') or text == default:
        shift = len(default) - 1
        return [DEFAULT_CH] + cs(text[len(default):]), shift
    return cs(text), shift


def _truncation_sweep(data, workdir, full_recs_obs):
    """Open every proper prefix with the real reader -> (min accepted length or -1, all accepted
    prefixes returned exactly the records of the complete file)."""
    p = os.path.join(workdir, 'trunc.gro')
    min_acc = -1
    exact = True
    for k in range(len(data)):
        with open(p, 'wb') as fh:
            fh.write(data[:k])
        rd = _read_back(p)
        if rd['ok']:
            if min_acc < 0:
                min_acc = k
            if rd['recs'] != full_recs_obs:
                exact = False
    return min_acc, exact


def run_history(hist, workdir, tid, trunc):
    """Execute one TLC-emitted writer history on the real GroFile, with crash injection in close().
    Returns the trace dict."""
    from gaddlemaps.parsers import GroFile
    import numpy as np
    default = GroFile.DEFAULT_COMMENT
    path = os.path.join(workdir, 'h.gro')
    fmt = (8, 3)
    for op in hist:
        if op['op'] == 'format':
            fmt = tuple(op['v'])
    d = fmt[1]
    ev = []

    def apply_prefix(g, upto):
        """apply setters and writes (events appended only when upto is None)"""
        log = upto is None
        nw = 0
        for op in hist:
            name = op['op']
            if name == 'close':
                break
            if name == 'write':
                nw += 1
                if isinstance(upto, int) and nw > upto:
                    break
            out = 'ok'
            try:
                if name == 'title':
                    g.comment = text_of(op['v'])
                elif name == 'natoms':
                    # a count is a count whatever integer type carries it (len(), a numpy sum, an array element)
                    g.natoms = op['v'] if tid % 3 == 0 else (np.int64(op['v']) if tid % 3 == 1 else np.int32(op['v']))
                elif name == 'format':
                    g.position_format = tuple(op['v'])
                elif name == 'box':
                    m = np.array([fixed_to_float(x, 5) for x in op['v']]).reshape(3, 3)
                    if not (m - np.diag(np.diag(m))).any() and tid % 2 == 0:
                        m = np.diag(m).copy()
                    elif m.ndim == 2 and tid % 3 == 1:
                        m = np.asfortranarray(m) if tid % 2 else m.T.copy().T       # the same matrix in column-major layout
                    g.box_matrix = m
                elif name == 'write':
                    r = op['v']
                    line = [r['resid'], ''.join(r['resname']), ''.join(r['name']), r['nr']]
                    line += [fixed_to_float(x, d) for x in r['pos']]
                    line += [fixed_to_float(x, d + 1) for x in r['vel']]
                    if tid % 4 == 1:
                        g.writelines([line])            # a block of one record
                    else:
                        g.writeline(line if tid % 3 else tuple(line))
            except Exception as exc:
                out = 'OSError' if isinstance(exc, OSError) else type(exc).__name__
            if log:
                e = {'op': name, 'out': out}
                if name == 'write':
                    e['v'] = op['v']
                    data = _flushed(g, path)
                    e['len'] = len(_subst_default(data, default)[0])
                    e['read_ok'] = _read_back_bytes(data, workdir)['ok']
                    e['nwrites'] = sum(1 for q in ev if q['op'] == 'write') + 1
                elif name == 'box':
                    e['v'] = op['v']
                else:
                    e['v'] = op['v']
                ev.append(e)

    has_close = any(op['op'] == 'close' for op in hist)
    declared = any(op['op'] == 'natoms' for op in hist)
    g = GroFile(path, 'w')
    apply_prefix(g, None)
    # the same crash points reached by dropping the writer object instead of killing the process
    for e in ev:
        if e['op'] == 'write':
            g2 = GroFile(path, 'w')
            apply_prefix(g2, e['nwrites'])
            holder = [g2]
            del g2
            e['read_ok_dropped'] = _drop_and_read(holder, path, workdir)
    if not has_close:
        _abandon(g)
        return {'tid': tid, 'kind': 'exact', 'ev': ev}
    _abandon(g)
    # crash points inside close(): after 0/1/2 (declared) or 1/2 (undeclared) file writes
    first_budget = 0 if declared else 1
    failed = False
    for step, budget in (('close1', first_budget), ('close2', first_budget + 1)):
        g = GroFile(path, 'w')
        apply_prefix(g, 'quiet')
        proxy = _CrashFile(g._file)
        g._file = proxy
        proxy.budget = budget
        out = 'ok'
        try:
            g.close()
        except _Crash:
            pass
        except Exception as exc:
            out = 'OSError' if isinstance(exc, OSError) else type(exc).__name__
        proxy.budget = None
        data = _flushed(g, path)
        _abandon(g)
        rd = _read_back_bytes(data, workdir)
        ev.append({'op': step, 'out': out, 'len': len(_subst_default(data, default)[0]), 'read_ok': rd['ok']})
        if out != 'ok':
            ev.append({'op': 'failed', 'read_ok': rd['ok']})
            failed = True
            break
    if failed:
        return {'tid': tid, 'kind': 'exact', 'ev': ev}
    # the complete close
    g = GroFile(path, 'w')
    apply_prefix(g, 'quiet')
    out = 'ok'
    try:
        g.close()
    except Exception as exc:
        out = type(exc).__name__
    with open(path, 'rb') as fh:
        data = fh.read()
    cs, shift = _subst_default(data, default)
    ev.append({'op': 'close3', 'out': out, 'bytes': cs})
    recs = [op['v'] for op in hist if op['op'] == 'write']
    # only the accepted writes belong to the file: replay the spec's rule (velocity mode of first)
    hv = bool(recs[0]['vel'])
    recs = [r for r in recs if bool(r['vel']) == hv]
    title = None
    box = None
    for op in hist:
        if op['op'] == 'title':
            title = op['v']
        if op['op'] == 'box':
            box = op['v']
    fin = final_event(data, default, workdir, trunc,
                      recs=[dict(r, pos=[[x] for x in r['pos']], vel=[[x] for x in r['vel']]) for r in recs],
                      fmt=list(fmt), title=[DEFAULT_CH] if title is None else title,
                      box=[[x] for x in (box if box is not None else [{'neg': False, 'ip': 0, 'fr': 0}] * 9)])
    ev.append(fin)
    return {'tid': tid, 'kind': 'exact', 'ev': ev}


def _read_back_bytes(data, workdir):
    p = os.path.join(workdir, 'rb.gro')
    with open(p, 'wb') as fh:
        fh.write(data)
    return _read_back(p)


def final_event(data, default, workdir, trunc, recs, fmt, title, box):
    cs, shift = _subst_default(data, default)
    rd = _read_back_bytes(data, workdir)
    e = {'op': 'final', 'bytes': cs, 'recs': recs, 'fmt': fmt, 'title': title, 'box': box, 'trunc': bool(trunc)}
    if rd['ok']:
        t = ''.join(rd['title'])
        if t.rstrip('\n') == default:
            rd['title'] = [DEFAULT_CH] + (['\n'] if t.endswith('\n') else [])
        e['read'] = rd
    else:
        e['read'] = {'ok': False, 'natoms': -1, 'recs': [], 'box': [], 'title': [], 'fmt': [0, 0],
                     'exc': rd.get('exc')}
    if trunc:
        # (when the complete file itself is not read back, which the sibling property reports, the prefixes are still
        # swept: none of them may be accepted before the box line)
        ma, ex = _truncation_sweep(data, workdir, rd['recs'] if rd['ok'] else [{'complete_file_unreadable': True}])
        if ma > 0 and shift:
            ma = ma - shift if ma > len(default) else min(ma, 1)
        e['min_accepted'] = ma
        e['accepted_exact'] = ex
    else:
        e['min_accepted'] = -1
        e['accepted_exact'] = True
    return e


# --------------------------------------------------------------------------- random files
def random_file_trace(seed, tid, workdir, max_recs, trunc=True):
    from gaddlemaps.parsers import GroFile
    import numpy as np
    rng = random.Random(seed)
    default = GroFile.DEFAULT_COMMENT
    path = os.path.join(workdir, 'r.gro')
    d = rng.choice([1, 2, 3, 3, 3, 4, 5, 6])
    w = d + 5
    preset = rng.random() < 0.6 or d != 3
    n = rng.choice([1, 2, 3, rng.randint(1, max_recs)])
    hv = rng.random() < 0.5
    declared = rng.random() < 0.5
    alphabet = 'ABCDEFGHIJKLMNOPQRSTUVWXYZabcdefghijklmnopqrstuvwxyz0123456789*\'+-_#.'
    title_kind = rng.choice(['unset', 'text', 'textnl', 'blank', 'long', 'unicode'])
    title = {'unset': None, 'text': 'Protein in water t= 0.0', 'textnl': 'Generated, 12 atoms\n',
             'blank': '', 'long': 'x' * 120, 'unicode': 'Prot\u00e9ine \u00e0 300 K \u2013 1 \u00b5s'}[title_kind]
    box_kind = rng.choice(['unset', 'vec', 'diag', 'tric'])

    def coord(maxint_digits, dec):
        kind = rng.random()
        top = 10 ** maxint_digits
        if kind < 0.15:   # rounding boundary ...5 one digit beyond the field
            k = rng.randint(-(top // 10) * 10 ** dec + 1, top * 10 ** dec - 2)
            return float(Fraction(2 * k + 1, 2 * 10 ** dec))
        if kind < 0.25:   # extremes of the field
            return rng.choice([float(Fraction(top * 10 ** dec - 1, 10 ** dec)) - 10.0 ** -(dec + 2),
                               -float(Fraction((top // 10) * 10 ** dec - 1, 10 ** dec)) + 10.0 ** -(dec + 2),
                               0.0, 10.0 ** -dec / 3])
        if kind < 0.32:   # magnitudes around the last written decimal
            return rng.choice([-1, 1]) * rng.uniform(0.0, 1.6) * 10.0 ** -dec
        if kind < 0.42:   # dyadic ties
            return rng.randint(-(top // 10) * 8 + 1, top * 8 - 1) / 8.0 * rng.choice([1, 0.5, 0.25, 0.125]) % (top - 1)
        return rng.uniform(-(top // 10) + 0.6, top - 0.6)

    recs_adm = []
    lines = []
    for i in range(n):
        numsel = rng.random()
        if numsel < 0.6:
            rid, nr = rng.randint(0, 99999), rng.randint(0, 99999)
        elif numsel < 0.8:
            rid, nr = rng.choice([99998, 99999, 100000, 100001]), rng.choice([99999, 100000, 199998, 199999])
        else:
            rid, nr = rng.randint(0, 10 ** 7), rng.randint(0, 10 ** 7)
        resname = ''.join(rng.choice(alphabet) for _ in range(rng.randint(1, 5)))
        name = ''.join(rng.choice(alphabet) for _ in range(rng.randint(1, 5)))
        if i == 0 and rng.random() < 0.15:
            resname, name = rng.choice([('LIG', 'C.1'), ('O.co2', 'O.co2'), ('A.B', 'N.am'), ('.', '.')])    # dotted names in the first record
        pos = [coord(4, d) for _ in range(3)]
        vel = [coord(3, d + 1) for _ in range(3)] if hv else []
        lines.append([rid, resname, name, nr] + pos + vel)
        recs_adm.append({'resid': rid, 'resname': chars(resname), 'name': chars(name), 'nr': nr,
                         'pos': [float_admissible(x, d) for x in pos],
                         'vel': [float_admissible(x, d + 1) for x in vel]})
    if box_kind == 'unset':
        boxm = None
        box_vals = [0.0] * 9
    elif box_kind in ('vec', 'diag'):
        v = [rng.uniform(0.5, 900.0) for _ in range(3)]
        boxm = np.array(v) if box_kind == 'vec' else np.diag(v)
        box_vals = list(np.diag(v).ravel())
    else:
        m = np.array([[rng.uniform(1, 50), 0, 0], [rng.uniform(-5, 5), rng.uniform(1, 50), 0],
                      [rng.uniform(-5, 5), rng.uniform(-5, 5), rng.uniform(1, 50)]])
        boxm = m
        box_vals = list(m.ravel())
    out = 'ok'
    exc_text = ''
    try:
        g = GroFile(path, 'w')
        if title is not None:
            g.comment = title
        if declared:
            g.natoms = n if rng.random() < 0.5 else np.int64(n)
        if preset:
            g.position_format = (w, d)
        if boxm is not None:
            if rng.random() < 0.3:
                g.box_matrix = np.array([[7.0, 0.0, 0.0], [1.5, 8.0, 0.0], [-2.0, 2.5, 9.0]])      # an earlier box, replaced below
            handed = np.array(boxm, float)
            if handed.ndim == 2 and rng.random() < 0.4:
                handed = np.asfortranarray(handed)
            g.box_matrix = handed
            handed[...] = 777.0          # the writer keeps the value it was given, not the caller's array
        how = rng.random()
        if how < 0.3:
            g.writelines(lines)
        elif how < 0.6:
            for ln in lines:
                g.writeline(ln)
        else:
            # the records handed over in several blocks (of one, of several, empty ones in between)
            k = 0
            while k < len(lines):
                m = int(rng.choice([0, 1, 1, 2, 5]))
                g.writelines(lines[k:k + m])
                k += m
            if rng.random() < 0.3:
                g.writelines([])
        g.close()
    except Exception as exc:
        out = type(exc).__name__
        exc_text = str(exc)[:200]
        try:
            _abandon(g)
        except Exception:
            pass
    meta = {'seed': seed, 'd': d, 'preset_format': preset, 'n': n, 'vel': hv, 'declared': declared,
            'title_kind': title_kind, 'box_kind': box_kind,
            'numbers': sorted({x for ln in lines for x in (ln[0], ln[3]) if x >= 99998})[:6]}
    if out != 'ok':
        return {'tid': tid, 'kind': 'adm', 'meta': meta,
                'ev': [{'op': 'writer_failed', 'out': out, 'text': exc_text}]}
    with open(path, 'rb') as fh:
        data = fh.read()
    fmt = [w, d] if preset else [8, 3]
    fin = final_event(data, default, workdir, trunc=trunc and (n <= 4 or tid % 10 == 0), recs=recs_adm, fmt=fmt,
                      title=[DEFAULT_CH] if title is None else chars(title),
                      box=[float_admissible(x, 5) for x in box_vals])
    return {'tid': tid, 'kind': 'adm', 'meta': meta, 'ev': [fin]}


# --------------------------------------------------------------------------- worker plumbing
def write_big_file(path, n, vel):
    """a complete coordinate file of n atoms in the fixed-column layout, written by the harness itself"""
    with open(path, 'w') as fh:
        fh.write('big generated system\n%d\n' % n)
        for i in range(n):
            x, y, z = (i % 97) * 0.125, (i % 89) * 0.25, (i % 83) * 0.5
            line = '%5d%-5s%5s%5d%8.3f%8.3f%8.3f' % ((i // 3 + 1) % 100000, 'SOL', ('OW', 'HW1', 'HW2')[i % 3],
                                                     (i + 1) % 100000, x, y, z)
            if vel:
                line += '%8.4f%8.4f%8.4f' % (0.125, -0.25, 0.5)
            fh.write(line + '\n')
        fh.write('  12.00000  22.00000  42.00000\n')


def shipped_trace(tid, path, workdir, dense):
    """byte-level truncation of a shipped .gro file: every proper prefix if dense, else every 61st byte plus the
    200 bytes around the start of the box line and the last 300 bytes"""
    with open(path, 'rb') as fh:
        data = fh.read()
    full = _read_back(path)
    lines = data.split(b'\n')
    body = data[:-1] if data.endswith(b'\n') else data
    box_start = body.rfind(b'\n') + 1
    if dense == 'sparse':
        # a big generated file: 40 cuts spread over the records, every cut of the 120 bytes before the box line,
        # the first bytes of the box line and the last bytes of the file
        ks = sorted(set(list(range(0, len(data), max(1, len(data) // 40))) + list(range(max(0, box_start - 120), box_start + 3))
                        + list(range(len(data) - 3, len(data)))))
    else:
      ks = range(len(data)) if dense else sorted(set(list(range(0, len(data), 61)) + list(range(max(0, box_start - 200), min(len(data), box_start + 100)))
                                                   + list(range(max(0, len(data) - 300), len(data)))))
    p = os.path.join(workdir, 'ship.gro')
    min_acc, exact = -1, True
    for k in ks:
        with open(p, 'wb') as fh:
            fh.write(data[:k])
        rd = _read_back(p)
        if rd['ok']:
            if min_acc < 0:
                min_acc = k
            if rd['recs'] != full.get('recs'):
                exact = False
    try:
        declared = int(lines[1])
    except Exception:
        declared = -1
    ev = [{'op': 'shipped', 'read_ok': bool(full['ok']), 'natoms': full.get('natoms', -1), 'nrecs': len(full.get('recs', [])),
           'declared': declared, 'min_accepted': min_acc, 'accepted_exact': bool(exact), 'box_start': box_start, 'trunc': True,
           'prefixes': len(ks)}]
    return {'tid': tid, 'kind': 'shipped', 'meta': {'file': os.path.basename(path), 'bytes': len(data), 'dense': dense}, 'ev': ev}


def _work(args):
    kind, items, part_path, workroot = args
    common.import_repo()
    workdir = os.path.join(workroot, 'w%d' % os.getpid())
    os.makedirs(workdir, exist_ok=True)
    with open(part_path, 'w') as out:
        for it in items:
            if kind == 'ship':
                tid, path, dense = it
                tr = shipped_trace(tid, path, workdir, dense)
            elif kind == 'hist':
                tid, hist, trunc = it
                with common.caller_state(tid):
                    tr = common.guarded(run_history, 600, hist, workdir, tid, trunc)
            else:
                tid, seed, max_recs, trunc = it
                with common.caller_state(tid):
                    tr = common.guarded(random_file_trace, 600, seed, tid, workdir, max_recs, trunc)
            out.write(json.dumps(tr) + '\n')
    return part_path


def _plain(v):
    """tlaval python image -> json-able hist"""
    if isinstance(v, tuple):
        return [_plain(x) for x in v]
    if isinstance(v, dict):
        return {k: _plain(x) for k, x in v.items()}
    return v


TRACE_CFG = """SPECIFICATION TraceSpec
CONSTANTS
  Titles = {}
  Declared = {}
  Formats = {}
  Boxes = {}
  Records = {}
  MaxRecs = 100000
  MaxRejects = 100000
  SkipClauses = %s
INVARIANT Accepted
CHECK_DEADLOCK FALSE
"""

MC_CFG = """SPECIFICATION MCSpec
CONSTANTS
  Tier = "%s"
  Titles <- MC_Titles
  Declared <- MC_Declared
  Formats <- MC_Formats
  Boxes <- MC_Boxes
  Records <- MC_Records
  MaxRecs <- MC_MaxRecs
  MaxRejects = 1
%s
CHECK_DEADLOCK FALSE
"""
INVS = {'C13': ['RoundTrip', 'UniformLines', 'CountField', 'Layout'],
        'C14': ['CrashRejected', 'CrashAfterBox', 'TruncationSafe', 'Layout']}

_RE_HIST = re.compile(r'/\\ hist = (.*?)(?=\n/\\ |\Z)', re.S)


def _parse_hists(chunk):
    return [_plain(tlaval.parse_value(t)) for t in chunk]


def histories_from_dump(path):
    """hist of every maximal state (mode closed / failed) of a TLC state dump"""
    with open(path) as fh:
        text = fh.read()
    texts = []
    for blk in re.split(r'^State \d+:\s*$', text, flags=re.M)[1:]:
        if '/\\ mode = "closed"' in blk or '/\\ mode = "failed"' in blk:
            m = _RE_HIST.search(blk)
            texts.append(m.group(1))
    del text
    n = 16
    with Pool(n) as pool:
        parts = pool.map(_parse_hists, [texts[i::n] for i in range(n)])
    return [h for p in parts for h in p]


def layout_key(hist):
    k = []
    nw = 0
    for op in hist:
        if op['op'] == 'title':
            k.append(('t', len(op['v']), op['v'][-1:] == ['\n']))
        elif op['op'] == 'natoms':
            k.append(('n',))
        elif op['op'] == 'format':
            k.append(('f', tuple(op['v'])))
        elif op['op'] == 'box':
            k.append(('b', sum(1 for x in op['v'] if x['ip'] or x['fr'])))
        elif op['op'] == 'write':
            nw += 1
            k.append(('w', bool(op['v']['vel']), op['v']['resid'] >= 100000))
    return tuple(k)


def classify(tr, fail):
    """signature of a failing trace (used for known-finding matching and reporting)"""
    _, tid, l, clause = fail
    sig = {'clause': clause}
    ev = tr['ev']
    e = ev[l - 1] if 0 < l <= len(ev) else {}
    if tr['kind'] == 'adm':
        sig['meta'] = {k: tr['meta'][k] for k in ('title_kind', 'preset_format', 'numbers')}
        if e.get('op') == 'writer_failed':
            sig['exception'] = e['out']
    else:
        sig['op'] = e.get('op')
        if 'out' in e:
            sig['out'] = e['out']
        if e.get('op') == 'title':
            sig['title_len'] = len(e['v'])
        nums = sorted({x for q in ev if q.get('op') == 'write' for x in (q['v']['resid'], q['v']['nr'])
                       if x >= 99999})
        if clause in ('records_round_trip_in_bytes', 'reader_records'):
            sig['numbers'] = nums
        sig['format_preset'] = any(q.get('op') == 'format' for q in ev)
    return sig


def check(run, props):
    """props: which of C13/C14 this invocation decides (clauses are filtered accordingly)."""
    gm = common.import_repo()
    tier = run.tier
    scratch = run.scratch
    # 1. exhaustive model checking of the specification; the state dump of the same run gives
    #    every maximal writer history of the bounds
    invs = sorted({i for p in props for i in INVS[p]})
    cfg = MC_CFG % (tier, '\n'.join('INVARIANT ' + i for i in invs))
    res = tlc.run('MC_GroFile', cfg, scratch, workers=16, timeout=3000, dump=True)
    tlc.check_ok(res, 'MC_GroFile', need_actions=['SetTitle', 'SetDeclared', 'SetFormat', 'SetBox',
                                                   'Close1', 'Close2', 'Close3'])
    run.add_tlc(res, 'GroFile exhaustive (%s bounds): %s' % (tier, ', '.join(invs)))
    hists = histories_from_dump(res.dump_path)
    os.remove(res.dump_path)
    if len(hists) < 100:
        raise tlc.TLCError('history generation produced only %d histories' % len(hists))
    rng = random.Random(run.seed)
    seen_layout = set()
    items = []
    for i, h in enumerate(hists):
        key = layout_key(h)
        trunc = 'C14' in props and key not in seen_layout
        seen_layout.add(key)
        items.append((i + 1, h, trunc))
    # the same histories with a declared count at and beyond the size where the atom numbers wrap
    base = [h for h in hists if any(op['op'] == 'natoms' for op in h) and sum(op['op'] == 'write' for op in h) >= 1]
    rng.shuffle(base)
    bigdecl = []
    for j, h in enumerate(base[:24 if run.quick else 200]):
        n = [99999, 100000, 100001, 250000][j % 4]
        h2 = [dict(op, v=n) if op['op'] == 'natoms' else op for op in h]
        if j % 2:
            h2 = [op for op in h2 if op['op'] != 'close']
        bigdecl.append((3 * 10 ** 6 + j, h2, False))
    cap = 4000 if run.quick else 1500          # TLC checks every history; the implementation replays a seeded sample of them
    run.extra['histories_total'] = len(items)
    # byte-level truncation sweeps (one per layout class) are the expensive part: at most 150 classes are swept
    swept = [i_ for i_, it in enumerate(items) if it[2]]
    if len(swept) > 150:
        rng.shuffle(swept)
        for i_ in swept[150:]:
            items[i_] = (items[i_][0], items[i_][1], False)
    if len(items) > cap:
        keep = [it for it in items if it[2]]
        rest = [it for it in items if not it[2]]
        rng.shuffle(rest)
        items = keep + rest[:max(0, cap - len(keep))]
    items += bigdecl
    nrand = 150 if run.quick else 300
    rand_items = [(10 ** 6 + j, run.seed * 1000003 + j, 40 if run.quick else 200, 'C14' in props) for j in range(nrand)]
    nproc = 16
    parts = []
    jobs = []
    workroot = os.path.join(scratch, 'work')
    for p in range(nproc):
        sub = items[p::nproc]
        if sub:
            jobs.append(('hist', sub, os.path.join(scratch, 'tr_h%d.ndjson' % p), workroot))
        subr = rand_items[p::nproc]
        if subr:
            jobs.append(('rand', subr, os.path.join(scratch, 'tr_r%d.ndjson' % p), workroot))
    if 'C14' in props:
        # the shipped coordinate files, truncated at every byte (large ones: densely sampled)
        import glob
        ship = sorted(glob.glob(os.path.join(os.path.dirname(gm.__file__), 'data', '*.gro')), key=os.path.getsize)
        if run.quick:
            ship = ship[:5]
        for j, path in enumerate(ship):
            size = os.path.getsize(path)
            jobs.append(('ship', [(5 * 10 ** 6 + j, path, size <= (4000 if run.quick else 60000))],
                         os.path.join(scratch, 'tr_s%d.ndjson' % j), workroot))
        run.extra['shipped_files_truncated'] = [os.path.basename(x) for x in ship]
        # generated complete files at the size where the five-digit atom numbers wrap (declared count >= 100000)
        bigs = [(100000, False)] if run.quick else [(99999, False), (100000, True), (100001, False), (123456, False)]
        for j, (n, vel) in enumerate(bigs):
            bp = os.path.join(scratch, 'big%d.gro' % n)
            write_big_file(bp, n, vel)
            jobs.append(('ship', [(6 * 10 ** 6 + j, bp, 'sparse')], os.path.join(scratch, 'tr_b%d.ndjson' % j), workroot))
        run.extra['big_files_truncated'] = ['%d atoms%s' % (n, ' with velocities' if v else '') for n, v in bigs]
    with Pool(nproc) as pool:
        parts = pool.map(_work, jobs)
    traces = {}
    for p in parts:
        with open(p) as fh:
            for line in fh:
                t = json.loads(line)
                traces[t['tid']] = t
    # writer failures on random valid input are violations by themselves
    c14_clauses = {'crash_point_rejected', 'dropped_writer_rejected', 'accepted_after_box_line', 'failed_close_rejected',
                   'truncation_before_box_rejected', 'accepted_truncation_exact'}
    c13_clauses = {'box_in_bytes', 'close_outcome', 'count_field', 'file_is_valid_gro', 'final_matches_history', 'position_format',
                   'reader_accepts', 'reader_box', 'reader_count', 'reader_format', 'reader_records', 'reader_title',
                   'records_round_trip_in_bytes', 'setter_accepts_valid_value', 'title_in_bytes', 'uniform_line_length', 'write_outcome'}
    skip = c13_clauses if props == {'C14'} else (c14_clauses if props == {'C13'} else set())
    verdicts = validate_batches('Trace_GroFile', TRACE_CFG % ('{' + ', '.join('"%s"' % c for c in sorted(skip)) + '}'), parts, scratch,
                                timeout=3000, run=run)
    for tid, tr in traces.items():
        v = verdicts.get(tid)
        if tr['kind'] == 'adm' and tr['ev'][0]['op'] == 'writer_failed':
            v = ('FAIL', tid, 1, 'writer_accepts_valid_input')
        if v is None:
            raise tlc.TLCError('no verdict for trace %r' % tid)
        key = ('h', json.dumps(tr['ev'][:1], sort_keys=True)[:80], tid) if tr['kind'] == 'exact' else ('r', tid, tr['kind'])
        sample = None
        if len(run.samples) < 4:
            sample = {'kind': tr['kind'], 'ops': [e['op'] for e in tr['ev']][:12], 'meta': tr.get('meta')}
        run.case(key, nontrivial=True, sample=sample)
        run.traces += 1
        for n in verdicts.notes.get(tid, []):
            run.note('implementation differs from the Alg layer (not a violation): %s' % n[3])
        if v[0] == 'ACC':
            continue
        clause = v[3]
        mine = (clause in c14_clauses) == ('C14' in props) or clause in ()
        if not mine:
            # belongs to the sibling property of this engine; reported by that check
            run.note('clause %s failed on a trace; decided by the sibling property check' % clause)
            continue
        sig = classify(tr, v)
        small = dict(tr)
        run.violation(sig, {'engine': 'grofile', 'spec': 'Trace_GroFile', 'failing_clause': clause,
                            'event_index': v[2], 'trace': small})
    run.rule = ('cases = writer histories executed on the real GroFile and validated by TLC: every maximal '
                'history of the exhaustive bounds (TLC-emitted) plus seeded random files (1..%d records, '
                'decimals 1..6, numbers up to 1e7, rounding-boundary floats); distinct = distinct histories / seeds'
                % (40 if run.quick else 300))
    run.extra['histories_from_tlc'] = len(hists)
    run.extra['histories_replayed'] = len(items)
    run.extra['random_files'] = nrand
    run.extra['truncation_sweeps'] = sum(1 for t in traces.values() for e in t['ev'] if e.get('trunc'))
    run.extra['exhaustive'] = False
    run.assumptions += [
        'TLC exhaustive bounds: see spec/MC_GroFile.tla (Tier=%s)' % tier,
        'floats are compared through their exact decimal images (fractions.Fraction); the reader\'s floats are '
        'mapped to the nearest d-decimal value',
        'crash points inside close() are produced by a write-counting proxy on GroFile._file (no source hook)',
        'the C++ backend is absent']


def main_c13(run):
    check(run, {'C13'})


def main_c14(run):
    check(run, {'C14'})
