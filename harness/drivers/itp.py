"""Engine `itp` (C15 topology reader, C16 ItpFile read-write-read).

TLC model-checks spec/Itp.tla (single-pass reader = Abs view, write/read round trip preserves the
view and is stable, conservation of informative lines) for every file of <= 4 (5) lines over a
palette of line shapes (repeated section names, empty / multiple trailing comments, lone ';',
blank, preprocessor lines).  Every such file, rendered to text with varied spacing, plus random
larger files, the 16 shipped topologies and generated topologies (gapped numbering, bonds split
over bonds/constraints/pairs, repeated sections, forests/cycles, chains of thousands of atoms) are
run through the real ItpFile / read_topology / MoleculeTop / are_connected and validated by TLC
against Trace_Itp.tla.
"""
import json
import os
import random
import re
from multiprocessing import Pool

from .. import common, tlc, tlaval
from ..traces import validate_batches

MC_CFG = """SPECIFICATION Spec
CONSTANTS
  Tier = "%s"
  Files <- MC_Files
INVARIANT PassIsView
INVARIANT RoundTrip
INVARIANT Conservation
CHECK_DEADLOCK FALSE
"""
TRACE_CFG = "SPECIFICATION TraceSpec\nCONSTANTS\n  Files = {}\n  SkipClauses = %s\nINVARIANT Accepted\nCHECK_DEADLOCK FALSE\n"
C15_CLAUSES = {'connectivity_test_answers', 'molecule_name', 'atoms_in_file_order', 'bond_graph', 'bonds_symmetric', 'atom_count',
               'connected_iff_one_component', 'copy_equal', 'copy_independent'}
C16_CLAUSES = {'header_lines', 'section_lines', 'section_names_in_order_of_first_appearance', 'rewritten_molecule_name',
               'rewritten_atoms_in_file_order', 'rewritten_bond_graph', 'rewritten_bonds_symmetric'}


# ---------------------------------------------------------------------------- rendering
def render_line(ln, rng, last=False):
    sp = lambda: rng.choice([' ', '  ', '\t', '   '])
    # between the words of a comment also: form feed, line separator, NEL - white space, but not ends of line
    cw = lambda words: ''.join(w if i == 0 else rng.choice([' ', ' ', ' ', '\x0c', '\u2028', '\x85']) + w for i, w in enumerate(words))
    k = ln['k']
    if k == 'sec':
        s = rng.choice(['[ %s ]', '[%s]', '[  %s  ]', '[ %s ]   ']) % ln['t'][0]
    elif k == 'blank':
        s = rng.choice(['', '   ', '\t'])
    elif k == 'pre':
        # directives inside #ifdef blocks are often indented in hand-written topologies
        s = (rng.choice(['  ', '\t', '    ']) if ln.get('indent') else '') + ' '.join(ln['t'])
    elif k == 'comm':
        s = rng.choice([';', '; ', ' ; ']) + ' ; '.join(cw(c) for c in ln['c'])
    else:
        s = rng.choice(['', ' ', '    ']) + sp().join(ln['t'])
        if ln['c']:
            s += rng.choice([' ;', ';', '  ; ']) + ' ' + ' ; '.join(cw(c) for c in ln['c'])
            if not any(ln['c']):
                s = s.rstrip() if rng.random() < 0.5 else s
    return s + ('' if last else '\n')


def render(file, rng, final_newline=True):
    out = []
    for i, ln in enumerate(file):
        out.append(render_line(ln, rng, last=(i == len(file) - 1 and not final_newline)))
    return ''.join(out)


# ---------------------------------------------------------------------------- observation
def _norm_text_line(raw):
    """normalise a raw header line the way the spec normalises lines"""
    s = raw.strip()
    if not s:
        return None
    if s.startswith('#'):
        return {'k': 'pre', 't': s.split(), 'c': []}
    if s.startswith(';'):
        return {'k': 'comm', 't': [], 'c': s[1:].split()}
    if ';' in s:
        a, b = s.split(';', 1)
        return {'k': 'cont', 't': a.split(), 'c': b.split()}
    return {'k': 'cont', 't': s.split(), 'c': []}


def observe(itp):
    """real ItpFile -> observed view (token level)"""
    header = [x for x in (_norm_text_line(r) for r in itp['header']) if x is not None]
    names, items = [], []
    for name, sec in itp.items():
        if name == 'header':
            continue
        names.append(name)
        its = []
        for ln in sec.lines:
            content = ln.content
            comment = ln.comment
            if content.startswith('#'):
                # an indented directive: the library keeps it verbatim as a content line; it is a directive
                its.append({'k': 'pre', 't': content.split(), 'c': []})
            elif content:
                its.append({'k': 'cont', 't': content.split(), 'c': comment.split()})
            elif ln.line.startswith('#'):
                its.append({'k': 'pre', 't': comment.split(), 'c': []})
            elif comment:
                its.append({'k': 'comm', 't': [], 'c': comment.split()})
        items.append(its)
    return {'header': header, 'names': names, 'items': items}


def big_file_events(workdir):
    """a topology of ~1.7 MB written by the harness: [ moleculetype ], [ atoms ], 33000 [ dihedrals ] lines, a closing
    [ position_restraints ] block; counted after reading, and after writing back and reading again"""
    from gaddlemaps.parsers import ItpFile
    p1 = os.path.join(workdir, 'big.itp')
    nd = 33000
    with open(p1, 'w') as fh:
        fh.write('[ moleculetype ]\nPOLY 3\n\n[ atoms ]\n')
        for i in range(1, 5):
            fh.write('%6d C %5d POL C%d %5d 0.0 12.011\n' % (i, 1, i, i))
        fh.write('\n[ dihedrals ]\n')
        for i in range(nd):
            fh.write('%6d %6d %6d %6d     9     0.0    10.0     3 ; term %d\n' % (1, 2, 3, 4, i))
        fh.write('\n[ position_restraints ]\n     1     1  1000  1000  1000 ; the last line\n')
    want = {'moleculetype': 1, 'atoms': 4, 'dihedrals': nd, 'position_restraints': 1}

    def counts(f):
        return {name: sum(1 for ln in f[name].lines if ln.content) for name in f if name != 'header'}
    f1 = ItpFile(p1)
    c1 = counts(f1)
    p2 = os.path.join(workdir, 'big_w.itp')
    f1.write(p2)
    f2 = ItpFile(p2)
    c2 = counts(f2)
    last_ok = bool('position_restraints' in f2 and any('1000' in ln.content for ln in f2['position_restraints'].lines))
    return [{'op': 'big', 'nlines': sum(want.values()), 'read': sum(c1.values()), 'rewritten': sum(c2.values()),
             'names_ok': bool([n for n in f1 if n != 'header'] == list(want) and [n for n in f2 if n != 'header'] == list(want)),
             'last_line_ok': last_ok}]


def file_events(path, workdir, with_topo):
    from gaddlemaps.parsers import ItpFile, read_topology
    from gaddlemaps.components import MoleculeTop, are_connected
    ev = []
    f = ItpFile(path)
    ev.append(dict(op='read', **observe(f)))
    p2 = os.path.join(workdir, 'w1.itp')
    f.write(p2)
    del f
    import gc
    gc.collect()
    f2 = ItpFile(p2)
    ev.append(dict(op='rewrite', **observe(f2)))
    p3 = os.path.join(workdir, 'w2.itp')
    f2.write(p3)
    del f2
    gc.collect()
    f3 = ItpFile(p3)
    ev.append(dict(op='rewrite2', **observe(f3)))
    if hasattr(f3, 'copy'):
        # the other way to a written file: a copy of the parsed object written out
        p4 = os.path.join(workdir, 'w3.itp')
        f3.copy().write(p4)
        ev.append(dict(op='rewrite', **observe(ItpFile(p4))))
    if with_topo:
        ev += topo_events(path, 'file')
        # the topology read from the rewritten file must be the same: validated as a second topo event
        ev += [dict(e, op='topo2') for e in topo_events(p3, 'file') if e['op'] == 'topo']
    return ev


def _components(n, bonds):
    parent = list(range(n))
    label = [-1] * n
    depth = [0] * n
    adj = [[] for _ in range(n)]
    for a, b in bonds:
        adj[a].append(b)
        adj[b].append(a)
    par = list(range(n))
    for root in range(n):
        if label[root] >= 0:
            continue
        label[root] = root
        stack = [root]
        while stack:
            x = stack.pop()
            for y in adj[x]:
                if label[y] < 0:
                    label[y] = root
                    par[y] = x
                    depth[y] = depth[x] + 1
                    stack.append(y)
    return label, par, depth


def topo_events(path, kind):
    from gaddlemaps.parsers import read_topology
    from gaddlemaps.components import MoleculeTop, are_connected
    name, atoms, bonds = read_topology(path)
    mt = MoleculeTop(path)
    sym = all((a.index in mt.atoms[b].bonds) for a in mt.atoms for b in a.bonds)
    same = sorted(tuple(sorted((a.index, b))) for a in mt.atoms for b in a.bonds if a.index < b) == \
        sorted(set(tuple(sorted(b)) for b in bonds if b[0] != b[1]))
    mt_atoms = [[a.name, a.resname, str(a.resid)] for a in mt.atoms]
    ev = []
    if kind == 'file':
        ev.append({'op': 'topo', 'name': name, 'atoms': [[a[0], a[1], str(a[2])] for a in atoms],
                   'bonds': [list(map(int, b)) for b in bonds],
                   'symmetric': bool(sym and same and mt.name == name and mt_atoms == [[a[0], a[1], str(a[2])] for a in atoms])})
    else:
        ev.append({'op': 'graph', 'natoms': len(atoms), 'bonds': [list(map(int, b)) for b in bonds],
                   'symmetric': bool(sym and same)})
    n = len(atoms)
    label, par, depth = _components(n, [b for b in bonds])
    try:
        val = bool(are_connected(mt.atoms))
        ev.append({'op': 'conn', 'value': val, 'exc': '', 'label': label, 'parent': par, 'depth': depth})
    except RecursionError:
        ev.append({'op': 'conn', 'value': False, 'exc': 'RecursionError', 'label': label, 'parent': par, 'depth': depth})
    # the certificate is computed from the bonds the implementation returned: it certifies only if those are the file's
    ev[-1]['bonds'] = [list(map(int, b)) for b in bonds]
    ev[-1]['natoms'] = n
    cp = mt.copy()
    equal = bool(cp == mt and cp is not mt and all(x is not y for x, y in zip(cp.atoms, mt.atoms)))
    before = [sorted(a.bonds) for a in mt.atoms]
    names_before = [(a.name, a.resname, a.resid) for a in mt.atoms]
    if len(cp.atoms) >= 2:
        far = len(cp.atoms) - 1
        cp.atoms[0].connect(cp.atoms[far]) if far not in cp.atoms[0].bonds else cp.atoms[0].bonds.discard(far)
    cp.atoms[0].name = 'ZZ'
    cp.atoms[-1].resid = 4242
    cp.name = 'OTHER'
    indep = bool(before == [sorted(a.bonds) for a in mt.atoms]
                 and names_before == [(a.name, a.resname, a.resid) for a in mt.atoms] and mt.name == name)
    # a copy taken after the topology was changed through its own interface equals the topology AS IT IS NOW
    mt2 = MoleculeTop(path)
    mt2.atoms[-1].name = 'QQ'
    if len(mt2.atoms) >= 2 and (len(mt2.atoms) - 1) not in mt2.atoms[0].bonds:
        mt2.atoms[0].connect(mt2.atoms[-1])
    cp2 = mt2.copy()
    equal = equal and bool(cp2 == mt2 and [a.name for a in cp2.atoms] == [a.name for a in mt2.atoms]
                           and [sorted(a.bonds) for a in cp2.atoms] == [sorted(a.bonds) for a in mt2.atoms])
    ev.append({'op': 'copy', 'equal': equal, 'independent': indep})
    return ev


# ---------------------------------------------------------------------------- generators
WORDS = ['c1', 'x', 'note', 'see', 'ref', 'A', '2.5', 'kJ', 'b0', '#notdirective', 'a=b', '[x]']
SECS = ['angles', 'dihedrals', 'exclusions', 'settles', 'position_restraints', 'cmap', 'virtual_sites2']


def random_lines(rng, n):
    out = []
    for _ in range(n):
        x = rng.random()
        toks = [rng.choice(['1', '2', '3', '10', '0.5', 'C', 'OW', '1e3', '-4']) for _ in range(rng.randint(1, 6))]
        if x < 0.4:
            out.append({'k': 'cont', 't': toks, 'c': []})
        elif x < 0.6:
            nc = rng.choice([1, 1, 2, 3])
            cs = [[rng.choice(WORDS) for _ in range(rng.randint(0, 3))] for _ in range(nc)]
            out.append({'k': 'cont', 't': toks, 'c': cs})
        elif x < 0.75:
            cs = [[rng.choice(WORDS) for _ in range(rng.randint(0, 3))] for _ in range(rng.choice([1, 1, 2]))]
            out.append({'k': 'comm', 't': [], 'c': cs})
        elif x < 0.85:
            out.append({'k': 'blank', 't': [], 'c': []})
        else:
            out.append({'k': 'pre', 't': rng.choice([['#ifdef', 'FLEX'], ['#endif'], ['#include', '"ff.itp"'],
                                                     ['#else'], ['#define', 'X', '1']]), 'c': []})
    return out


def random_generic_file(rng):
    f = []
    for _ in range(rng.randint(0, 3)):
        f += [ln for ln in random_lines(rng, 1) if ln['k'] in ('comm', 'pre', 'blank')]
    # the sections a topology may carry, in any order: [ defaults ] / [ atomtypes ] before [ moleculetype ], [ moleculetype ]
    # and [ atoms ] in the middle or at the end
    names = rng.sample(SECS + ['defaults', 'atomtypes', 'moleculetype', 'atoms', 'system', 'molecules'], rng.randint(1, 5))
    order = [rng.choice(names) for _ in range(rng.randint(1, 7))]      # repeats happen
    for nm in order:
        f.append({'k': 'sec', 't': [nm], 'c': []})
        lines = random_lines(rng, rng.randint(0, 6))
        if nm in ('moleculetype', 'atoms'):
            # sections whose content lines the library parses into fields: well-formed content, free comments around it
            typed = []
            for ln in lines:
                if ln['k'] != 'cont':
                    typed.append(ln)
                elif nm == 'moleculetype':
                    typed.append(dict(ln, t=[rng.choice(['MOL', 'LIG_A', 'X1', 'A_VERY_LONG_MOLECULE_NAME_17', 'SIXTEEN_CHARS_16']), rng.choice(['1', '3'])]))
                else:
                    i = str(rng.randint(1, 99))
                    typed.append(dict(ln, t=[i, rng.choice(['C', 'P4', 'opls_135']), rng.choice(['1', '2', '77']), 'RES',
                                             'A' + i, i, rng.choice(['0.0', '-0.25', '1']), rng.choice(['12.011', '72'])][:rng.choice([7, 8])]))
            lines = typed
        for ln in lines:
            # (an indented directive inside [ atoms ] / [ moleculetype ] is parsed as a content line of that section and
            # raises ValueError / IndexError: DESIGN 5, observation O3 - not generated)
            if ln['k'] == 'pre' and rng.random() < 0.4 and nm not in ('moleculetype', 'atoms'):
                ln['indent'] = True
        f += lines
    return f


def random_topology(rng, n, graph_kind):
    """abstract file of a valid topology + (n, bonds0) truth"""
    nrs = []
    cur = rng.choice([1, 1, 5, 100])
    for _ in range(n):
        nrs.append(cur)
        cur += rng.choice([1, 1, 1, 2, 7])
    bonds = set()
    if graph_kind in ('tree', 'cyclic', 'chain'):
        for i in range(1, n):
            p = i - 1 if graph_kind == 'chain' else rng.randrange(0, i)
            bonds.add((p, i))
        if graph_kind == 'cyclic':
            for _ in range(rng.randint(1, 3)):
                a, b = rng.randrange(n), rng.randrange(n)
                if a != b:
                    bonds.add((min(a, b), max(a, b)))
    elif graph_kind == 'forest':
        for i in range(1, n):
            if rng.random() < 0.8:
                bonds.add((rng.randrange(0, i), i))
    elif graph_kind == 'pieces':
        # two to four components (contiguous or interleaved atom numbers), each a tree, a ring or a tree with extra
        # ring-closing bonds; lone atoms allowed - in particular "a ring followed by a lone atom"
        k = rng.randint(2, 4)
        if n >= 4 and rng.random() < 0.5:
            # one big piece and one to three leftover atoms (each alone, or together), before or after it
            lone = rng.randint(1, min(3, n - 3))
            k = 1 + (lone if rng.random() < 0.5 else 1)
            rest = [1 + (j % (k - 1)) for j in range(lone)]
            owner = [0] * (n - lone) + rest if rng.random() < 0.7 else rest + [0] * (n - lone)
        else:
            owner = sorted(rng.randrange(k) for _ in range(n)) if rng.random() < 0.5 else [rng.randrange(k) for _ in range(n)]
        for c in range(k):
            mem = [i for i in range(n) if owner[i] == c]
            shape = rng.choice(['tree', 'ring', 'cyclic'])
            for q in range(1, len(mem)):
                bonds.add((mem[q - 1] if shape == 'ring' else mem[rng.randrange(0, q)], mem[q]))
            if shape == 'ring' and len(mem) >= 3:
                bonds.add((mem[0], mem[-1]))
            if shape == 'cyclic' and len(mem) >= 3:
                for _ in range(rng.randint(1, 3)):
                    a, b = rng.sample(mem, 2)
                    bonds.add((min(a, b), max(a, b)))
    bonds = sorted(bonds)
    rng.shuffle(bonds)
    f = [{'k': 'comm', 't': [], 'c': [['generated', 'topology']]}]
    if rng.random() < 0.5:
        f.append({'k': 'pre', 't': ['#include', '"forcefield.itp"'], 'c': []})
    f.append({'k': 'sec', 't': ['moleculetype'], 'c': []})
    f.append({'k': 'comm', 't': [], 'c': [['name', 'nrexcl']]})
    f.append({'k': 'cont', 't': [rng.choice(['MOL', 'BMIM', 'X1', 'LIG_A', 'POLYETHYLENE_GLYCOL_400_MONOMETHYL_ETHER', 'SIXTEEN_CHARS_16']), rng.choice(['1', '3'])],
              'c': [] if rng.random() < 0.6 else [[rng.choice(WORDS)]]})          # a trailing comment, glued or not
    f.append({'k': 'blank', 't': [], 'c': []})
    f.append({'k': 'sec', 't': ['atoms'], 'c': []})
    resid = rng.choice([1, 1, 1, 7, 99998, 100000, 123456])      # residue numbers are not limited to five digits in a topology
    for i in range(n):
        if i and rng.random() < 0.15:
            resid += 1
        elif i and rng.random() < 0.04:
            resid = 1             # a second chain: residue numbers start again (file order is what counts)
        toks = [str(nrs[i]), rng.choice(['C', 'P4', 'opls_135']), str(resid), 'R%d' % (resid % 3),
                'A%d' % (i % 97), str(i + 1), rng.choice(['0.0', '-0.25', '1']), rng.choice(['12.011', '72'])]
        cs = [] if rng.random() < 0.7 else [[rng.choice(WORDS)]]
        f.append({'k': 'cont', 't': toks[:rng.choice([7, 8, 8])] if rng.random() < 0.9 else toks[:6], 'c': cs})
        if rng.random() < 0.05:
            f += [ln for ln in random_lines(rng, 1) if ln['k'] in ('comm', 'blank', 'pre')]
    if rng.random() < 0.25:
        # sections that are not bond sources, whatever they list: [ settles ], [ exclusions ], [ virtual_sites2 ]
        f.append({'k': 'sec', 't': [rng.choice(['settles', 'exclusions', 'virtual_sites2'])], 'c': []})
        f.append({'k': 'cont', 't': [str(nrs[0]), '1', '0.09572', '0.15139'][:rng.choice([2, 4])], 'c': []})
    secs = ['bonds', 'constraints', 'pairs']
    blocks = [rng.choice(secs) for _ in range(rng.randint(1, 5))] if bonds else []
    assign = {b: rng.randrange(len(blocks)) for b in bonds} if blocks else {}
    for bi, nm in enumerate(blocks):
        if rng.random() < 0.3:
            f.append({'k': 'sec', 't': [rng.choice(['angles', 'dihedrals'])], 'c': []})
            f += [ln for ln in random_lines(rng, 2) if ln['k'] != 'pre']
        f.append({'k': 'sec', 't': [nm], 'c': []})
        # preprocessor lines are ignored wherever they stand: a block of the section may sit between #ifdef / #else / #endif
        cond = rng.random() < 0.25
        mine = [b for b in bonds if assign[b] == bi]
        marks = {}
        if cond and mine:
            i0 = rng.randrange(len(mine))
            i1 = rng.randrange(i0, len(mine))
            marks = {('before', i0): ['#ifdef', 'FLEXIBLE'], ('after', i1): ['#endif']}
            if i1 > i0:
                marks[('before', rng.randrange(i0 + 1, i1 + 1))] = ['#else']
        k_ = 0
        for b in bonds:
            if assign[b] == bi:
                if ('before', k_) in marks:
                    f.append({'k': 'pre', 't': marks[('before', k_)], 'c': []})
                a, c = (b if rng.random() < 0.5 else b[::-1])
                toks = [str(nrs[a]), str(nrs[c])] + rng.choice([[], ['1'], ['1', '0.47', '1250'], ['2', '0.31'], ['6', '0.4', '500'], ['5']])   # any function type
                f.append({'k': 'cont', 't': toks, 'c': [] if rng.random() < 0.8 else [['b']]})
                if ('after', k_) in marks:
                    f.append({'k': 'pre', 't': marks[('after', k_)], 'c': []})
                k_ += 1
            if rng.random() < 0.03:
                f.append({'k': 'comm', 't': [], 'c': [['x']]})
    return f, n, [list(b) for b in bonds]


def _work(args):
    items, part, workroot = args
    common.import_repo()
    workdir = os.path.join(workroot, 'w%d' % os.getpid())
    os.makedirs(workdir, exist_ok=True)
    path = os.path.join(workdir, 'in.itp')
    with open(part, 'w') as fh:
        for tid, kind, payload in items:
            rng = random.Random(tid * 7919 + 13)
            cfg = {'kind': 'file', 'file': [], 'n': 0, 'bonds': []}
            try:
                if kind == 'abs':          # abstract file from TLC's bounds
                    cfg['file'] = payload
                    with open(path, 'w') as out:
                        out.write(render(payload, rng, final_newline=rng.random() < 0.7))
                    with common.caller_state(tid):
                        ev = common.guarded(file_events, 180, path, workdir, False)
                elif kind == 'big':
                    cfg = {'kind': 'big', 'file': [], 'n': 0, 'bonds': []}
                    ev = common.guarded(big_file_events, 600, workdir)
                elif kind == 'generic':
                    rng = random.Random(payload)
                    cfg['file'] = random_generic_file(rng)
                    with open(path, 'w') as out:
                        out.write(render(cfg['file'], rng, final_newline=rng.random() < 0.7))
                    with common.caller_state(tid):
                        ev = common.guarded(file_events, 180, path, workdir, False)
                elif kind == 'topo':
                    rng = random.Random(payload)
                    f, n, bonds = random_topology(rng, rng.randint(1, 40), rng.choice(['tree', 'cyclic', 'forest', 'pieces']))
                    cfg['file'] = f
                    with open(path, 'w') as out:
                        out.write(render(f, rng, final_newline=rng.random() < 0.8))
                    with common.caller_state(tid):
                        ev = common.guarded(file_events, 180, path, workdir, True)
                elif kind == 'graph':
                    rng = random.Random(payload)
                    gk = rng.choice(['chain', 'tree', 'cyclic', 'forest', 'pieces', 'pieces'])
                    n = rng.choice([rng.randint(1, 300), rng.randint(900, 3000), rng.randint(180, 260)] + ([rng.randint(3, 12)] * 2 if gk == 'pieces' else []))
                    f, n, bonds = random_topology(rng, n, gk)
                    cfg = {'kind': 'graph', 'file': [], 'n': n, 'bonds': bonds}
                    with open(path, 'w') as out:
                        out.write(render(f, rng))
                    with common.caller_state(tid):
                        ev = topo_events(path, 'graph')
                else:                      # shipped topology: read / write / read on the real text
                    cfg = {'kind': 'shipped', 'file': [], 'n': 0, 'bonds': [], 'path': os.path.basename(payload)}
                    ev = shipped_events(payload, workdir)
            except Exception as exc:
                import traceback
                ev = [{'op': 'exception', 'type': type(exc).__name__, 'text': traceback.format_exc()[-1000:]}]
            fh.write(json.dumps({'tid': tid, 'cfg': cfg, 'kind': kind, 'ev': ev}) + '\n')
    return part


def shipped_events(path, workdir):
    """shipped files have no abstract counterpart: the harness derives it from the text with its own
    tokenizer (independent of gaddlemaps) and the same events are validated"""
    raise NotImplementedError


def abstract_from_text(text):
    """independent tokenizer: text -> abstract lines (used for the shipped topologies)"""
    out = []
    for raw in text.splitlines():
        s = raw.strip()
        if not s:
            out.append({'k': 'blank', 't': [], 'c': []})
        elif re.match(r'\[.*\]', s):
            out.append({'k': 'sec', 't': [re.findall(r'\[(.*)\]', s)[0].strip()], 'c': []})
        elif raw.startswith('#'):
            out.append({'k': 'pre', 't': s.split(), 'c': []})
        elif raw.startswith(';'):
            out.append({'k': 'comm', 't': [], 'c': [raw[1:].split()]})
        elif ';' in raw:
            a, b = raw.split(';', 1)
            if a.strip():
                out.append({'k': 'cont', 't': a.split(), 'c': [b.split()]})
            else:
                out.append({'k': 'comm', 't': [], 'c': [b.split()]})
        else:
            out.append({'k': 'cont', 't': s.split(), 'c': []})
    return out


def _parse_files(blks):
    out = []
    for b in blks:
        st = tlaval.parse_state(b)
        if st.get('phase') == 'case':
            out.append([{'k': ln['k'], 't': list(ln['t']), 'c': [list(c) for c in ln['c']]} for ln in st['file']])
    return out


def check(run, props):
    gm = common.import_repo()
    res = tlc.run('MC_Itp', MC_CFG % run.tier, run.scratch, workers=16, timeout=2400, dump=True, coverage=False)
    tlc.check_ok(res, 'MC_Itp')
    run.add_tlc(res, 'Itp exhaustive (%s bounds): PassIsView, RoundTrip, Conservation' % run.tier)
    with open(res.dump_path) as fh:
        text = fh.read()
    os.remove(res.dump_path)
    blks = [b.strip() for b in re.split(r'^State \d+:\s*$', text, flags=re.M)[1:] if '"case"' in b]
    del text
    with Pool(16) as pool:
        parts = pool.map(_parse_files, [blks[i::16] for i in range(16)])
    absfiles = [f for p in parts for f in p]
    if len(absfiles) < 1000:
        raise tlc.TLCError('only %d abstract files from TLC' % len(absfiles))
    rng = random.Random(run.seed)
    items = []
    tid = 0
    if 'C16' in props:
        use = absfiles
        cap = 2500 if run.quick else 4000        # TLC checks every file of the bounds; a seeded sample of them is rendered and read
        run.extra['abstract_files_total'] = len(use)
        if len(use) > cap:
            rng.shuffle(use)
            use = use[:cap]
        for f in use:
            tid += 1
            items.append((tid, 'abs', f))
        for j in range(150 if run.quick else 600):
            tid += 1
            items.append((tid, 'generic', run.seed * 1000003 + j))
        tid += 1
        items.append((tid, 'big', 0))
    ntopo = (300 if run.quick else 600)
    for j in range(ntopo):
        tid += 1
        items.append((tid, 'topo', run.seed * 1000003 + 7 * j + 1))
    if 'C15' in props:
        for j in range(24 if run.quick else 300):
            tid += 1
            items.append((tid, 'graph', run.seed * 1000003 + 11 * j + 3))
    # the shipped topologies, through the independent tokenizer
    data = os.path.join(os.path.dirname(gm.__file__), 'data')
    for fn in sorted(os.listdir(data)):
        if fn.endswith('.itp'):
            tid += 1
            with open(os.path.join(data, fn), encoding='utf-8') as fh:
                text = fh.read()
            lines = text.splitlines(True)
            src = os.path.join(data, fn)
            topo = True
            if len(lines) > 1200:
                # very large shipped files (DNA): the first 1000 lines, read/write/read only
                src = os.path.join(run.scratch, 'head_' + fn)
                text = ''.join(lines[:1000])
                with open(src, 'w', encoding='utf-8') as out:
                    out.write(text)
                topo = False
            items.append((tid, 'shippedabs', (src, abstract_from_text(text), topo)))
    nproc = 16
    workroot = os.path.join(run.scratch, 'work')
    jobs = [(items[i::nproc], os.path.join(run.scratch, 'it%d.ndjson' % i), workroot) for i in range(nproc)
            if items[i::nproc]]
    with Pool(nproc) as pool:
        partfiles = pool.map(_work2, jobs)
    traces = {}
    for p in partfiles:
        with open(p) as fh:
            for line in fh:
                t = json.loads(line)
                traces[t['tid']] = t
    skip = C16_CLAUSES if props == {'C15'} else (C15_CLAUSES if props == {'C16'} else set())
    verdicts = validate_batches('Trace_Itp', TRACE_CFG % ('{' + ', '.join('"%s"' % c for c in sorted(skip)) + '}'), partfiles, run.scratch, timeout=900 if run.quick else 3000, run=run, heap='6g')
    c15_clauses = {'connectivity_test_answers', 'molecule_name', 'atoms_in_file_order', 'bond_graph', 'bonds_symmetric', 'atom_count',
                   'connected_iff_one_component', 'copy_equal', 'copy_independent'}
    kinds = {}
    for tid, tr in traces.items():
        v = verdicts.get(tid)
        if tr['ev'] and tr['ev'][0]['op'] == 'exception':
            v = ('FAIL', tid, 1, 'exception:' + tr['ev'][0]['type'])
        if v is None:
            raise tlc.TLCError('no verdict for trace %r' % tid)
        kinds[tr['kind']] = kinds.get(tr['kind'], 0) + 1
        run.case((tr['kind'], json.dumps(tr['cfg'])[:3000]), nontrivial=True,
                 sample={'kind': tr['kind'], 'first_lines': tr['cfg']['file'][:5], 'events': [e['op'] for e in tr['ev']]}
                 if len(run.samples) < 5 and tr['kind'] in ('abs', 'topo') else None)
        run.traces += 1
        if v[0] == 'ACC':
            continue
        clause = v[3]
        if clause == 'certificate_valid_MACHINERY':
            raise tlc.TLCError('harness produced an invalid connectivity certificate (trace %r)' % tid)
        is15 = clause in c15_clauses or (clause.startswith('exception') and tr['kind'] in ('graph',))
        if clause.startswith('exception'):
            is15 = 'C15' in props if tr['kind'] in ('graph', 'topo') else False
            mine = is15 or ('C16' in props and tr['kind'] not in ('graph',))
        else:
            mine = (is15 and 'C15' in props) or (not is15 and 'C16' in props)
        if not mine:
            run.note('clause %s failed on a trace; decided by the sibling property check' % clause)
            continue
        e = tr['ev'][v[2] - 1] if 0 < v[2] <= len(tr['ev']) else {}
        f = tr['cfg']['file']
        names = [ln['t'][0] for ln in f if ln['k'] == 'sec']
        sig = {'clause': clause, 'op': e.get('op'), 'kind': tr['kind'],
               'repeated_section': len(names) != len(set(names)),
               'empty_trailing_comment': any(ln['k'] == 'cont' and ln['c'] and not any(ln['c']) for ln in f)}
        if tr['kind'] == 'graph':
            sig['chain_atoms_ge'] = 1000 if tr['cfg']['n'] >= 1000 else 0
        small = tr if len(json.dumps(tr)) < 100000 else {'tid': tid, 'kind': tr['kind'], 'cfg_n': tr['cfg'].get('n'),
                                                         'ev': [dict(op=q['op']) for q in tr['ev']]}
        run.violation(sig, {'engine': 'itp', 'spec': 'Trace_Itp', 'failing_clause': clause, 'event_index': v[2],
                            'event': e if len(json.dumps(e)) < 20000 else {'op': e.get('op')}, 'trace': small})
    run.rule = ('cases = topology files run through the real ItpFile/read_topology/MoleculeTop/are_connected and '
                'validated by TLC: every abstract file of the exhaustive bounds rendered with varied spacing, random '
                'generic files (repeated sections, multi/empty comments), generated topologies (1..40 atoms with full '
                'view check; graphs up to 3000 atoms with connectivity certificates), and the 16 shipped topologies')
    run.extra.update({'abstract_files_from_tlc': len(absfiles), 'trace_kinds': kinds, 'exhaustive': False})
    run.assumptions += ['rendering keeps a space after each separating ";" and never indents "#" lines',
                        'shipped topologies are abstracted by an independent tokenizer in the harness']


def _work2(args):
    """like _work but understands the shipped kind with a pre-abstracted file"""
    items, part, workroot = args
    plain = [it for it in items if it[1] != 'shippedabs']
    ship = [it for it in items if it[1] == 'shippedabs']
    _work((plain, part, workroot))
    common.import_repo()
    workdir = os.path.join(workroot, 'w%d' % os.getpid())
    with open(part, 'a') as fh:
        for tid, _k, (path, absf, topo) in ship:
            try:
                ev = file_events(path, workdir, topo)
            except Exception as exc:
                import traceback
                ev = [{'op': 'exception', 'type': type(exc).__name__, 'text': traceback.format_exc()[-1000:]}]
            fh.write(json.dumps({'tid': tid, 'cfg': {'kind': 'file', 'file': absf, 'n': 0, 'bonds': [],
                                                     'path': os.path.basename(path)},
                                 'kind': 'shipped', 'ev': ev}) + '\n')
    return part


def main_c15(run):
    check(run, {'C15'})


def main_c16(run):
    check(run, {'C16'})
