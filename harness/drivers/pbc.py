"""Engine `pbc` (C19): Residue.distance_to with periodic boundary conditions.

TLC model-checks spec/PBC.tla on integer lattices (round-based wrap = true minimum image for
orthorhombic boxes, <= plain distance, symmetry, invariance under all lattice shifts in [-3,3]^3,
also for triclinic boxes) and emits the exact squared distances; every case is replayed on the
real distance_to (Residue argument, point argument, box and inverse box).  Random floating-point
boxes/points are recorded as relation booleans and validated against Trace_PBC.tla.
"""
import itertools
import json
import math
import os
import re
from multiprocessing import Pool

import numpy as np

from .. import common, tlc, tlaval
from ..traces import validate_batches

H = 0.125
MC_CFG = """SPECIFICATION Spec
CONSTANTS
  Tier = "%s"
  Boxes <- MC_Boxes
  Points <- MC_Points
  From <- MC_From
  Shifts <- MC_Shifts
INVARIANT MinImage
INVARIANT NotLonger
INVARIANT Symmetric
INVARIANT ShiftInvariant
CHECK_DEADLOCK FALSE
"""
TRACE_CFG = "SPECIFICATION TraceSpec\nINVARIANT Accepted\nCHECK_DEADLOCK FALSE\n"


def _parse_chunk(blks):
    out = []
    for b in blks:
        st = tlaval.parse_state(b)
        if st.get('phase') == 'done':
            out.append({'box': st['box'], 'p': st['pp'], 'q': st['qq'], 'res': st['res']})
    return out


def cases_from_dump(path):
    with open(path) as fh:
        text = fh.read()
    blks = [b.strip() for b in re.split(r'^State \d+:\s*$', text, flags=re.M)[1:] if '"done"' in b]
    with Pool(8) as pool:
        parts = pool.map(_parse_chunk, [blks[i::8] for i in range(8)])
    return [c for p in parts for c in p]


def make_residue(center, natoms, rng):
    """a Residue whose geometric centre is exactly `center` (offsets cancel pairwise)"""
    from gaddlemaps.components import Residue, AtomGro
    offs = []
    for _ in range(natoms // 2):
        o = np.round(rng.uniform(-1, 1, 3) * 8) * H     # dyadic offsets: the mean is exact
        offs += [o, -o]
    if natoms % 2:
        offs.append(np.zeros(3))
    atoms = [AtomGro([1, 'RES', 'A%d' % i, i + 1] + list(np.array(center, float) + o)) for i, o in enumerate(offs)]
    return Residue(atoms)


def _work_rand(args):
    items, part = args
    common.import_repo()
    with open(part, 'w') as fh:
        for tid, seed in items:
            rng = np.random.default_rng(seed)
            ev = []
            # the box (and its inverse) live in buffers that are refilled in place for every new box, as a trajectory
            # loop does: the distance must depend on the contents of the array, not on its identity
            Bbuf, Ibuf = np.zeros((3, 3)), np.zeros((3, 3))
            last_kind = 'B'
            for _ in range(8):
                ortho = rng.random() < 0.6
                edges = rng.uniform(0.5, 20, 3)
                if rng.random() < 0.25:
                    edges = rng.choice([0.5, 0.6, 16.0, 20.0], 3)        # needles and slabs: corners of the edge range
                if rng.random() < 0.25:
                    edges = rng.integers(2, 21, 3).astype(float)         # whole numbers of nm: the box may then be an integer array
                B0 = np.diag(edges)
                if not ortho:
                    B0[1, 0] = rng.uniform(-0.3, 0.3) * edges[0]
                    B0[2, 0] = rng.uniform(-0.3, 0.3) * edges[0]
                    B0[2, 1] = rng.uniform(-0.3, 0.3) * edges[1]
                Bbuf[...] = B0
                Ibuf[...] = np.linalg.inv(B0)
                B = Bbuf
                far = rng.choice([1.0, 4.0])
                p = rng.uniform(-far, far, 3) * edges
                q = rng.uniform(-far, far, 3) * edges
                # keep away from exact half-box separations (two images tie)
                if ortho and rng.random() < 0.12:
                    # a separation a few millionths of a box edge away from half a box: not a tie, the nearer image is determined
                    ax = int(rng.integers(0, 3))
                    q[ax] = p[ax] + (int(rng.integers(-3, 4)) + 0.5 + float(rng.choice([-1, 1])) * float(rng.choice([3e-6, 2e-5]))) * edges[ax]
                s = (q - p) @ np.linalg.inv(B)
                if np.abs(np.abs(s - np.round(s)) - 0.5).min() < 1e-7:
                    continue
                rp = make_residue(p, int(rng.integers(1, 6)), rng)
                rq = make_residue(q, int(rng.integers(1, 6)), rng)
                p = rp.geometric_center
                q = rq.geometric_center
                try:
                    # the first query after the buffers were refilled is of the same kind (same array object, same flag)
                    # as the last query of the previous box
                    d_first = float(rp.distance_to(rq, B)) if last_kind == 'B' else float(rp.distance_to(rq, Ibuf, inv=True))
                    d = float(rp.distance_to(rq, B))
                    fin = math.isfinite(d)
                    tol = 1e-9 * max(1.0, float(edges.max()) * far)
                    e = {'op': 'dist', 'ortho': bool(ortho), 'finite': fin}
                    if ortho:
                        # orthorhombic: the minimum over all images separates per axis
                        ns = np.arange(-12, 13)
                        best = math.sqrt(sum(float(np.min((q[k] - p[k] + ns * edges[k]) ** 2)) for k in range(3)))
                        e['min_image'] = bool(abs(d - best) <= tol)
                        e['le_plain'] = bool(d <= float(rp.distance_to(rq)) + tol)
                    else:
                        e['min_image'] = True
                        e['le_plain'] = True
                    e['symmetric'] = bool(abs(float(rq.distance_to(rp, B)) - d) <= tol)
                    ok = True
                    for _k in range(6):
                        n = rng.integers(-3, 4, 3)
                        rq2 = rq.copy()
                        rq2.move(n @ B)
                        rp2 = rp.copy()
                        rp2.move(-(n @ B))
                        ok &= abs(float(rp.distance_to(rq2, B)) - d) <= tol
                        ok &= abs(float(rp2.distance_to(rq, B)) - d) <= tol
                    e['shift_inv'] = bool(ok)
                    e['inv_flag'] = bool(abs(float(rp.distance_to(rq, Ibuf, inv=True)) - d) <= tol)
                    # one point array (the documented float array) kept by the caller and used for several queries
                    qa = np.array(q, dtype=float)
                    okp = abs(float(rp.distance_to(qa, B)) - d) <= tol
                    okp &= abs(float(rp.distance_to(qa, B)) - d) <= tol
                    okp &= abs(float(rp.distance_to(qa, Ibuf, inv=True)) - d) <= tol
                    okp &= abs(float(rp.distance_to(qa)) - float(rp.distance_to(rq))) <= tol
                    okp &= bool((qa == np.array(q, dtype=float)).all())
                    if ortho and (edges == np.round(edges)).all():
                        # the same box as an integer array and as nested lists of Python ints
                        Bi = np.diag(edges.astype(np.int64 if rng.random() < 0.5 else np.int32))
                        okp &= abs(float(rp.distance_to(rq, Bi)) - d) <= tol
                        okp &= abs(float(rp.distance_to(rq, np.array(Bi.tolist()))) - d) <= tol
                    # the inverse flag given by position (third argument), as in distance_to(x, inverse_box, True)
                    okp &= abs(float(rp.distance_to(rq, Ibuf, True)) - d) <= tol
                    okp &= abs(float(rp.distance_to(rq, B, False)) - d) <= tol
                    last_kind = 'B' if rng.random() < 0.5 else 'I'
                    d_last = float(rp.distance_to(rq, B)) if last_kind == 'B' else float(rp.distance_to(rq, Ibuf, inv=True))
                    okp &= abs(d_first - d) <= tol and abs(d_last - d) <= tol
                    e['res_point'] = bool(okp)
                    e['value'] = d
                except Exception as exc:
                    e = {'op': 'dist', 'ortho': bool(ortho), 'finite': False, 'min_image': False, 'le_plain': False,
                         'symmetric': False, 'shift_inv': False, 'inv_flag': False, 'res_point': False,
                         'exc': type(exc).__name__}
                e.update(box=B.tolist(), p=list(map(float, p)), q=list(map(float, q)))
                ev.append(e)
            fh.write(json.dumps({'tid': tid, 'ev': ev, 'meta': {'seed': seed}}) + '\n')
    return part


def check(run):
    common.import_repo()
    res = tlc.run('MC_PBC', MC_CFG % run.tier, run.scratch, workers=16, timeout=2400, dump=True, coverage=False)
    tlc.check_ok(res, 'MC_PBC')
    if res.distinct < 100:
        raise tlc.TLCError('vacuous PBC run')
    run.add_tlc(res, 'PBC exhaustive (%s bounds): MinImage, NotLonger, Symmetric, ShiftInvariant' % run.tier)
    cases = cases_from_dump(res.dump_path)
    os.remove(res.dump_path)
    rng = np.random.default_rng(run.seed)
    for c in cases:
        B = np.array(c['box'], float) * H
        p = np.array(c['p'], float) * H
        q = np.array(c['q'], float) * H
        exp = math.sqrt(c['res']['d2']) * H
        ortho = c['res']['ortho']
        rp = make_residue(p, int(rng.integers(1, 5)), rng)
        rq = make_residue(q, int(rng.integers(1, 5)), rng)
        run.case(('lat', tuple(map(tuple, c['box'])), tuple(c['p']), tuple(c['q'])), nontrivial=True,
                 sample={'box_lattice': c['box'], 'p': c['p'], 'q': c['q'], 'expected_d2_lattice': c['res']['d2']}
                 if len(run.samples) < 3 else None)
        run.traces += 1
        try:
            qa = np.array(q, dtype=float)
            obs = {'residue': float(rp.distance_to(rq, B)), 'point': float(rp.distance_to(qa, B)),
                   'reverse': float(rq.distance_to(rp, B)), 'point_again': float(rp.distance_to(qa, B)),
                   'inverse_flag': float(rp.distance_to(rq, np.linalg.inv(B), inv=True))}
        except Exception as exc:
            run.violation({'check': 'exception', 'exception': type(exc).__name__},
                          {'engine': 'pbc', 'case': c})
            continue
        # for a triclinic box the property fixes the value only through the invariances; the Alg value
        # (round-based wrap) is compared as a note
        vals = list(obs.values())
        consistent = max(vals) - min(vals) <= 1e-9
        if ortho:
            bad = [k for k, v in obs.items() if not (abs(v - exp) <= 1e-9)]
            if bad:
                run.violation({'check': 'minimum_image', 'periodic': True, 'variant': bad[0]},
                              {'engine': 'pbc', 'spec': 'PBC', 'box_nm': B.tolist(), 'p_nm': p.tolist(),
                               'q_nm': q.tolist(), 'expected': exp, 'observed': obs})
        else:
            if not consistent:
                run.violation({'check': 'symmetric_or_inverse_flag', 'periodic': True, 'ortho': False},
                              {'engine': 'pbc', 'spec': 'PBC', 'box_nm': B.tolist(), 'p_nm': p.tolist(),
                               'q_nm': q.tolist(), 'observed': obs})
            elif abs(obs['residue'] - exp) > 1e-9:
                run.note('triclinic value differs from the round-based wrap of the Alg layer (not demanded by C19)')
            # shift invariance on the lattice (exact shifts)
            n = rng.integers(-3, 4, 3)
            rq2 = rq.copy()
            rq2.move(n @ B)
            if abs(float(rp.distance_to(rq2, B)) - obs['residue']) > 1e-9:
                run.violation({'check': 'shift_invariance', 'periodic': True, 'ortho': False},
                              {'engine': 'pbc', 'spec': 'PBC', 'box_nm': B.tolist(), 'p_nm': p.tolist(),
                               'q_nm': q.tolist(), 'shift': n.tolist(), 'observed': obs})
    nrand = 100 if run.quick else 3000
    items = [(10 ** 6 + j, run.seed * 1000003 + j) for j in range(nrand)]
    jobs = [(items[i::16], os.path.join(run.scratch, 'pb%d.ndjson' % i)) for i in range(16) if items[i::16]]
    with Pool(16) as pool:
        parts = pool.map(_work_rand, jobs)
    traces = {}
    for pth in parts:
        with open(pth) as fh:
            for line in fh:
                t = json.loads(line)
                traces[t['tid']] = t
    verdicts = validate_batches('Trace_PBC', TRACE_CFG, parts, run.scratch, timeout=1200, run=run)
    for tid, tr in traces.items():
        v = verdicts.get(tid)
        if v is None:
            raise tlc.TLCError('no verdict for trace %r' % tid)
        run.case(('rand', tr['meta']['seed']), nontrivial=True)
        run.traces += 1
        if v[0] == 'ACC':
            continue
        e = tr['ev'][v[2] - 1]
        run.violation({'check': 'trace:' + v[3], 'periodic': True, 'ortho': e['ortho']},
                      {'engine': 'pbc', 'spec': 'Trace_PBC', 'failing_clause': v[3], 'event': e})
    run.rule = ('cases = (box, p, q) on an integer lattice enumerated by TLC with exact squared distances (4 '
                'orthorhombic + 2 triclinic boxes, points up to several boxes apart), replayed with Residue/point/'
                'reverse/inverse-flag variants; plus random boxes (edges 0.5..20 nm, moderate skew), residues of '
                '1..5 atoms, shifts in [-3,3]^3 as traces')
    run.extra.update({'lattice_cases': len(cases), 'random_traces': nrand, 'exhaustive': True})
    run.assumptions += ['separations within 1e-4 (fractional) of an exact half box are not generated (two images tie)',
                        'for triclinic boxes only symmetry, shift invariance and the inverse flag are demanded']


def main_c19(run):
    check(run)
