"""Engine `xmap-calls` (C04): applying an exchange map is pure, history-independent and species-checked.

spec/XMapCalls.tla is an aliasing model of ExchangeMap.__call__: the construction molecules R0/T0 are
referenced by the map, results are new objects whose conformation is the uninterpreted image
F(r, t, a) of the argument conformation a under the construction-time snapshot (r, t), everything
else is unchanged; rejected arguments change nothing.  TLC checks the model (ResultsAreImages,
FramesOfLastCall, WriteFrame, RejectedChangesNothing, SnapFixed) for every history of the bounds;
every maximal history and TLC-simulated histories of length 30 are replayed on a real ExchangeMap:
after each operation every live object's coordinates (bit-exact for untouched objects, 1e-12 nm
against a FRESH map built from pristine copies for results), residue numbers, names and sizes are
compared with the specification state.
"""
import glob
import json
import os
import random
import re
from multiprocessing import Pool

import numpy as np

from .. import common, tlc, tlaval, synth

MC_CFG = """SPECIFICATION Spec
CONSTANTS
  NArgs = 2
  MaxObjs = %d
  MaxOps = %d
INVARIANT ResultsAreImages
INVARIANT FramesOfLastCall
PROPERTY WriteFrame
PROPERTY RejectedChangesNothing
PROPERTY SnapFixed
CHECK_DEADLOCK FALSE
"""

# reference / target species: (ref atoms, ref bonds, ref residues, target atoms, target bonds, target residues)
SPECIES = {
    'chain3': dict(rn=3, rb=[(1, 2), (2, 3)], rres=[1, 1, 1], tn=4, tb=[(1, 2), (2, 3), (3, 4)], tres=[1, 1, 1, 1]),
    'twores': dict(rn=5, rb=[(1, 2), (2, 3), (2, 4), (4, 5)], rres=[1, 1, 2, 2, 2], tn=7,
                   tb=[(1, 2), (2, 3), (3, 4), (4, 5), (5, 6), (6, 7)], tres=[1, 1, 1, 2, 2, 2, 2]),
    'ring': dict(rn=5, rb=[(1, 2), (2, 3), (3, 4), (4, 1), (4, 5)], rres=[1] * 5, tn=2, tb=[(1, 2)], tres=[1, 1]),
    # neighbouring residues with the same NAME (as ARG ARG in a protein; different sizes, System tells residue kinds apart by
    # name and size): they differ only by their number
    'samename': dict(rn=4, rb=[(1, 2), (2, 3), (3, 4)], rres=[1, 2, 2, 2], tn=6, tb=[(i, i + 1) for i in range(1, 6)],
                     tres=[1, 1, 2, 2, 2, 2], same=True),
    'big': dict(rn=9, rb=[(i, i + 1) for i in range(1, 9)], rres=[1] * 4 + [2] * 5, tn=23,
                tb=[(i, i + 1) for i in range(1, 23)], tres=[1] * 10 + [2] * 13),
    # a target of several hundred atoms (where a vectorised path with its own work arrays would take over)
    'huge': dict(rn=6, rb=[(i, i + 1) for i in range(1, 6)], rres=[1] * 6, tn=640,
                 tb=[(i, i + 1) for i in range(1, 640)], tres=[1] * 640),
}


def conf(n, k, seed):
    """conformation number k of a species with n atoms: generic coordinates with exactly three decimals"""
    if k % 7 == 6 and k >= 1:
        # a near repeat of the conformation before it: shifted and bent by about a millionth of a nanometre (two
        # consecutive frames of a slow motion) - another conformation, with its own image
        base = conf(n, k - 1, seed)
        return base + np.random.default_rng(seed * 7 + k).normal(size=base.shape) * 1e-6
    rng = np.random.default_rng(seed * 100003 + 1000 * k + n)
    a = rng.normal(size=(n, 3)) * 0.6 + rng.normal(size=3) * (2.0 if k % 3 else 20.0)
    if k % 5 == 4 and n >= 3:
        # a conformation with an exactly straight angle at the first anchor (atoms 1-2-3 on a line, as a user would
        # write it with three decimals): the map is still a function of the conformation
        d = np.array([float('%.3f' % v) for v in rng.normal(size=3) * 0.15])
        if not d.any():
            d[0] = 0.125
        a[1] = np.array([float('%.3f' % v) for v in a[0]]) + d
        a[2] = np.array([float('%.3f' % v) for v in a[0]]) + 2 * d
    return np.array([[float('%.3f' % v) for v in row] for row in a])


def conf_target(sp, k, seed):
    """target conformations; in number 2 (the one the map is normally built from) the first target atom sits exactly
    on the second reference atom of reference conformation 1 (a bead placed on an atom: its projection is zero)"""
    a = conf(sp['tn'], k, seed)
    if k == 2 and sp['rn'] >= 2:
        a[0] = conf(sp['rn'], 1, seed)[1]
    return a


class World:
    """the real objects parallel to the specification's objects"""

    def __init__(self, spname, workdir, seed, scale):
        self.sp = SPECIES[spname]
        self.spname = spname
        self.workdir = workdir
        self.seed = seed
        self.scale = scale
        self.n = 0
        self.objs = []
        self.map = None
        self.oracle = {}
        self.tnames = None

    def _mk(self, which, k, tag):
        sp = self.sp
        self.n += 1
        if which == 'ref':
            n, bonds, res, nm = sp['rn'], sp['rb'], sp['rres'], 'REF'
        else:
            n, bonds, res, nm = sp['tn'], sp['tb'], sp['tres'], 'TGT'
        names = ['%s%d' % ('C' if which == 'ref' else 'N', i + 1) for i in range(n)]
        residues = [('%s%d' % ('RR' if which == 'ref' else 'TT', 0 if sp.get('same') else r), r) for r in res]
        pos = conf(n, k, self.seed) if which == 'ref' else conf_target(sp, k, self.seed)
        mol = synth.make_molecule(os.path.join(self.workdir, '%s%d_%s' % (which, self.n, tag)), nm, names, bonds, pos, residues=residues)
        mol.atoms_positions = pos            # exactly (the file carries three decimals)
        return mol

    def nres(self, which):
        return len(set(self.sp['rres' if which == 'ref' else 'tres']))

    def rid_list(self, tok, which='ref'):
        # every third token numbers all residues of the molecule alike (neighbouring residues may share a number)
        # and every fourth one uses numbers beyond the five columns of a coordinate file (a residue number is an int)
        return [100 * tok + (0 if tok % 3 == 0 else j) + (100000 if tok % 4 == 1 else 0) for j in range(self.nres(which))]

    def set_rids(self, mol, tok, which='ref'):
        """residue numbers are varied on the coordinate-file side (gro_resid), the way System hands out the
        instances of a species; Molecule.resids is not used on arguments because it also rewrites the residue
        numbers of the (shared) topology, which the library treats as part of the species identity"""
        per_atom = self.sp['rres' if which == 'ref' else 'tres']
        lst = self.rid_list(tok, which)
        for atom, r in zip(mol, per_atom):
            atom.gro_resid = lst[r - 1]

    def setup(self, nargs):
        r0 = self._mk('ref', 1, 'R0')
        t0 = self._mk('tgt', 2, 'T0')
        self.set_rids(r0, 1)
        self.set_rids(t0, 2, 'tgt')
        self.objs = [r0, t0]
        for i in range(nargs):
            if i % 2 == 0:
                # as System does: a copy of the species' molecule with its own residues
                a = r0.copy([res.copy() for res in r0.residues])
            else:
                a = self._mk('ref', 3 + i, 'A')
            a.atoms_positions = conf(self.sp['rn'], 3 + i, self.seed)
            self.set_rids(a, 3 + i)
            self.objs.append(a)
        self.tnames = ([a.name for a in t0], [a.resname for a in t0])

    def expected_coord(self, tok, which):
        if tok[0] == 0:
            return (conf(self.sp['rn'], tok[1], self.seed) if which == 'ref' else conf_target(self.sp, tok[1], self.seed)), 0.0
        key = (tok[1], tok[2], tok[3])
        if key not in self.oracle:
            from gaddlemaps import ExchangeMap
            fr, ft, fa = self._mk('ref', key[0], 'o'), self._mk('tgt', key[1], 'o'), self._mk('ref', key[2], 'o')
            self.oracle[key] = ExchangeMap(fr, ft, self.scale)(fa).atoms_positions.copy()
        return self.oracle[key], 1e-12


def bad_argument(world, b, rng):
    if b == 'target':
        return world.objs[1].copy()
    if b == 'result':
        res = [o for o, k in zip(world.objs, world.kinds) if k == 'res']
        return res[int(rng.integers(0, len(res)))]
    if b in ('longer', 'shorter'):
        sp = world.sp
        n = sp['rn'] + (1 if b == 'longer' else -1)
        names = ['C%d' % (i + 1) for i in range(n)]
        res = (sp['rres'] + [sp['rres'][-1]])[:n]
        bonds = [x for x in sp['rb'] if max(x) <= n] + ([(sp['rn'], n)] if b == 'longer' else [])
        world.n += 1
        return synth.make_molecule(os.path.join(world.workdir, 'hom%d' % world.n), 'REF', names, bonds, conf(n, 77, world.seed),
                                   residues=[('RR%d' % r, r) for r in res])
    return [None, world.objs[0].residues[0], np.zeros((world.sp['rn'], 3)), 'REF', world.objs[0][0]][int(rng.integers(0, 5))]


def replay(beh, workdir, seed):
    """-> None or (signature, record)"""
    from gaddlemaps import ExchangeMap
    rng = np.random.default_rng(seed)
    spname = ['chain3', 'twores', 'ring', 'samename'][int(rng.integers(0, 4))] if rng.random() < 0.9 else ('big' if rng.random() < 0.6 else 'huge')
    scale = float(rng.choice([0.5, 1.0, 0.3, 1.7]))
    w = World(spname, workdir, seed % 1000, scale)
    w.setup(2)
    w.kinds = ['R0', 'T0', 'arg', 'arg']
    which = {'R0': 'ref', 'arg': 'ref', 'T0': 'tgt', 'res': 'tgt'}

    def compare(step, h):
        for o, (obj, kind) in enumerate(zip(w.objs, w.kinds)):
            tok = h['coord'][o]
            exp, tol = w.expected_coord(tok, which[kind])
            got = obj.atoms_positions
            if got.shape != exp.shape:
                return 'shape', o
            if tol == 0.0:
                if not np.array_equal(got, exp):
                    return 'coordinates_of_untouched_object_changed', o
            elif not (np.all(np.isfinite(got)) and np.max(np.abs(got - exp)) <= tol * max(1.0, np.abs(exp).max())):
                return 'result_differs_from_fresh_map', o
            wr = 'ref' if which[kind] == 'ref' else 'tgt'
            if list(obj.resids) != w.rid_list(h['rids'][o], wr):
                return 'residue_numbers', o
            if kind == 'res' and ([a.name for a in obj], [a.resname for a in obj]) != w.tnames:
                return 'result_names', o
        return None

    for step, h in enumerate(beh, 1):
        op, o = h['op'], h['o'] - 1
        try:
            if op == 'Build':
                w.map = ExchangeMap(w.objs[0], w.objs[1], scale)
                if step % 3 == 1:
                    w.map.scale_factor = scale * 3 + 0.1       # the attribute rebound after construction: the map is what it was built as
                if step % 2:
                    # the table the map hands out is read and then edited by the caller (lists emptied, entries merged): the map
                    # keeps working from its own construction
                    eqv = w.map.equivalences
                    for k_ in list(eqv):
                        del eqv[k_][:]
                    eqv.clear()
            elif op == 'Call':
                st = np.random.get_state()[1].copy()
                res = w.map(w.objs[o])
                if not np.array_equal(st, np.random.get_state()[1]):
                    return ({'check': 'calls:hidden_randomness'}, {'step': step})
                if any(res is x for x in w.objs):
                    return ({'check': 'calls:result_is_an_existing_object'}, {'step': step})
                w.objs.append(res)
                w.kinds.append('res')
                if step % 4 == 1 and w.kinds[o] != 'res':
                    # short-lived arguments on topology objects of their own (deep copies of the same molecule, a molecule of
                    # another species), created and dropped one after the other: the verdict is about the molecule offered now
                    import gc
                    for _round in range(2):
                        tmp = w.objs[o].deep_copy()
                        again = w.map(tmp).atoms_positions
                        if not np.array_equal(again, res.atoms_positions):
                            return ({'check': 'calls:result_differs_from_fresh_map', 'object': 'temporary'}, {'step': step})
                        del tmp
                        foreign = bad_argument(w, 'longer' if _round else 'shorter', rng)
                        try:
                            w.map(foreign)
                            return ({'check': 'calls:bad_argument_accepted', 'bad': 'temporary homologue'}, {'step': step})
                        except TypeError:
                            pass
                        del foreign
                    gc.collect()
            elif op == 'CallBad':
                arg = bad_argument(w, h['bad'], rng)
                try:
                    w.map(arg)
                    return ({'check': 'calls:bad_argument_accepted', 'bad': h['bad']}, {'step': step, 'arg': repr(type(arg))})
                except TypeError:
                    pass
            elif op == 'MutC':
                kind = w.kinds[o]
                new = conf(w.sp['rn'], h['coord'][o][1], w.seed) if which[kind] == 'ref' else conf_target(w.sp, h['coord'][o][1], w.seed)
                if step % 2:
                    w.objs[o].atoms_positions = new
                else:
                    # in place, through the arrays the atoms hold: whatever shares an array with this object moves too
                    for atom, p in zip(w.objs[o], new):
                        arr = atom.position
                        arr[...] = p
            elif op == 'MutR':
                w.set_rids(w.objs[o], h['rids'][o])
        except Exception as exc:
            import traceback
            return ({'check': 'calls:exception:' + type(exc).__name__, 'op': op, 'bad': h.get('bad', '')},
                    {'step': step, 'text': traceback.format_exc()[-600:], 'species': spname})
        r = compare(step, h)
        if r:
            what, obj = r
            return ({'check': 'calls:' + what, 'after': op, 'object': w.kinds[obj]},
                    {'step': step, 'object_index': obj + 1, 'species': spname, 'scale': scale})
    return None


def _plain(h):
    return [{'op': e['op'], 'o': e['o'], 'bad': e['bad'], 'coord': [list(c) for c in e['coord']], 'rids': list(e['rids'])} for e in h]


def _parse_chunk(args):
    blks, maxops = args
    out = []
    for b in blks:
        st = tlaval.parse_state(b)
        if len(st['hist']) == maxops:
            out.append(_plain(st['hist']))
    return out


def behaviours_from_dump(path, maxops, limit, rng):
    with open(path) as fh:
        text = fh.read()
    blks = [b.strip() for b in re.split(r'^State \d+:\s*$', text, flags=re.M)[1:]]
    # leaves have exactly maxops history entries: count the op fields cheaply before parsing
    blks = [b for b in blks if b.count('op |->') == maxops]
    total = len(blks)
    if limit and total > limit:
        rng.shuffle(blks)
        blks = blks[:limit]
    with Pool(16) as pool:
        parts = pool.map(_parse_chunk, [(blks[i::16], maxops) for i in range(16)])
    return [c for p in parts for c in p], total


def _safe_replay(beh, workdir, seed):
    try:
        return common.guarded(replay, 120, beh, workdir, seed)
    except common.CaseTimeout as exc:
        return ({'check': 'calls:exception:CaseTimeout'}, {'text': str(exc)})


def _work(args):
    behs, workdir, seed = args
    common.import_repo()
    out = []
    for i, beh in enumerate(behs):
        out.append(_safe_replay(beh, os.path.join(workdir, 'p%d' % os.getpid(), 'b%d' % (i % 50)), seed + i))
    return out


def check(run):
    common.import_repo()
    quick = run.quick
    depth = 5 if quick else 6
    res = tlc.run('MC_XMapCalls', MC_CFG % (8, depth), run.scratch, workers=16, timeout=3000, dump=True, coverage=True, heap='12g')
    tlc.check_ok(res, 'MC_XMapCalls', need_actions=('Build', 'DoCall', 'CallBad', 'DoMutC', 'DoMutR'))
    run.add_tlc(res, 'XMapCalls exhaustive: 2 arguments, every history of %d operations over Build / Call / rejected call / coordinate '
                     'and residue-number mutation of any object: ResultsAreImages, FramesOfLastCall, WriteFrame, '
                     'RejectedChangesNothing, SnapFixed' % depth)
    rng = random.Random(run.seed)
    behs, total = behaviours_from_dump(res.dump_path, depth, 5000 if quick else 80000, rng)
    os.remove(res.dump_path)
    if total < 1000:
        raise tlc.TLCError('vacuous XMapCalls run: %d leaves' % total)
    if total > len(behs):
        run.note('%d of the %d maximal TLC histories replayed (seeded sample); TLC checked all' % (len(behs), total))
    simdir = os.path.join(run.scratch, 'sim')
    os.makedirs(simdir, exist_ok=True)
    nsim = 150 if quick else 3000
    sdepth = 30
    sim = tlc.run('MC_XMapCalls', re.sub(r'PROPERTY \w+\n', '', MC_CFG % (24, sdepth)), run.scratch, workers=1, timeout=2400,
                  coverage=False, simulate='file=%s/b,num=%d' % (simdir, nsim), depth=sdepth + 1, seed=run.seed + 1)
    if sim.violated:
        raise tlc.TLCError('simulation found a spec violation: %s' % sim.violated)
    long_behs = []
    for f in sorted(glob.glob(os.path.join(simdir, 'b*'))):
        try:
            steps = tlaval.parse_sim_file(f)
        except Exception:
            continue
        if steps:
            long_behs.append(_plain(steps[-1][1]['hist']))
    if len(long_behs) < nsim // 2:
        raise tlc.TLCError('simulation produced only %d behaviours' % len(long_behs))
    allb = behs + long_behs
    workroot = os.path.join(run.scratch, 'work')
    jobs = [(allb[i::16], workroot, run.seed * 7919 + 100000 * i) for i in range(16) if allb[i::16]]
    with Pool(16) as pool:
        results = pool.map(_work, jobs)
    calls = 0
    for chunk, rs in zip([allb[i::16] for i in range(16) if allb[i::16]], results):
        for b, r in zip(chunk, rs):
            ops = [(h['op'], h['o'], h['bad']) for h in b]
            calls += sum(1 for h in b if h['op'] == 'Call')
            run.case(json.dumps(ops), nontrivial=True, sample={'history': ops[:10]} if len(run.samples) < 4 else None)
            run.traces += 1
            if r is not None:
                run.violation(r[0], dict({'engine': 'xmap-calls', 'spec': 'XMapCalls', 'history': ops}, **r[1]))
    run.rule = ('cases = call histories on one ExchangeMap (build, valid calls on two arguments and on the construction reference, '
                'rejected arguments, coordinate / residue-number mutations of construction molecules, arguments and earlier '
                'results): every maximal history of the exhaustive bounds (sampled) + simulated histories of length 30; after '
                'every operation every live object is compared')
    run.extra.update({'exhaustive_leaves': total, 'replayed': len(behs), 'simulated_histories': len(long_behs),
                      'max_history_length': max(len(b) for b in long_behs), 'map_calls': calls})
    run.assumptions += ['arguments are conformations of the reference species with the reference topology (>= 3 atoms)',
                        'reference and target have the same number of residues',
                        'conformations are generic or have an exactly straight angle at an anchor (every fifth conformation)']


def main_c04(run):
    if run.replay:
        common.import_repo()
        rec = json.load(open(run.replay))
        run.note('replay of a recorded history is re-run through the full check (histories are seeded)')
    check(run)
