"""Extension engine `species` (X04, not a listed property): what makes a Molecule and when two are the same species.

spec/Species.tla: Match (a molecule is built iff topology and coordinate side agree position by position on atom name
and residue name; IOError otherwise), Eq (same molecule name, length, and per position atom name, residue name and
topology residue number), Cuts (residues of the coordinate side), BondTable.  TLC checks the definitions (Eq reflexive,
symmetric, equal molecules interchangeable, table symmetric) over every pair of molecules of <= 2 atoms, and emits every
(topology, coordinate side) pair of the bounds; each is built on the real Molecule(MoleculeTop, residues).  Random
molecules of 1..30 atoms (matching and perturbed sides, pairs differing in one attribute) are built, compared with
== / != and asked for bonds_distance and index; TLC validates the recorded outcomes (Trace_Species.tla).
"""
import json
import os
import random
import re
from multiprocessing import Pool

import numpy as np

from .. import common, tlc, tlaval, synth
from ..traces import validate_batches

MC_CFG = """SPECIFICATION Spec
CONSTANTS
  MaxLen = 2
  Tops <- MC_Tops
  Flats <- MC_Flats
  Mode = "%s"
INVARIANT EqReflexive
INVARIANT EqSymmetric
INVARIANT EqImpliesInterchangeable
INVARIANT BuiltOnlyIfMatch
INVARIANT TableSymmetric
CHECK_DEADLOCK FALSE
"""
TRACE_CFG = """SPECIFICATION TraceSpec
CONSTANTS
  Tops = {}
  Flats = {}
  Mode = "pair"
INVARIANT Accepted
CHECK_DEADLOCK FALSE
"""


def build(top, flat, path, rng):
    """-> (molecule or None, event) ; top = {name, atoms [[n, rn, rid]], bonds [[a, b]] 1-based}, flat = [[n, rn, rid]]"""
    from gaddlemaps.components import MoleculeTop, Molecule, Residue, AtomGro
    synth.write_itp(path, top['name'], [(a[0], a[1], int(a[2])) for a in top['atoms']], [tuple(b) for b in top['bonds']])
    mtop = MoleculeTop(path)
    pos = rng.uniform(-1, 1, (len(flat), 3))
    residues, cur = [], []
    for k, a in enumerate(flat):
        if cur and (a[1], a[2]) != (flat[k - 1][1], flat[k - 1][2]):
            residues.append(Residue(cur))
            cur = []
        cur.append(AtomGro([int(a[2]), a[1], a[0], k + 1, float(pos[k][0]), float(pos[k][1]), float(pos[k][2])]))
    residues.append(Residue(cur))
    ev = {'op': 'build', 'top': top, 'flat': flat, 'out': 'ok', 'nres': 0, 'table': [], 'lengths_ok': True, 'index_ok': True}
    try:
        mol = Molecule(mtop, residues)
    except OSError:
        ev['out'] = 'IOError'
        return None, ev
    ev['nres'] = len(mol.residues)
    tab = mol.bonds_distance
    ev['table'] = [[int(a) + 1, sorted(int(b) + 1 for b, _ in v)] for a, v in sorted(tab.items())]
    ev['lengths_ok'] = bool(all(abs(d - float(np.linalg.norm(pos[a] - pos[b]))) <= 1e-12 for a, v in tab.items() for b, d in v))
    ev['index_ok'] = bool(all(mol.index(mol[k]) == k for k in range(len(mol))) and len(mol) == len(flat))
    return mol, ev


def _parse_chunk(blks):
    out = []
    for b in blks:
        st = tlaval.parse_state(b)
        h = dict(st['hist'][0])
        t = dict(h['top'])
        top = {'name': t['name'], 'atoms': [list(a) for a in t['atoms']], 'bonds': sorted(sorted(int(x) for x in b_) for b_ in t['bonds'])}
        tab = h['table']
        items_ = tab.items() if isinstance(tab, dict) else enumerate(tab, 1)      # a function over 1..n prints as a tuple
        table = sorted([int(k), sorted(int(x) for x in v)] for k, v in items_)
        out.append({'top': top, 'flat': [list(a) for a in h['flat']], 'out': h['out'], 'nres': int(h['nres']), 'table': table})
    return out


def _replay(args):
    cases, workdir, seed = args
    common.import_repo()
    os.makedirs(workdir, exist_ok=True)
    rng = np.random.default_rng(seed)
    bad = []
    for i, c in enumerate(cases):
        try:
            _mol, ev = build(c['top'], c['flat'], os.path.join(workdir, 't%d.itp' % (i % 7)), rng)
        except Exception as exc:
            bad.append((c, {'check': 'species:exception:' + type(exc).__name__}, {}))
            continue
        got = {'out': ev['out'], 'nres': ev['nres'], 'table': ev['table']}
        want = {'out': c['out'], 'nres': c['nres'], 'table': c['table']}
        if got != want or not (ev['lengths_ok'] and ev['index_ok']):
            what = [k for k in got if got[k] != want[k]] or ['lengths_or_index']
            bad.append((c, {'check': 'species:differs_from_specification', 'what': what[0]}, {'observed': got, 'expected': want}))
    return bad


KINDS_N = ['C1', 'C2', 'N1', 'O1', 'H1', 'H2']
KINDS_R = ['LIG', 'SOL', 'ALA', 'GLY']


def _random_top(rng, name=None):
    n = int(rng.integers(1, 31))
    atoms, rid = [], 1
    for k in range(n):
        if k and rng.random() < 0.2:
            rid += int(rng.integers(0, 3))
        atoms.append([str(rng.choice(KINDS_N)), KINDS_R[(rid + k // 7) % 4] if rng.random() < 0.9 else str(rng.choice(KINDS_R)), rid])
    bonds = set()
    for k in range(1, n):
        if rng.random() < 0.85:
            bonds.add((int(rng.integers(0, k)) + 1, k + 1))
    for _ in range(int(rng.integers(0, 3))):
        if n >= 3:
            a, b = sorted(int(x) + 1 for x in rng.choice(n, 2, replace=False))
            bonds.add((a, b))
    return {'name': name or str(rng.choice(['MOLA', 'MOLB'])), 'atoms': atoms, 'bonds': sorted(list(b) for b in bonds)}


def _flat_of(top, rng, perturb):
    flat = [[a[0], a[1], int(a[2]) + int(rng.integers(0, 50))] for a in top['atoms']]
    # coordinate-side numbers are free: renumber runs
    base = int(rng.integers(1, 99990))
    for a, t in zip(flat, top['atoms']):
        a[2] = base + int(t[2])
    if perturb == 'name' and flat:
        flat[int(rng.integers(0, len(flat)))][0] = 'XX'
    elif perturb == 'resname' and flat:
        flat[int(rng.integers(0, len(flat)))][1] = 'OTH'
    elif perturb == 'drop' and len(flat) > 1:
        flat.pop(int(rng.integers(0, len(flat))))
    elif perturb == 'extra':
        flat.append(list(flat[-1]))
    elif perturb == 'swap' and len(flat) > 1:
        i = int(rng.integers(0, len(flat) - 1))
        flat[i], flat[i + 1] = flat[i + 1], flat[i]
    return flat


def _variant(top, rng):
    """a topology that differs from `top` in exactly one respect (or in none that matters)"""
    import copy
    t = copy.deepcopy(top)
    how = str(rng.choice(['same', 'bonds', 'name', 'atomname', 'resname', 'topresid', 'shorter']))
    k = int(rng.integers(0, len(t['atoms'])))
    if how == 'bonds':
        t['bonds'] = t['bonds'][:-1] if t['bonds'] else ([[1, 2]] if len(t['atoms']) > 1 else [])
    elif how == 'name':
        t['name'] = 'OTHER'
    elif how == 'atomname':
        t['atoms'][k][0] = 'QQ'
    elif how == 'resname':
        t['atoms'][k][1] = 'OTH'
    elif how == 'topresid':
        for a in t['atoms'][k:]:
            a[2] = int(a[2]) + 1
    elif how == 'shorter' and len(t['atoms']) > 1:
        t['atoms'].pop()
        t['bonds'] = [b for b in t['bonds'] if max(b) <= len(t['atoms'])]
    return t, how


def _work_rand(args):
    items, part, workdir = args
    common.import_repo()
    os.makedirs(workdir, exist_ok=True)
    with open(part, 'w') as fh:
        for tid, seed in items:
            rng = np.random.default_rng(seed)
            ev = []
            try:
                t1 = _random_top(rng)
                t2, how = _variant(t1, rng)
                mols = []
                for j, t in enumerate((t1, t2, t1)):
                    perturb = str(rng.choice(['none', 'none', 'none', 'name', 'resname', 'drop', 'extra', 'swap']))
                    m, e = build(t, _flat_of(t, rng, perturb), os.path.join(workdir, 'r%d.itp' % j), rng)
                    ev.append(e)
                    if m is not None:
                        mols.append(m)
                for i in range(len(mols)):
                    for j in range(len(mols)):
                        ev.append({'op': 'compare', 'i': i + 1, 'j': j + 1, 'eq': bool(mols[i] == mols[j]), 'qe': bool(mols[j] == mols[i]),
                                   'ne': bool(mols[i] != mols[j])})
            except Exception as exc:
                import traceback
                ev = [{'op': 'exception', 'type': type(exc).__name__, 'text': traceback.format_exc()[-600:]}]
                how = 'exception'
            fh.write(json.dumps({'tid': tid, 'meta': {'seed': seed, 'variant': how}, 'ev': ev}) + '\n')
    return part


def main_x04(run):
    common.import_repo()
    res = tlc.run('MC_Species', MC_CFG % 'pair', run.scratch, workers=16, timeout=3000, coverage=True)
    tlc.check_ok(res, 'MC_Species[pair]', need_actions=('Build', 'Compare'))
    run.add_tlc(res, 'Species, every pair of molecules of <= 2 atoms: EqReflexive, EqSymmetric, EqImpliesInterchangeable, BuiltOnlyIfMatch, TableSymmetric')
    res = tlc.run('MC_Species', MC_CFG % 'build', run.scratch, workers=16, timeout=3000, dump=True, coverage=True)
    tlc.check_ok(res, 'MC_Species[build]', need_actions=('Build',))
    run.add_tlc(res, 'Species, every (topology, coordinate side) of <= 2 atoms: built iff Match')
    with open(res.dump_path) as fh:
        text = fh.read()
    os.remove(res.dump_path)
    blks = [b.strip() for b in re.split(r'^State \d+:\s*$', text, flags=re.M)[1:]]
    del text
    leaves = [b for b in blks if len(re.findall(r'(?<![a-z])op \|->', b)) == 1]
    rng = random.Random(run.seed)
    total = len(leaves)
    limit = 6000 if run.quick else 40000
    if total > limit:
        rng.shuffle(leaves)
        leaves = leaves[:limit]
    with Pool(16) as pool:
        cases = [c for p in pool.map(_parse_chunk, [leaves[i::16] for i in range(16)]) for c in p]
    with Pool(16) as pool:
        results = pool.map(_replay, [(cases[i::16], os.path.join(run.scratch, 'w%d' % i), run.seed + i) for i in range(16)])
    for c in cases:
        run.case(('tlc', json.dumps([c['top'], c['flat']])), nontrivial=True,
                 sample={'top': c['top'], 'flat': c['flat'], 'expected': c['out']} if len(run.samples) < 3 else None)
        run.traces += 1
    for bad in results:
        for c, sig, det in bad:
            run.violation(sig, dict({'engine': 'species', 'case': c}, **det))
    nrand = 600 if run.quick else 6000
    items = [(10 ** 6 + j, run.seed * 1000003 + j) for j in range(nrand)]
    jobs = [(items[i::16], os.path.join(run.scratch, 'sp%d.ndjson' % i), os.path.join(run.scratch, 'r%d' % i)) for i in range(16) if items[i::16]]
    with Pool(16) as pool:
        parts = pool.map(_work_rand, jobs)
    traces = {}
    for p in parts:
        with open(p) as fh:
            for line in fh:
                t = json.loads(line)
                traces[t['tid']] = t
    verdicts = validate_batches('Trace_Species', TRACE_CFG, parts, run.scratch, timeout=1800, run=run)
    for tid, tr in traces.items():
        v = verdicts.get(tid)
        if tr['ev'] and tr['ev'][0]['op'] == 'exception':
            v = ('FAIL', tid, 1, 'exception:' + tr['ev'][0]['type'])
        if v is None:
            raise tlc.TLCError('no verdict for trace %r' % tid)
        run.case(('rand', tr['meta']['seed']), nontrivial=True)
        run.traces += 1
        if v[0] == 'ACC':
            continue
        e = tr['ev'][v[2] - 1] if 0 < v[2] <= len(tr['ev']) else {}
        run.violation({'check': 'trace:' + v[3], 'variant': tr['meta']['variant']},
                      {'engine': 'species', 'spec': 'Trace_Species', 'failing_clause': v[3], 'event_index': v[2], 'event': e,
                       'trace': tr if len(json.dumps(tr)) < 100000 else {'tid': tid, 'meta': tr['meta']}})
    run.rule = ('cases = every (topology, coordinate side) pair of <= 2 atoms built on the real Molecule (TLC-emitted expectation) + random '
                'molecules of 1..30 atoms with matching / perturbed coordinate sides, compared pairwise, validated by TLC')
    run.extra.update({'tlc_pairs': total, 'replayed': len(cases), 'random_traces': nrand})
    run.assumptions += ['extension beyond the listed properties; not registered in MANIFEST.json']
