"""Engine `alignment` (C06): alignment moves molecules only by structure-preserving transformations.

spec/Alignment.tla models align_molecules over shape levels (0 identical .. 4 anything) of the four
objects involved (caller's start/end, the Alignment's copies); MC_Alignment.tla proves Kept
(level <= Promise, the property's own statement) for every size relation, type subset and schedule.
Real Alignment.align_molecules runs (TLC's configuration classes and random molecule pairs) are
recorded - entry of the optimiser, every Monte-Carlo step (via the C09 observer), write-back, final
measured levels, a repetition with the same seed - and validated by TLC (Trace_Alignment.tla).
"""
import contextlib
import io
import json
import os
import random
import re
from multiprocessing import Pool

import numpy as np

from .. import common, tlc, tlaval, project, synth
from ..traces import validate_batches
from .montecarlo import Observer, ScheduleExhausted

MC_CFG = """SPECIFICATION MCSpec
CONSTANTS
  MaxN = %d
  MaxMC = %d
INVARIANT Kept
INVARIANT CallerUntouched
INVARIANT LargerOnlyTranslated
INVARIANT MobileKeepsStructure
PROPERTY OnlyMobileWritten
CHECK_DEADLOCK FALSE
"""
TRACE_CFG = "SPECIFICATION TraceSpec\nINVARIANT Accepted\nCHECK_DEADLOCK FALSE\n"


def level(ref, cur, table):
    """weakest relation level connecting conformation `cur` with `ref` (see Alignment.tla)"""
    if project.same(ref, cur):
        return 0
    if not project.finite(cur):
        return 4
    if project.translated(ref, cur):
        return 1
    if project.rigid(ref, cur):
        return 2
    if project.bonds_kept(cur, table):
        return 3
    return 4


def star_positions(n):
    """a star whose first three leaves are exactly collinear (the displacement direction of the
    centre is then 0/0): degenerate geometry a user can write down"""
    pos = [(0.0, 0.0, 0.0), (-0.2, 0.1, 0.0), (0.0, 0.1, 0.0), (0.2, 0.1, 0.0)]
    for i in range(4, n):
        pos.append((0.1 * (i - 3), -0.15, 0.1))
    if n >= 6:
        pos[n - 1] = pos[n - 2]         # two leaves ... and a bonded pair with identical coordinates (a zero-length bond)
        return np.array(pos), [(0, i) for i in range(1, n - 1)] + [(n - 2, n - 1)]
    return np.array(pos), [(0, i) for i in range(1, n)]


def build_pair(rng, workdir, nS, nE, tree, tag, degenerate=False):
    """two real molecules (random trees; the mobile one optionally with ring-closing bonds) built through
    the real parsers; returns molecules and the harness' own bond lists"""
    mob_is_start = nS < nE

    def one(n, name, cyclic, need_nonH, centre, star=False):
        pos = np.zeros((n, 3))
        edges = []
        for i in range(1, n):
            p = int(rng.integers(0, i))
            v = rng.normal(size=3)
            pos[i] = pos[p] + v / np.linalg.norm(v) * rng.uniform(0.11, 0.3)
            edges.append((p, i))
        if star:
            pos, edges = star_positions(n)
        if cyclic and n >= 3:
            for _ in range(int(rng.integers(1, 3))):
                a, b = sorted(int(x) for x in rng.choice(n, 2, replace=False))
                if (a, b) not in edges:
                    edges.append((a, b))
        pos = np.round(pos + centre, 3)
        names = []
        for i in range(n):
            el = 'H' if rng.random() < 0.35 else str(rng.choice(['C', 'N', 'O', 'HA', 'S']))
            names.append('%s%d' % (el, i + 1))
        if need_nonH and all(re.match(r'H\d', x) for x in names):
            names[int(rng.integers(0, n))] = 'C99'
        mol = synth.make_molecule(os.path.join(workdir, tag), name, names, [(a + 1, b + 1) for a, b in edges], pos)
        return mol, edges, names

    cS = rng.normal(size=3) * 2
    cE = rng.normal(size=3) * 2
    start, eS, namesS = one(nS, 'S' + tag[:3], (not tree) and mob_is_start, not mob_is_start, cS,
                            degenerate and mob_is_start and nS >= 4)
    end, eE, namesE = one(nE, 'E' + tag[:3], (not tree) and not mob_is_start, mob_is_start, cE,
                          degenerate and not mob_is_start and nE >= 4)
    return start, end, eS, eE


def table_of(pos, edges):
    t = {i: [] for i in range(len(pos))}
    for a, b in edges:
        d = float(np.linalg.norm(pos[a] - pos[b]))
        t[a].append((b, d))
        t[b].append((a, d))
    return t


def names_of(mol):
    return [(a.name, a.resname) for a in mol]


def one_alignment(start, end, eS, eE, kw, factor, seed, observe=True, reassign='', via_manager=None, tty=False):
    """run a real alignment; -> (events, final positions digest)"""
    import gaddlemaps._alignment as A
    import gaddlemaps._backend as B
    from gaddlemaps import Alignment
    pS0, pE0 = start.atoms_positions.copy(), end.atoms_positions.copy()
    tS, tE = table_of(pS0, eS), table_of(pE0, eE)
    nS, nE = len(start), len(end)
    nm0 = (names_of(start), names_of(end))
    vel0 = [None if m_.atoms_velocities is None else m_.atoms_velocities.copy() for m_ in (start, end)]

    def vel_same(m_, v0):
        v1 = m_.atoms_velocities
        return (v1 is None) == (v0 is None) and (v0 is None or bool(np.array_equal(v1, v0)))
    ev = []
    man = None
    if via_manager:
        # the other public entry point: the species' Alignment of a Manager, options given per molecule name
        from gaddlemaps import Manager
        from gaddlemaps.components import System
        # a second species in the same system, with its own options, listed in another order than the system's
        d_ = os.path.dirname(via_manager[0])
        recs = [(1, start.resnames[0], a.name, i + 1, tuple(float(x) for x in a.position)) for i, a in enumerate(start)]
        dpos = np.array([[8.0, 8.0, 8.0], [8.2, 8.0, 8.1], [8.3, 8.2, 8.0]])
        recs += [(2, 'DEC', 'D%d' % (k + 1), len(recs) + k + 1, tuple(dpos[k])) for k in range(3)]
        both = os.path.join(d_, 'both.gro')
        synth.write_gro(both, recs)
        synth.write_itp(os.path.join(d_, 'DEC.itp'), 'DEC', [('D1', 'DEC', 1), ('D2', 'DEC', 1), ('D3', 'DEC', 1)], [(1, 2), (2, 3)])
        dec_end = synth.make_molecule(os.path.join(d_, 'decend'), 'DEC', ['E1', 'E2', 'E3', 'E4'], [(1, 2), (2, 3), (3, 4)],
                                      np.array([[1.0, 1.0, 1.0], [1.1, 1.2, 1.0], [1.3, 1.2, 1.1], [1.4, 1.0, 1.2]]))
        man = Manager(System(both, via_manager[1], os.path.join(d_, 'DEC.itp')))
        ali = man.molecule_correspondence[start.name]
        ali.end = end
        man.molecule_correspondence['DEC'].end = dec_end
        man.molecule_correspondence['DEC'].STEPS_FACTOR = 1
    else:
        ali = Alignment(start, end)
    ali.STEPS_FACTOR = factor
    # the documented way to update a molecule of an existing Alignment: assign it again
    if 's' in reassign:
        ali.start = start
    if 'e' in reassign:
        ali.end = end
    ev.append({'op': 'Construct',
               'copyS': bool(ali.start is not start and ali.start[0] is not start[0] and project.same(ali.start.atoms_positions, pS0)),
               'copyE': bool(ali.end is not end and ali.end[0] is not end[0] and project.same(ali.end.atoms_positions, pE0))})
    rec = {}
    real_min = B.minimize_molecules

    def wrapped(mol1, mol2, com, sigma, n_steps, restr, table, width, types):
        aS, aE = ali.start.atoms_positions.copy(), ali.end.atoms_positions.copy()
        mol1 = np.array(mol1, float)
        mol2a = np.array(mol2, float)
        if man is not None and not ((mol2a.shape == aS.shape and project.same(mol2a, aS)) or (mol2a.shape == aE.shape and project.same(mol2a, aE))):
            return real_min(mol1, mol2, com, sigma, n_steps, restr, table, width, types)      # the other species' alignment
        rec['enter'] = True
        mobile = 'as' if project.same(mol2a, aS) and not project.same(mol2a, aE) else \
                 'ae' if project.same(mol2a, aE) and not project.same(mol2a, aS) else 'unobserved'
        ev.append({'op': 'MoveStart', 'lvAs': level(pS0, aS, tS),
                   'centred': bool(np.max(np.abs(aS.mean(axis=0) - aE.mean(axis=0))) <= 1e-9 * project.scale_of(aS, aE))})
        ev.append({'op': 'Roles', 'mobile': mobile})

        def rows_in(rows, pos):
            return all(any(np.array_equal(r, p) for p in pos) for r in rows)
        fixed = 'as' if rows_in(mol1, aS) and not rows_in(mol1, aE) else 'ae' if rows_in(mol1, aE) and not rows_in(mol1, aS) else 'unobserved'
        ev.append({'op': 'Enter', 'fixedRows': fixed, 'lvAe': level(pE0, aE, tE), 'nFixedRows': len(mol1), 'nSteps': int(n_steps)})
        rec['at_enter'] = (aS, aE)
        if observe:
            obs = Observer(table, cap=300 * int(n_steps) + 30000)
            with obs:
                out = real_min(mol1, mol2, com, sigma, n_steps, restr, table, width, types)
            evs = obs.finish()
            i = 0
            while i + 2 < len(evs) + 0:
                if evs[i]['op'] == 'Choose' and i + 2 < len(evs) and evs[i + 1]['op'] == 'Eval' and evs[i + 2]['op'] == 'Judge':
                    ev.append({'op': 'Step', 'k': evs[i]['k'], 'acc': evs[i + 2]['verdict'], 'lvl': evs[i + 1]['lvl']})
                    i += 3
                else:
                    i += 1
        else:
            out = real_min(mol1, mol2, com, sigma, n_steps, restr, table, width, types)
        return out

    A.minimize_molecules = wrapped
    class _Terminal(io.StringIO):
        def isatty(self):
            return True
    np.random.seed(seed)
    try:
        # the progress output goes to a pipe / file, or to something that says it is a terminal: the result is the same
        with contextlib.redirect_stdout(_Terminal() if tty else io.StringIO()):
            if man is not None:
                nm = start.name
                defo = {'DEC': (0, 1, 2)}
                if kw['deformation_types'] is not None:
                    defo = {nm: kw['deformation_types'], 'DEC': (0, 1, 2)}
                man.align_molecules(restrictions={'DEC': [], nm: list(kw['restrictions'] or [])}, deformation_types=defo,
                                    ignore_hydrogens={nm: kw['ignore_hydrogens'], 'DEC': False}, parse_restrictions=False)
            else:
                ali.align_molecules(**kw)
    finally:
        A.minimize_molecules = real_min
    fS, fE = ali.start.atoms_positions.copy(), ali.end.atoms_positions.copy()
    if 'enter' not in rec:
        ev.append({'op': 'MoveStart', 'lvAs': level(pS0, fS, tS),
                   'centred': bool(np.max(np.abs(fS.mean(axis=0) - fE.mean(axis=0))) <= 1e-9 * project.scale_of(fS, fE))})
        ev.append({'op': 'Roles', 'mobile': 'unobserved'})
        ev.append({'op': 'Early'})
    else:
        aS, aE = rec['at_enter']
        chS, chE = not project.same(aS, fS), not project.same(aE, fE)
        ev.append({'op': 'WriteBack', 'who': 'both' if chS and chE else 'as' if chS else 'ae' if chE else 'none'})
    ev.append({'op': 'Final', 'lv': [level(pS0, start.atoms_positions, tS), level(pE0, end.atoms_positions, tE),
                                     level(pS0, fS, tS), level(pE0, fE, tE)],
               'names': bool((names_of(start), names_of(end)) == nm0 and (names_of(ali.start), names_of(ali.end)) == nm0
                             and vel_same(start, vel0[0]) and vel_same(end, vel0[1])
                             and (man is not None or vel_same(ali.start, vel0[0])) and vel_same(ali.end, vel0[1])),
               'finite': project.finite(fS) and project.finite(fE),
               'berr': [project.max_bond_error(fS, tS), project.max_bond_error(fE, tE)]})
    return ev, (fS.tobytes(), fE.tobytes())


def run_case(tid, seed, cfgcls, workdir, thorough):
    """cfgcls = None (random) or dict(nS, nE, types, tree) from TLC"""
    rng = np.random.default_rng(seed)
    if cfgcls is None:
        cls = rng.choice(['lt', 'eq', 'gt', 'end1', 'start1'], p=[0.3, 0.15, 0.3, 0.15, 0.1])
        big = int(rng.integers(2, 41))
        small = int(rng.integers(1 if cls in ('lt', 'gt') else 2, big)) if big > 2 else 1
        nS, nE = {'lt': (small, big), 'eq': (big, big), 'gt': (big, small), 'end1': (big, 1), 'start1': (1, big)}[str(cls)]
        m = min(nS, nE) if nS != nE else nE
        tree = bool(rng.random() < 0.8) or m < 3
        subsets = [(0,), (1,), (0, 1)] if m < 2 else [(0,), (1,), (2,), (0, 1), (0, 2), (1, 2), (0, 1, 2)]
        types = None if rng.random() < 0.3 else subsets[int(rng.integers(0, len(subsets)))]
    else:
        nS, nE, tree = cfgcls['nS'], cfgcls['nE'], cfgcls['tree']
        types = tuple(cfgcls['types'])
        m = nS if nS < nE else nE
    degenerate = bool(rng.random() < 0.15) and tree and (types is None or 2 in types) and m >= 4
    start, end, eS, eE = build_pair(rng, workdir, nS, nE, tree, 't%d' % tid, degenerate)
    if rng.random() < 0.4:
        # molecules that carry velocities (the optional columns of a coordinate file): an alignment is about positions
        start.atoms_velocities = rng.normal(size=(nS, 3))
        end.atoms_velocities = rng.normal(size=(nE, 3))
    reassign = str(rng.choice(['', '', 's', 'e', 'se']))
    mob_edges = eS if nS < nE else eE
    tree = len(mob_edges) == m - 1
    restr = None
    r = rng.random()
    if r < 0.4:
        restr = [(int(rng.integers(0, nS)), int(rng.integers(0, nE))) for _ in range(int(rng.integers(1, 6)))]
    elif r < 0.55:
        restr = []
    kw = {'restrictions': restr, 'deformation_types': types, 'ignore_hydrogens': bool(rng.random() < 0.6)}
    factor = int(rng.choice([1, 2, 5, 10] if not thorough else [1, 3, 10, 25, 50]))
    eff = types if types is not None else ((0,) if (nS == 1 or nE == 1) else (0, 1, 2))
    meta = {'seed': seed, 'nS': nS, 'nE': nE, 'types': list(types) if types else 'None', 'factor': factor,
            'ignoreH': kw['ignore_hydrogens'], 'restr': restr if restr is not None else 'None', 'tlc_case': cfgcls is not None, 'degenerate': degenerate, 'reassign': reassign}
    cfg = {'nS': nS, 'nE': nE, 'types': sorted(set(eff)), 'tree': tree}
    try:
        if rng.random() < 0.3:
            # an earlier alignment in the same process of the same species (copies sharing the topology objects) in
            # another conformation with other bond lengths: nothing of it may reach the alignment observed below
            sp, ep = start.copy(), end.copy()
            sp.atoms_positions = start.atoms_positions * 1.37
            ep.atoms_positions = end.atoms_positions * 0.81
            one_alignment(sp, ep, eS, eE, kw, 1, (seed + 1) % (2 ** 32), observe=False)
        via = None
        if reassign == '' and rng.random() < 0.3:
            d_ = os.path.join(workdir, 't%d' % tid)
            via = (os.path.join(d_, start.name + '.gro'), os.path.join(d_, start.name + '.itp'))
        meta['via_manager'] = bool(via)
        ev, dig = one_alignment(start, end, eS, eE, kw, factor, seed % (2 ** 32), reassign=reassign, via_manager=via)
        _ev2, dig2 = one_alignment(start, end, eS, eE, kw, factor, seed % (2 ** 32), observe=False, reassign=reassign, via_manager=via,
                                   tty=True)
        ev.append({'op': 'Repeat', 'same': bool(dig == dig2)})
    except ScheduleExhausted:
        return None
    except Exception as exc:
        import traceback
        ev = [{'op': 'Exception', 'type': type(exc).__name__, 'text': traceback.format_exc()[-700:]}]
    meta['steps'] = sum(1 for e in ev if e['op'] == 'Step')
    return {'tid': tid, 'cfg': cfg, 'meta': meta, 'ev': ev}


SHIPPED = {'CUR': ('CUR_map.gro', 'CUR_CG.itp', 'CUR_AA.gro', 'CUR_AA.itp'),
           'VTE': ('VTE_map.gro', 'vitamin_E_CG.itp', 'VTE_AA.gro', 'VTE_AA.itp'),
           'BF4': ('BF4_CG.gro', 'BF4_CG.itp', 'BF4_AA.gro', 'BF4_AA.itp'),
           'BMIM': ('system_bmimbf4_cg.gro', 'BMIM_CG.itp', 'BMIM_AA.gro', 'BMIM_AA.itp'),
           'PROT': ('Protein_CG.gro', 'Protein_CG.itp', 'Protein_AA.gro', 'Protein_AA.itp')}


def shipped_case(tid, seed, name, swap, types):
    """a shipped molecule pair (coarse-grained / atomistic), either one as the start molecule"""
    import gaddlemaps
    from gaddlemaps.components import Molecule, System
    D = gaddlemaps.DATA_FILES_PATH
    a, b, c, d = SHIPPED[name]
    cg = System(D[a], D[b])[0] if name == 'BMIM' else Molecule.from_files(D[a], D[b])
    aa = Molecule.from_files(D[c], D[d])
    start, end = (aa, cg) if swap else (cg, aa)

    def edges(m):
        return sorted({(min(i, j), max(i, j)) for i, at in enumerate(m) for j in at.bonds})
    eS, eE = edges(start), edges(end)
    nS, nE = len(start), len(end)
    mob_n, mob_e = (nS, eS) if nS < nE else (nE, eE)
    tree = len(mob_e) == mob_n - 1
    if types is not None and 2 in types and mob_n < 2:
        types = (0,)
    kw = {'restrictions': None, 'deformation_types': types, 'ignore_hydrogens': bool(seed % 2)}
    eff = types if types is not None else ((0,) if (nS == 1 or nE == 1) else (0, 1, 2))
    meta = {'seed': seed, 'nS': nS, 'nE': nE, 'types': list(types) if types else 'None', 'factor': 1, 'ignoreH': kw['ignore_hydrogens'],
            'restr': 'None', 'tlc_case': False, 'shipped': name, 'swap': swap, 'degenerate': False, 'reassign': ''}
    cfg = {'nS': nS, 'nE': nE, 'types': sorted(set(eff)), 'tree': tree}
    try:
        ev, dig = one_alignment(start, end, eS, eE, kw, 1, seed % (2 ** 32))
        _e2, dig2 = one_alignment(start, end, eS, eE, kw, 1, seed % (2 ** 32), observe=False)
        ev.append({'op': 'Repeat', 'same': bool(dig == dig2)})
    except ScheduleExhausted:
        return None
    except Exception as exc:
        import traceback
        ev = [{'op': 'Exception', 'type': type(exc).__name__, 'text': traceback.format_exc()[-700:]}]
    meta['steps'] = sum(1 for e in ev if e['op'] == 'Step')
    return {'tid': tid, 'cfg': cfg, 'meta': meta, 'ev': ev}


def _work(args):
    items, part, workdir, thorough = args
    common.import_repo()
    skipped = 0
    with open(part, 'w') as fh:
        for tid, seed, cfgcls in items:
            if isinstance(cfgcls, dict) and 'shipped' in cfgcls:
                tr = shipped_case(tid, seed, cfgcls['shipped'], cfgcls['swap'], cfgcls['types'])
            else:
                tr = common.guarded(run_case, 1200, tid, seed, cfgcls, workdir, thorough)
            if tr is None:
                skipped += 1
                continue
            fh.write(json.dumps(tr) + '\n')
    return part, skipped


def classes_from_dump(path):
    with open(path) as fh:
        text = fh.read()
    out = set()
    for m in re.finditer(r'cfg = (\[[^\]]*\])', text):
        c = tlaval.parse_value(m.group(1))
        out.add((c['nS'], c['nE'], tuple(sorted(c['types'])), c['tree']))
    return sorted(out)


def check(run):
    common.import_repo()
    quick = run.quick
    res = tlc.run('MC_Alignment', MC_CFG % ((3, 3) if quick else (4, 5)), run.scratch, workers=16, timeout=3000, dump=True)
    tlc.check_ok(res, 'MC_Alignment', need_actions=('MCConstruct', 'MCMoveStart', 'MCSelectRoles', 'MCEarly', 'MCEnter', 'MCWriteBack', 'MCStep'))
    run.add_tlc(res, 'Alignment exhaustive: sizes 1..%d, all type subsets, tree/cyclic, schedules of <= %d steps: Kept, '
                     'CallerUntouched, LargerOnlyTranslated, MobileKeepsStructure, OnlyMobileWritten' % ((3, 3) if quick else (4, 5)))
    classes = [c for c in classes_from_dump(res.dump_path)
               if c[3] or min(c[0], c[1]) >= 3 or (c[0] == c[1] and c[1] >= 3)]
    classes = [c for c in classes if c[3] or (c[0] if c[0] < c[1] else c[1]) >= 3]
    # the larger molecule needs a bond (two atoms) unless the end has one atom (optimiser skipped)
    classes = [c for c in classes if c[1] == 1 or max(c[0], c[1]) >= 2]
    os.remove(res.dump_path)
    if len(classes) < 20:
        raise tlc.TLCError('vacuous: %d configuration classes' % len(classes))
    workdir = os.path.join(run.scratch, 'mols')
    items = []
    tid = 0
    reps = 2 if quick else 6
    for c in classes:
        for r in range(reps):
            tid += 1
            items.append((tid, run.seed * 1000003 + tid, {'nS': c[0], 'nE': c[1], 'types': list(c[2]), 'tree': c[3]}))
    nrand = 500 if quick else 5000
    for j in range(nrand):
        tid += 1
        items.append((tid, run.seed * 1000003 + 500000 + j, None))
    # shipped molecule pairs, both directions (the multi-residue protein pair uses the automatic restraints)
    names = ['CUR', 'VTE', 'BF4', 'BMIM'] + ([] if quick else ['PROT'])
    for name in names:
        for swap in (False, True):
            for types in ((None, (0, 1)) if quick else (None, (0, 1), (2,), (0,))):
                tid += 1
                items.append((tid, run.seed * 1000003 + 900000 + tid, {'shipped': name, 'swap': swap, 'types': types}))
    jobs = [(items[i::16], os.path.join(run.scratch, 'al%d.ndjson' % i), workdir, not quick) for i in range(16) if items[i::16]]
    with Pool(16) as pool:
        outs = pool.map(_work, jobs)
    parts = [o[0] for o in outs]
    skipped = sum(o[1] for o in outs)
    traces = {}
    for p in parts:
        with open(p) as fh:
            for line in fh:
                t = json.loads(line)
                traces[t['tid']] = t
    verdicts = validate_batches('Trace_Alignment', TRACE_CFG, parts, run.scratch, timeout=3000, run=run, heap='6g')
    steps = 0
    cls_count = {}
    for tid, tr in traces.items():
        v = verdicts.get(tid)
        if v is None:
            raise tlc.TLCError('no verdict for trace %r (last events %r)' % (tid, tr['ev'][-2:]))
        m = tr['meta']
        run.case(('a', m['seed']), nontrivial=True)
        run.traces += 1
        steps += m.get('steps', 0)
        k = '<' if m['nS'] < m['nE'] else '=' if m['nS'] == m['nE'] else '>'
        if m['nE'] == 1:
            k = 'end1'
        cls_count[k] = cls_count.get(k, 0) + 1
        if v[0] == 'ACC':
            continue
        e = tr['ev'][v[2] - 1] if 0 < v[2] <= len(tr['ev']) else {}
        run.violation({'check': 'trace:' + v[3], 'sizes': k},
                      {'engine': 'alignment', 'spec': 'Trace_Alignment', 'failing_clause': v[3], 'event_index': v[2], 'event': e,
                       'cfg': tr['cfg'], 'meta': m, 'tail': tr['ev'][-3:]})
    if skipped:
        run.note('%d runs cut by the step cap were not validated (termination is not claimed)' % skipped)
    run.samples.append({'cfg': traces[1]['cfg'], 'meta': traces[1]['meta'], 'events': len(traces[1]['ev'])})
    run.rule = ('cases = real Alignment.align_molecules runs: every configuration class of MC_Alignment (sizes, type subset, '
                'tree/cyclic) and random molecule pairs (1..40 atoms, restraints, hydrogens, seeds, step factors), each repeated '
                'with the same seed')
    run.extra.update({'tlc_classes': len(classes), 'random_pairs': nrand, 'monte_carlo_steps_observed': steps,
                      'size_classes': cls_count})
    run.assumptions += ['the larger molecule has at least one bond and one non-hydrogen atom', 'the mobile molecule is connected',
                        'pure-Python backend', 'bonded distances compared to 1e-9 relative, rigid motions to 1e-9']


def main_c06(run):
    if run.replay:
        common.import_repo()
        rec = json.load(open(run.replay))
        m = rec['meta']
        cls = {'nS': m['nS'], 'nE': m['nE'], 'types': rec['cfg']['types'], 'tree': rec['cfg']['tree']} if m.get('tlc_case') else None
        part = os.path.join(run.scratch, 'r.ndjson')
        tr = run_case(1, m['seed'], cls, os.path.join(run.scratch, 'mols'), rec.get('tier') == 'thorough')
        with open(part, 'w') as fh:
            fh.write(json.dumps(tr) + '\n')
        v = validate_batches('Trace_Alignment', TRACE_CFG, [part], run.scratch, run=run).get(1)
        if v and v[0] != 'ACC':
            run.violation({'check': 'trace:' + v[3]}, {'failing_clause': v[3], 'meta': m})
        run.states, run.transitions = max(run.states, 1), max(run.transitions, 1)
        run.samples.append({'replayed': run.replay})
        return
    check(run)
