"""Engine `frames` (C17): rotation_matrix and calcule_base.

TLC model-checks spec/Frames.tla: the group laws on the exact (integer) matrices of the 24 lattice
rotations written as (axis, angle) pairs, and the frame laws on every lattice point triple of the
bounds (all exactly collinear directions, coincident middle point).  The exact matrices / frames
are replayed on the real functions over scales 1e-6..1e6 (axes) and 1e-3..1e3 nm (points); random
floating-point inputs are recorded as relation booleans and validated against Trace_Frames.tla.
"""
import json
import math
import os
import random
import re
from multiprocessing import Pool

import numpy as np

from .. import common, tlc, tlaval
from ..traces import validate_batches

MC_CFG = """SPECIFICATION Spec
CONSTANTS
  RotCases <- MC_RotCases
  Triples <- MC_Triples
  PerpOf <- MC_PerpOf
INVARIANT RotLaws
INVARIANT FrameLaws
CHECK_DEADLOCK FALSE
"""
TRACE_CFG = """SPECIFICATION TraceSpec
INVARIANT Accepted
CHECK_DEADLOCK FALSE
"""
TOL = 1e-12


def _parse_chunk(blks):
    out = []
    for b in blks:
        st = tlaval.parse_state(b)
        if st.get('phase') == 'done':
            out.append((st['case'], st['res']))
    return out


def cases_from_dump(path):
    with open(path) as fh:
        text = fh.read()
    blks = [b.strip() for b in re.split(r'^State \d+:\s*$', text, flags=re.M)[1:] if '"done"' in b]
    with Pool(8) as pool:
        parts = pool.map(_parse_chunk, [blks[i::8] for i in range(8)])
    return [c for p in parts for c in p]


def angle_of(c):
    if c['kind'] == 'quarter':
        return c['k'] * math.pi / 2
    if c['kind'] == 'third':
        return c['k'] * 2 * math.pi / 3
    return math.pi


def rot_relations(rotation_matrix, axis, theta, rng):
    R = rotation_matrix(axis, theta)
    fin = bool(np.isfinite(R).all())
    if not fin:
        return dict(finite=False, orth=False, det=False, axis_fixed=False, trace=False, transpose=False,
                    compose=False, scale_indep=False)
    n = axis / np.linalg.norm(axis)
    th2 = rng.uniform(-20, 20)
    Rm = rotation_matrix(axis, -theta)
    R2 = rotation_matrix(axis, th2)
    R12 = rotation_matrix(axis, theta + th2)
    Rs = rotation_matrix(axis * rng.choice([1e-3, 0.5, 7.0, 1e3]), theta)
    # the last request of this axis uses the caller's array again: the next request (that array refilled in place with
    # another axis) then follows it directly, with no other array object in between
    Rlast = rotation_matrix(axis, theta)
    rel = _rot_rel(R, Rm, R2, R12, Rs, n, theta)
    rel['transpose'] = bool(rel['transpose'] and np.array_equal(Rlast, R))
    # a returned matrix belongs to the caller: overwriting it in place must not affect any later result
    for M in (R, Rm, R2, R12, Rs):
        try:
            M[...] = np.nan
        except Exception:
            pass
    return rel


def _rot_rel(R, Rm, R2, R12, Rs, n, theta):
    return dict(finite=True,
                orth=bool(np.abs(R @ R.T - np.eye(3)).max() <= TOL),
                det=bool(abs(np.linalg.det(R) - 1) <= TOL),
                axis_fixed=bool(np.abs(R @ n - n).max() <= TOL and np.abs(n @ R - n).max() <= TOL),
                trace=bool(abs(np.trace(R) - (1 + 2 * math.cos(theta))) <= 4 * TOL),
                transpose=bool(np.abs(Rm - R.T).max() <= TOL),
                compose=bool(np.abs(R @ R2 - R12).max() <= 20 * TOL),
                scale_indep=bool(np.abs(Rs - R).max() <= TOL))


def frame_relations(calcule_base, pts):
    pts = [np.array(p, float) for p in pts]
    keep = [p.copy() for p in pts]
    (v1, v2, v3), origin = calcule_base(pts)
    B = np.array([v1, v2, v3])
    fin = bool(np.isfinite(B).all())
    e1 = keep[2] - keep[0]
    aux = keep[1] - keep[0]
    scale = max(np.linalg.norm(e1), np.linalg.norm(aux), 1e-300)
    cr = np.cross(e1 / np.linalg.norm(e1), aux / max(np.linalg.norm(aux), 1e-300)) if np.linalg.norm(aux) > 0 \
        else np.zeros(3)
    sin = float(np.linalg.norm(cr))
    rel = dict(finite=fin, collinear=bool(sin < 1e-9), sin=sin)
    if not fin:
        rel.update(orthonormal=False, right_handed=False, first=False, normal=False, origin=False, intact=False)
        return rel
    rel['orthonormal'] = bool(np.abs(B @ B.T - np.eye(3)).max() <= TOL)
    rel['right_handed'] = bool(abs(np.linalg.det(B) - 1) <= 10 * TOL and np.abs(np.cross(v1, v2) - v3).max() <= 10 * TOL)
    rel['first'] = bool(np.abs(v1 - e1 / np.linalg.norm(e1)).max() <= TOL)
    rel['normal'] = bool(abs(v3 @ e1) / scale <= 10 * TOL and abs(v3 @ aux) / scale <= max(10 * TOL, 2e-16 / max(sin, 1e-300)))
    rel['origin'] = bool((np.array(origin) == keep[0]).all())
    rel['intact'] = all(bool((a == b).all()) for a, b in zip(pts, keep))
    # the three points handed over as ONE (3, 3) array (as ExchangeMap does for small molecules): same frame,
    # array not modified, and a second call on the same array gives the same frame again
    arr = np.array(keep, float)
    (w1, w2, w3), _o = calcule_base(arr)
    first = np.array([w1, w2, w3]).copy()
    (x1, x2, x3), _o = calcule_base(arr)
    rel['intact'] = bool(rel['intact'] and np.array_equal(arr, np.array(keep, float))
                         and np.array_equal(first, np.array([x1, x2, x3])))
    return rel


def _work_rand(args):
    items, part = args
    gm = common.import_repo()
    from gaddlemaps import rotation_matrix, calcule_base
    with open(part, 'w') as fh:
        for tid, seed in items:
            rng = np.random.default_rng(seed)
            ev = []
            axbuf = np.zeros(3)       # one axis buffer refilled in place: results depend on its contents, not its identity
            for _ in range(6):
                axis = rng.normal(size=3)
                axis *= 10 ** rng.uniform(-6, 6) / np.linalg.norm(axis)
                if rng.random() < 0.2:
                    axis = np.eye(3)[rng.integers(0, 3)] * 10 ** rng.uniform(-6, 6) * rng.choice([-1, 1])
                elif rng.random() < 0.2:
                    axis = axis / np.linalg.norm(axis) * (1.0 + float(rng.choice([9e-6, -9e-6, 3e-4, 1e-9])))     # almost, not exactly, a unit vector
                # any angle, the special ones, and small angles of every decade (a Monte Carlo step is often small)
                theta = float(rng.choice([rng.uniform(-20, 20), 0.0, math.pi, -math.pi / 2, 2 * math.pi,
                                          rng.choice([-1, 1]) * 10.0 ** (-rng.uniform(1.0, 9.0)), rng.uniform(-0.05, 0.05)]))
                axbuf[...] = axis
                axis = axbuf
                try:
                    with common.caller_state(tid + len(ev)):
                        rel = rot_relations(rotation_matrix, axis, theta, rng)
                except Exception as exc:
                    rel = dict(finite=False, orth=False, det=False, axis_fixed=False, trace=False, transpose=False,
                               compose=False, scale_indep=False, exc=type(exc).__name__)
                rel.update(op='rot', axis=[float(x) for x in axis], theta=theta)
                ev.append(rel)
            for _ in range(6):
                sc = 10 ** rng.uniform(-3, 3)
                p0 = rng.uniform(-1, 1, 3) * sc
                kind = rng.choice(['generic', 'generic', 'collinear_int', 'collinear_axis', 'collinear_tilt', 'middle', 'decimal', 'far_small'])
                if kind == 'far_small':
                    # a small triple (extent 2^-9 .. 2^-5 nm) hundreds of nm from the origin, on a dyadic grid so that the
                    # differences are exact: three clearly distinct points, however close compared with their coordinates
                    p0 = rng.integers(-1024, 1025, 3).astype(float)
                    g = 2.0 ** -int(rng.integers(5, 10))
                    tiny = rng.random() < 0.5
                    if tiny:
                        # every coordinate large (600 .. 1024 nm) and the triple only 2^-9 nm across: the points differ by less
                        # than a relative 1e-5 of their coordinates, and are three different points all the same
                        p0 = (rng.integers(600, 1025, 3) * rng.choice([-1, 1], 3)).astype(float)
                        g = 2.0 ** -9
                    while True:
                        span = 2 if tiny else 9
                        a, b = rng.integers(1 - span, span, 3).astype(float), rng.integers(1 - span, span, 3).astype(float)
                        if np.linalg.norm(np.cross(a, b)) > 1e-3 * max(np.linalg.norm(a) * np.linalg.norm(b), 1e-300) and a.any() and b.any():
                            break
                    p1, p2 = p0 + b * g, p0 + a * g
                elif kind == 'generic':
                    while True:
                        p1 = p0 + rng.normal(size=3) * sc * 0.3
                        p2 = p0 + rng.normal(size=3) * sc * 0.3
                        a, b = p2 - p0, p1 - p0
                        if np.linalg.norm(np.cross(a, b)) / (np.linalg.norm(a) * np.linalg.norm(b)) > 1e-3:
                            break
                elif kind == 'collinear_int':
                    d = rng.integers(-9, 10, 3).astype(float)
                    if not d.any():
                        d[0] = 1
                    p0 = np.round(p0 / sc) * sc
                    k1, k2 = rng.choice([-3, -2, -1, 1, 2, 3, 5], 2, replace=False)
                    p1, p2 = p0 + k1 * d * sc, p0 + k2 * d * sc
                elif kind == 'collinear_axis':
                    d = np.eye(3)[rng.integers(0, 3)] * rng.choice([-1, 1])
                    p1, p2 = p0 + 0.3 * sc * d, p0 - 0.7 * sc * d
                elif kind == 'collinear_tilt':
                    # a line a tiny angle away from a coordinate axis (any axis, any sign): collinear as written
                    k, j = rng.choice(3, 2, replace=False)
                    d = np.eye(3)[k] * rng.choice([-1, 1]) + np.eye(3)[j] * rng.choice([-1, 1]) * 10.0 ** (-rng.integers(2, 13))
                    if rng.random() < 0.5:
                        d = d + np.eye(3)[3 - k - j] * rng.choice([-1, 1]) * 10.0 ** (-rng.integers(2, 13))
                    d = d / np.linalg.norm(d)
                    k1, k2 = rng.choice([-3, -2, -1, 1, 2, 3, 5], 2, replace=False)
                    p1, p2 = p0 + k1 * d * sc * 0.1, p0 + k2 * d * sc * 0.1
                elif kind == 'middle':
                    p1, p2 = p0.copy(), p0 + rng.normal(size=3) * sc
                else:
                    d = rng.integers(-3, 4, 3).astype(float)
                    if not d.any():
                        d[2] = 1
                    d *= 0.125
                    p0 = np.array([0.3, 0.2, 0.1])
                    p1, p2 = p0 + d, p0 + 2 * d
                try:
                    with common.caller_state(tid + len(ev)):
                        rel = frame_relations(calcule_base, [p0, p1, p2])
                except Exception as exc:
                    rel = dict(finite=False, collinear=False, orthonormal=False, right_handed=False, first=False,
                               normal=False, origin=False, intact=False, exc=type(exc).__name__)
                if 1e-9 <= rel.get('sin', 1) < 1e-6:
                    continue     # neither "collinear as written" nor a determined plane: not in the domain
                rel.update(op='frame', kind=str(kind), pts=[p0.tolist(), p1.tolist(), p2.tolist()])
                ev.append(rel)
            fh.write(json.dumps({'tid': tid, 'ev': ev, 'meta': {'seed': seed}}) + '\n')
    return part


def check(run):
    gm = common.import_repo()
    from gaddlemaps import rotation_matrix, calcule_base
    res = tlc.run('MC_Frames', MC_CFG, run.scratch, workers=16, timeout=1200, dump=True)
    tlc.check_ok(res, 'MC_Frames', need_actions=['Compute'])
    run.add_tlc(res, 'Frames exhaustive: RotLaws (24-rotation group as axis/angle pairs), FrameLaws (lattice triples)')
    cases = cases_from_dump(res.dump_path)
    os.remove(res.dump_path)
    rng = np.random.default_rng(run.seed)
    conv = None     # +1: R = M/den, -1: R = (M/den)^T  (either consistent convention satisfies the property)
    nrot = nfr = 0
    scales_axis = [1e-6, 1e-3, 1.0, 37.0, 1e6]
    scales_pts = [1e-3, 0.125, 1.0, 1e3]
    for case, r in cases:
        if case['t'] == 'rot':
            c = case['c']
            M = np.array(r['m'], float) / r['den']
            theta = angle_of(c)
            forms = [np.array(c['u'], float) * sc for sc in scales_axis]
            # the same axes as integer arrays of every width (norms 1e2 .. 1e6, squared norms beyond the narrow types) and as lists
            forms += [np.array(c['u'], dtype=np.int32) * 50000, np.array(c['u'], dtype=np.int16) * 200,
                      np.array(c['u'], dtype=np.int8) * np.int8(100 // max(abs(int(x)) for x in c['u'])), np.array(c['u'], dtype=np.int64) * 10 ** 6,
                      [int(x) * 3 for x in c['u']], tuple(float(x) for x in c['u'])]
            for fi, axis in enumerate(forms):
                sc = scales_axis[fi] if fi < len(scales_axis) else 'form%d' % fi
                nrot += 1
                try:
                    R = rotation_matrix(axis, theta)
                except Exception as exc:
                    run.violation({'check': 'rotation_exception', 'exception': type(exc).__name__},
                                  {'engine': 'frames', 'case': c, 'axis_scale': sc})
                    continue
                errs = {1: np.abs(R - M).max(), -1: np.abs(R - M.T).max()}
                if conv is None and min(errs.values()) <= 1e-9 and abs(errs[1] - errs[-1]) > 1e-3:
                    conv = 1 if errs[1] < errs[-1] else -1
                err = errs[conv] if conv else min(errs.values())
                run.case(('rot', c['kind'], tuple(c['u']), c['k'], sc), nontrivial=True,
                         sample={'rotation_case': c, 'axis_scale': sc, 'expected_x_den': r['m'], 'den': r['den']}
                         if len(run.samples) < 2 else None)
                if not np.isfinite(R).all() or err > 1e-9 * 1e-3 + TOL * 10:
                    run.violation({'check': 'rotation_matrix_value', 'kind': c['kind']},
                                  {'engine': 'frames', 'spec': 'Frames', 'case': c, 'axis_scale': sc, 'theta': theta,
                                   'expected': (M if conv != -1 else M.T).tolist(), 'observed': R.tolist(),
                                   'error': float(err)})
        else:
            tr = np.array(case['tr'], float)
            F = np.array(r['frame'], float)
            for sc in scales_pts:
                off = rng.uniform(-1, 1, 3) * sc if sc != 0.125 else np.zeros(3)
                pts = [tr[i] * sc + off for i in range(3)]
                nfr += 1
                try:
                    rel = frame_relations(calcule_base, pts)
                    (v1, v2, v3), origin = calcule_base([p.copy() for p in pts])
                except Exception as exc:
                    run.violation({'check': 'frame_exception', 'exception': type(exc).__name__},
                                  {'engine': 'frames', 'triple': case['tr'], 'scale': sc})
                    continue
                run.case(('frame', tuple(map(tuple, case['tr'])), sc), nontrivial=True,
                         sample={'triple': case['tr'], 'scale_nm': sc, 'collinear': r['collinear'],
                                 'expected_unnormalised_frame': r['frame']} if len(run.samples) < 5 and r['collinear']
                         else None)
                bad = [k for k in ('finite', 'orthonormal', 'right_handed', 'first', 'origin', 'intact') if not rel[k]]
                if not r['collinear']:
                    B = np.array([v1, v2, v3])
                    Fn = F / np.linalg.norm(F, axis=1)[:, None]
                    if rel['finite'] and np.abs(B - Fn).max() > 1e-10:
                        bad.append('frame_value')
                if bad:
                    run.violation({'check': 'frame', 'failed': bad[0], 'geometry': 'collinear' if r['collinear'] else 'generic'},
                                  {'engine': 'frames', 'spec': 'Frames', 'triple': case['tr'], 'scale': sc,
                                   'offset': off.tolist(), 'relations': rel, 'failed': bad,
                                   'observed': [np.array(v).tolist() for v in (v1, v2, v3)]})
    run.traces += len(cases)
    # random floating point inputs -> traces
    nrand = 120 if run.quick else 4000
    items = [(10 ** 6 + j, run.seed * 1000003 + j) for j in range(nrand)]
    nproc = 16
    jobs = [(items[i::nproc], os.path.join(run.scratch, 'fr%d.ndjson' % i)) for i in range(nproc) if items[i::nproc]]
    with Pool(nproc) as pool:
        parts = pool.map(_work_rand, jobs)
    traces = {}
    for p in parts:
        with open(p) as fh:
            for line in fh:
                t = json.loads(line)
                traces[t['tid']] = t
    verdicts = validate_batches('Trace_Frames', TRACE_CFG, parts, run.scratch, timeout=1200, run=run)
    for tid, tr in traces.items():
        v = verdicts.get(tid)
        if v is None:
            raise tlc.TLCError('no verdict for trace %r' % tid)
        run.case(('rand', tr['meta']['seed']), nontrivial=True)
        run.traces += 1
        if v[0] == 'ACC':
            continue
        e = tr['ev'][v[2] - 1]
        run.violation({'check': 'trace:' + v[3], 'op': e['op'], 'kind': e.get('kind')},
                      {'engine': 'frames', 'spec': 'Trace_Frames', 'failing_clause': v[3], 'event': e})
    run.rule = ('cases = exact lattice rotation cases x 5 axis scales and lattice point triples x 4 scales (TLC-computed '
                'expected matrices / frames), plus random axes (norm 1e-6..1e6), angles in [-20, 20], random / '
                'collinear / coincident-middle triples (scales 1e-3..1e3 nm) as traces')
    run.extra.update({'rotation_replays': nrot, 'frame_replays': nfr, 'random_traces': nrand,
                      'convention': {1: 'R = M', -1: 'R = M^T', None: 'undetermined'}[conv], 'exhaustive': True})
    run.assumptions += ['either handedness convention of the rotation matrix is accepted, but the same one for every case',
                        'tolerances: 1e-12 on orthogonality/determinant/axis/transposition, 2e-11 on composition']


def main_c17(run):
    check(run)
