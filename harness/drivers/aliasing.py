"""Engine `aliasing` (C18): copies are isolated, views write through, rigid operations keep shape.

TLC model-checks spec/Aliasing.tla (cells designated by the slots of copies / deep copies / views;
Isolation, DeepIsolation, WriteThrough, WriteFrame) for every history of the bounds, and every
maximal history (plus long simulated ones) is replayed on real Molecule / Residue / Atom objects:
after each operation EVERY slot of EVERY live object must show the value last written to the cell
the specification says it designates.  Rigid operations additionally log measured relations.
"""
import glob
import json
import os
import random
import re
from multiprocessing import Pool

import numpy as np

from .. import common, tlc, tlaval, synth

MC_CFG = """SPECIFICATION Spec
CONSTANTS
  Shapes <- MC_Shapes
  MaxObjs = %d
  MaxOps = %d
INVARIANT Isolation
INVARIANT DeepIsolation
INVARIANT WriteThrough
PROPERTY WriteFrame
CHECK_DEADLOCK FALSE
"""
FIELDS = ('pos', 'vel', 'num', 'rid', 'nam')


def _parse_chunk(args):
    blks, maxops = args
    out = []
    for b in blks:
        st = tlaval.parse_state(b)
        if len(st['hist']) == maxops:
            out.append(_plain_beh(st))
    return out


def _plain_beh(st):
    objs = [{'kind': o['kind'], 'shape': list(o['shape']), 'cells': [dict(c) for c in o['cells']],
             'parent': o['parent'], 'fam': o['fam']} for o in st['objs']]
    hist = [dict(h) for h in st['hist']]
    return {'objs': objs, 'hist': hist}


def behaviours_from_dump(path, maxops):
    with open(path) as fh:
        text = fh.read()
    blks = [b.strip() for b in re.split(r'^State \d+:\s*$', text, flags=re.M)[1:]]
    with Pool(16) as pool:
        parts = pool.map(_parse_chunk, [(blks[i::16], maxops) for i in range(16)])
    return [c for p in parts for c in p]


# --------------------------------------------------------------------------- concrete values
def val_of(field, tok):
    if field == 'pos':
        return np.array([tok, tok + 0.25, -tok - 0.5]) * 0.01
    if field == 'vel':
        return np.array([-tok, 0.5 * tok, tok + 0.125]) * 0.001
    if field == 'num':
        return 1000 + tok
    if field == 'rid':
        return 2000 + tok
    return 'N%d' % tok


def same(field, a, b):
    if field in ('pos', 'vel'):
        if a is None or b is None:
            return a is None and b is None
        return bool(np.array_equal(np.asarray(a, float), np.asarray(b, float)))
    return a == b


def root_molecule(workdir, shape, same_name=False):
    n = sum(shape)
    names = ['C%d' % (i + 1) for i in range(n)]
    residues = []
    for k, sz in enumerate(shape):
        # same_name: a repeated monomer - consecutive residues with one residue name, told apart by their number only
        residues += [('MON' if same_name else 'R%d' % (k + 1), k + 1)] * sz
    bonds = [(i, i + 1) for i in range(1, n)]
    os.makedirs(workdir, exist_ok=True)
    itp = os.path.join(workdir, 'root%d%s.itp' % (len(shape), 's' if same_name else ''))
    gro = os.path.join(workdir, 'root%d%s.gro' % (len(shape), 's' if same_name else ''))
    if not os.path.exists(itp):
        synth.write_itp(itp, 'ROOT', [(an, r[0], r[1]) for an, r in zip(names, residues)], bonds)
        synth.write_gro(gro, [(r[1], r[0], an, i + 1, (0.1 * i, 0.2, 0.3), (0.01 * i, 0.0, -0.02))
                              for i, (an, r) in enumerate(zip(names, residues))])
    from gaddlemaps.components import System
    syst = System(gro, itp)
    return syst, syst[0]


def atoms_of(obj, kind):
    """list of live per-atom handles of a real object"""
    if kind == 'atom':
        return [obj]
    if kind == 'mol':
        return [a for res in obj.residues for a in res]      # AtomGro objects (live)
    return list(obj)


def read_slot(handle, field):
    """handle: Atom (view/copy) or AtomGro"""
    if field == 'pos':
        return handle.position
    if field == 'vel':
        return handle.velocity
    if field == 'num':
        return handle.atomid
    if field == 'rid':
        return handle.gro_resid if hasattr(type(handle), 'gro_resid') else handle.resid
    return handle.name


def replay(beh, workdir, seed, stats):
    """-> None or (signature, record)"""
    from gaddlemaps.components import Molecule
    from gaddlemaps import Alignment
    rng = np.random.default_rng(seed)
    shape = beh['objs'][0]['shape']
    syst, root = root_molecule(workdir, shape, same_name=(len(shape) > 1 and seed % 2 == 1))
    sobjs = beh['objs']
    if any(h['op'] == 'write' and h['f'] == 'nam' and sobjs[h['o'] - 1]['fam'] == 1 for h in beh['hist']):
        # the molecule a System hands out shares its topology with the System (a plain copy): names are
        # assigned in the root family only when the root is first made independent
        root = root.deep_copy()
    real = [root]
    expected = {}
    # initial values: read from the root itself
    hs = atoms_of(root, 'mol')
    pristine = [[read_slot(h, f) if f not in ('pos', 'vel') else np.array(read_slot(h, f), float) for f in FIELDS]
                for h in hs]
    for a, h in enumerate(hs):
        for f in FIELDS:
            v = read_slot(h, f)
            expected[sobjs[0]['cells'][a][f]] = np.array(v, float) if f in ('pos', 'vel') else v
    if seed % 3 == 2:
        # a molecule without velocities (a coordinate file without the optional columns): a velocity assigned later,
        # through the molecule or through a view of one atom, is the atom's velocity from then on
        root.atoms_velocities = None
        for a in range(len(hs)):
            expected[sobjs[0]['cells'][a]['vel']] = None
    tok = 100

    def fail(kind, step, **kw):
        sig = {'check': kind, 'op': beh['hist'][step]['op'] if step >= 0 else 'final', 'field': kw.get('field')}
        rec = {'engine': 'aliasing', 'spec': 'Aliasing', 'shape': shape, 'history': beh['hist'], 'failed_at_step': step}
        rec.update(kw)
        return sig, rec

    unread = set()       # objects created but not looked at yet (a copy is a copy from the moment it is made, read or not)

    def check_all(step):
        for oi, ro in enumerate(real):
            if oi in unread:
                continue
            so = sobjs[oi]
            hs2 = atoms_of(ro, so['kind'])
            if len(hs2) != len(so['cells']):
                return fail('object_size', step, obj=oi)
            if so['kind'] in ('mol', 'res'):
                # the geometric centre is an observable too: the mean of the current positions
                exp_c = np.mean([expected[c['pos']] for c in so['cells']], axis=0)
                obs_c = np.asarray(ro.geometric_center, float)
                if not (np.abs(obs_c - exp_c).max() <= 1e-12 * max(1.0, np.abs(exp_c).max())):
                    return fail('geometric_centre', step, field='pos', obj=oi, expected=exp_c, observed=obs_c)
            for a, h in enumerate(hs2):
                for f in FIELDS:
                    if f == 'nam' and step >= 0 and False:
                        continue
                    obs = read_slot(h, f)
                    exp = expected[so['cells'][a][f]]
                    stats['slots'] += 1
                    if not same(f, obs, exp):
                        written = beh['hist'][step]['o'] - 1 if step >= 0 else None
                        rel = 'same_object' if written == oi else (
                            'view_or_parent' if written is not None and _root(sobjs, written) == _root(sobjs, oi)
                            else 'unrelated_copy')
                        return fail('slot_value', step, field=f, obj=oi, atom=a, relation_to_written=rel,
                                    expected=exp, observed=obs)
        return None

    for step, h in enumerate(beh['hist']):
        op = h['op']
        i = h['o'] - 1
        so = sobjs[i]
        ro = real[i]
        try:
            if op in ('copy', 'deepcopy'):
                # molecules: also the form with explicit residues (here: the molecule's own), which must be copied as well
                explicit = so['kind'] == 'mol' and (seed + step) % 4 == 1
                if op == 'deepcopy':
                    new = ro.deep_copy(ro.residues) if explicit else ro.deep_copy()
                elif so['kind'] == 'mol' and (seed + step) % 3 == 0:
                    # the copy an Alignment stores: given at construction, or assigned (again) to a slot that is already
                    # filled, in either slot
                    form = (seed + step) % 4
                    if form == 0:
                        new = Alignment(start=ro).start
                    elif form == 1:
                        ali_ = Alignment(start=ro, end=ro)
                        ali_.start = ro
                        new = ali_.start
                    elif form == 2:
                        ali_ = Alignment(start=ro, end=ro)
                        ali_.end = ro
                        new = ali_.end
                    else:
                        new = Alignment(end=ro).end
                else:
                    new = ro.copy(ro.residues) if explicit else ro.copy()
                real.append(new)
                sn = sobjs[h['new'] - 1]
                for a in range(len(sn['cells'])):
                    for f in FIELDS:
                        expected[sn['cells'][a][f]] = expected[so['cells'][a][f]]
            elif op == 'viewatom':
                a = h['a'] - 1
                if so['kind'] == 'mol':
                    new = ro[a] if (seed + step) % 2 == 0 else list(ro)[a]     # indexing / iterating
                else:
                    new = ro[a] if (seed + step) % 2 == 0 else list(ro)[a]
                real.append(new)
            elif op == 'viewres':
                real.append(ro.residues[h['a'] - 1])
            elif op == 'write':
                f = h['f']
                n = len(so['cells'])
                toks = list(range(tok, tok + n))
                tok += n
                if f == 'rid':
                    # residue numbers are per residue: atoms of one residue get the value of its first atom
                    starts = []
                    acc = 0
                    for sz in so['shape']:
                        starts += [acc] * sz
                        acc += sz
                    toks = [toks[starts[a]] for a in range(n)]
                    if (seed + step) % 3 == 0:
                        toks = [toks[0]] * n          # one number for every residue (the single-integer form, a repeated list)
                vals = [val_of(f, t) for t in toks]
                if f == 'pos' and (seed + step) % 4 == 0:
                    # coordinates handed over as an integer array (lattice positions): they are coordinates like any other,
                    # later rigid operations must treat them as real numbers
                    vals = [np.array([t, t + 1, -t - 2], dtype=np.int64) for t in toks]
                if so['kind'] == 'atom':
                    if f == 'pos':
                        ro.position = vals[0]
                    elif f == 'vel':
                        ro.velocity = vals[0]
                    elif f == 'num':
                        ro.atomid = vals[0]
                    elif f == 'nam':
                        ro.name = vals[0]
                else:
                    if f == 'pos':
                        ro.atoms_positions = np.array(vals)
                    elif f == 'vel':
                        ro.atoms_velocities = np.array(vals)
                    elif f == 'num':
                        ro.atoms_ids = list(vals)
                    elif f == 'rid':
                        if so['kind'] == 'mol':
                            per_res = []
                            acc = 0
                            for sz in so['shape']:
                                per_res.append(vals[acc])
                                acc += sz
                            ro.resids = per_res if ((len(per_res) > 1 and len(set(per_res)) > 1) or (seed + step) % 2) else per_res[0]
                        else:
                            ro.resid = vals[0]
                    else:
                        for hnd, v in zip((list(ro) if so['kind'] == 'mol' else list(ro)), vals):
                            hnd.name = v                       # assignment through the live views
                for a in range(n):
                    expected[so['cells'][a][f]] = vals[a]
            else:
                before = np.array(ro.atoms_positions, float)
                c0 = before.mean(axis=0)
                # the vector handed over may be an array the object itself owns (the live position of one of its atoms):
                # the operation must use its value at call time
                own = None
                if rng.random() < 0.35:
                    try:
                        own = (ro if so['kind'] == 'atom' else ro[int(rng.integers(0, len(before)))]).position
                    except Exception:
                        own = None
                if op == 'move':
                    d = rng.uniform(-2, 2, 3) if own is None else np.array(own, float).copy()
                    ro.move(d if own is None else own)
                elif op == 'move_to':
                    p = rng.uniform(-5, 5, 3) if own is None else np.array(own, float).copy()
                    if own is None and rng.random() < 0.4:
                        p = c0 + rng.normal(size=3) * 10.0 ** (-float(rng.integers(3, 11)))      # a small re-centring
                    ro.move_to(p if own is None else own)
                else:
                    from gaddlemaps import rotation_matrix
                    R = rotation_matrix(rng.normal(size=3), rng.uniform(-3, 3))
                    ro.rotate(R)
                after = np.array(ro.atoms_positions, float)
                c1 = after.mean(axis=0)
                dist_ok = np.abs(_pd(before) - _pd(after)).max() <= 1e-9 if len(before) > 1 else True
                if op == 'move':
                    centre_ok = np.abs((c1 - c0) - d).max() <= 1e-9 and np.abs(after - before - d).max() <= 1e-9
                elif op == 'move_to':
                    centre_ok = np.abs(c1 - p).max() <= 1e-12 * max(1.0, float(np.abs(p).max()))
                else:
                    centre_ok = np.abs(c1 - c0).max() <= 1e-9
                stats['rigid'] += 1
                if not (dist_ok and centre_ok and np.isfinite(after).all()):
                    return fail('rigid_operation', step, field='pos', distances_preserved=bool(dist_ok),
                                centre_ok=bool(centre_ok), before=before, after=after)
                for a in range(len(so['cells'])):
                    expected[so['cells'][a]['pos']] = after[a].copy()
        except Exception as exc:
            import traceback
            return fail('exception', step, exception=type(exc).__name__, traceback=traceback.format_exc()[-800:])
        # every second copy is first looked at only after the NEXT operation
        unread.clear()
        if op in ('copy', 'deepcopy') and (seed + step) % 2 and step + 1 < len(beh['hist']):
            unread.add(len(real) - 1)
        bad = check_all(step)
        if bad:
            return bad
    unread.clear()
    bad = check_all(len(beh['hist']) - 1)
    if bad:
        return bad
    # the system still hands out the molecule as it is in the file
    try:
        fresh = syst[-1] if seed % 2 else syst[0]
        if len(list(syst)) != 1 or len(syst[0:1]) != 1:
            return fail('system_handout_changed', -1, field='count', atom=-1)
    except Exception as exc:
        return fail('system_handout_failed', -1, exception=type(exc).__name__)
    for a, h in enumerate(atoms_of(fresh, 'mol')):
        for k, f in enumerate(FIELDS):
            if not same(f, read_slot(h, f), pristine[a][k]):
                return fail('system_handout_changed', -1, field=f, atom=a)
    return None


def _root(sobjs, i):
    while sobjs[i]['parent'] != 0:
        i = sobjs[i]['parent'] - 1
    return i


def _pd(x):
    return np.linalg.norm(x[:, None, :] - x[None, :, :], axis=2)


def _work(args):
    behs, workroot, seed = args
    common.import_repo()
    workdir = os.path.join(workroot, 'w%d' % os.getpid())
    stats = {'slots': 0, 'rigid': 0}
    out = []
    for k, b in enumerate(behs):
        out.append(replay(b, workdir, seed + k, stats))
    return out, stats


def check(run):
    common.import_repo()
    maxops = 3 if run.quick else 4
    res = tlc.run('MC_Aliasing', MC_CFG % (4, maxops), run.scratch, workers=16, timeout=2400, dump=True)
    tlc.check_ok(res, 'MC_Aliasing')
    if sum(1 for k, v in res.coverage.items() if k.startswith('Next@') and v[1] > 0) < 5:
        raise tlc.TLCError('some action of Aliasing was never taken: %r' % res.coverage)
    run.add_tlc(res, 'Aliasing exhaustive (MaxObjs=4, MaxOps=%d): Isolation, DeepIsolation, WriteThrough, WriteFrame' % maxops)
    behs = behaviours_from_dump(res.dump_path, maxops)
    os.remove(res.dump_path)
    if len(behs) < 1000:
        raise tlc.TLCError('only %d behaviours from the dump' % len(behs))
    # long histories by simulation
    simdir = os.path.join(run.scratch, 'sim')
    os.makedirs(simdir, exist_ok=True)
    nsim = 60 if run.quick else 1500
    depth = 40
    sim = tlc.run('MC_Aliasing', (MC_CFG % (6, depth)).replace('PROPERTY WriteFrame\n', ''), run.scratch, workers=1,
                  timeout=1200, coverage=False, simulate='file=%s/b,num=%d' % (simdir, nsim), depth=depth + 1,
                  seed=run.seed + 1)
    if sim.violated:
        raise tlc.TLCError('simulation found a spec violation: %s' % sim.violated)
    long_behs = []
    for f in sorted(glob.glob(os.path.join(simdir, 'b*'))):
        try:
            steps = tlaval.parse_sim_file(f)
        except Exception:
            continue
        if steps:
            long_behs.append(_plain_beh(steps[-1][1]))
    if len(long_behs) < nsim // 2:
        raise tlc.TLCError('simulation produced only %d behaviours' % len(long_behs))
    run.extra['simulated_histories'] = len(long_behs)
    run.extra['max_history_length'] = max(len(b['hist']) for b in long_behs)
    allb = behs + long_behs
    nproc = 16
    workroot = os.path.join(run.scratch, 'work')
    jobs = [(allb[i::nproc], workroot, run.seed * 7919 + 1000 * i) for i in range(nproc) if allb[i::nproc]]
    with Pool(nproc) as pool:
        results = pool.map(_work, jobs)
    slots = rigid = 0
    for chunk, (rs, st) in zip([allb[i::nproc] for i in range(nproc) if allb[i::nproc]], results):
        slots += st['slots']
        rigid += st['rigid']
        for b, r in zip(chunk, rs):
            key = json.dumps([(h['op'], h['o'], h['a'], h['f']) for h in b['hist']]) + str(b['objs'][0]['shape'])
            run.case(key, nontrivial=True,
                     sample={'shape': b['objs'][0]['shape'], 'history': [(h['op'], h['o'], h['a'], h['f']) for h in b['hist']][:8]}
                     if len(run.samples) < 5 else None)
            run.traces += 1
            if r is not None:
                run.violation(r[0], r[1])
    run.rule = ('cases = operation histories over {copy, deep_copy, copy stored by an Alignment, atom view by index / '
                'iteration, residue view, assignment of positions / velocities / ids / resids / names, move, move_to, '
                'rotate} on single- and two-residue molecules: every maximal history of the exhaustive bounds + '
                'simulated histories of length 40; after every operation every slot of every live object is compared')
    run.extra.update({'exhaustive_histories': len(behs), 'slot_comparisons': slots, 'rigid_operations': rigid,
                      'exhaustive': True})
    run.assumptions += ['names are only assigned inside families of deep copies (plain copies share the topology and the '
                        'property does not say what names do there)',
                        'residue numbers are assigned per residue']


def main_c18(run):
    check(run)
