"""Engine `groview` (C12): the residue view of a .gro file (SystemGro) with random access.

TLC model-checks spec/GroView.tla (parse = maximal runs; every access returns the designated run
whatever the history; two live iterators) exhaustively for all small files.  On the
implementation: every file of the same small bounds with a systematic access battery, and
random large files with random access histories, are recorded (which file positions each access
actually returned) and validated by TLC against Trace_GroView.tla.
"""
import itertools
import json
import os
import random
from multiprocessing import Pool

from .. import common, tlc, synth
from ..traces import validate_batches

NONE = 1000000

MC_CFG = """SPECIFICATION Spec
CONSTANTS
  Tier = "%s"
  Files <- MC_Files
  NIter = 2
  GetArgs <- MC_GetArgs
  SliceArgs <- MC_SliceArgs
  MaxOps <- MC_MaxOps
INVARIANT ParseIsRuns
INVARIANT Tiling
INVARIANT AccessIsAbs
INVARIANT IterIsAbs
INVARIANT CursorInFile
CHECK_DEADLOCK FALSE
"""
TRACE_CFG = """SPECIFICATION TraceSpec
CONSTANTS
  Files = {}
  NIter = 3
  GetArgs = {}
  SliceArgs = {}
  MaxOps = 0
INVARIANT Accepted
CHECK_DEADLOCK FALSE
"""


def build_file(path, residues, vel, title, box, crlf=False, far=False):
    """residues: list of (resid, resname, [atom names]); every atom gets a unique number/coordinates.
    -> atom level records (the independent truth)."""
    recs = []
    pos = 0
    for rid, rn, names in residues:
        for an in names:
            p = (round(0.001 * pos + 0.5, 3), round(0.002 * (pos % 977) - 0.7, 3), round(-0.003 * (pos % 331), 3))
            v = (round(0.0001 * pos, 4), round(-0.0002 * (pos % 50), 4), 0.5) if vel else None
            if far:
                # values that fill their fixed-width column and touch the previous field (legal: the columns are by position)
                p = (round(p[0] + 1000.0, 3), round(p[1] - 150.0, 3), round(p[2] - 200.0, 3))
                v = (round(v[0] - 12.0, 4), round(v[1] - 11.0, 4), -10.5) if vel else None
            if vel and pos % 7 == 3:
                v = (0.0, 0.0, 0.0)          # an atom at rest still has a velocity record
            recs.append((rid, rn, an, pos + 1, p) + ((v,) if vel else ()))
            pos += 1
    synth.write_gro(path, recs, box=box, title=title, newline='\r\n' if crlf else None)
    return recs


def _runs_of(residues_obj, recs):
    """Residue objects returned by the implementation -> runs + data_ok"""
    runs = []
    ok = True
    for res in residues_obj:
        atoms = list(res)
        ids = [a.atomid for a in atoms]
        first = ids[0] - 1
        if ids != list(range(first + 1, first + 1 + len(ids))):
            ok = False
        runs.append({'first': int(first), 'n': len(atoms)})
        for a in atoms:
            i = a.atomid - 1
            if not (0 <= i < len(recs)):
                ok = False
                continue
            r = recs[i]
            if (a.resid, a.resname, a.name) != (r[0], r[1], r[2]) or tuple(a.position) != tuple(r[4]):
                ok = False
            if len(r) > 5:
                if a.velocity is None or tuple(a.velocity) != tuple(r[5]):
                    ok = False
            elif a.velocity is not None:
                ok = False
    return runs, ok


def _scribble(residues):
    """what an access hands out belongs to the caller: changing it must not change what later accesses return"""
    import numpy as np
    for r in residues:
        try:
            r.move(np.array([100.0, -50.0, 25.0]))
            r[0].name = 'ZZ'
            r[0].atomid = 0
        except Exception:
            pass


def record(path, recs, ops, title, box):
    """Run the access history `ops` on a real SystemGro -> events"""
    from gaddlemaps.components import SystemGro
    import numpy as np
    if len(recs) % 3 == 1:
        # loaded through a relative name; the caller then changes directory (the view holds its file, not a name)
        here = os.getcwd()
        try:
            os.chdir(os.path.dirname(path))
            s = SystemGro(os.path.basename(path))
        finally:
            os.chdir(here)
    else:
        s = SystemGro(path)
    ev = []
    boxm = np.array(box) if len(box) == 9 else np.diag(box)
    if len(box) == 9:
        m = np.zeros(9)
        for i, x in zip((0, 4, 8, 1, 2, 3, 5, 6, 7), box):
            m[i] = x
        boxm = m.reshape(3, 3)
    ev.append({'op': 'open', 'nres': len(s), 'natoms': int(s.n_atoms),
               'title_ok': s.comment_line.rstrip('\n') == title,
               'box_ok': bool(np.abs(s.box_matrix - boxm).max() < 5e-6)})
    iters = {}
    for op in ops:
        kind = op[0]
        if kind == 'iter':
            iters[op[1]] = iter(s)
            ev.append({'op': 'iter', 'it': op[1]})
        elif kind == 'next':
            if op[1] not in iters:
                continue
            try:
                r = next(iters[op[1]])
                runs, ok = _runs_of([r], recs)
                _scribble([r])
                ev.append({'op': 'next', 'it': op[1], 'st': 'ok', 'runs': runs, 'data_ok': ok})
            except StopIteration:
                ev.append({'op': 'next', 'it': op[1], 'st': 'StopIteration', 'runs': [], 'data_ok': True})
        elif kind == 'get':
            try:
                r = s[op[1]]
                runs, ok = _runs_of([r], recs)
                _scribble([r])
                ev.append({'op': 'get', 'k': op[1], 'st': 'ok', 'runs': runs, 'data_ok': ok})
            except IndexError:
                ev.append({'op': 'get', 'k': op[1], 'st': 'IndexError', 'runs': [], 'data_ok': True})
        elif kind == 'slice':
            a, b, c = op[1:]
            rs = s[slice(None if a == NONE else a, None if b == NONE else b, None if c == NONE else c)]
            runs, ok = _runs_of(rs, recs)
            _scribble(rs)
            ev.append({'op': 'slice', 'a': a, 'b': b, 'c': c, 'st': 'list', 'runs': runs, 'data_ok': ok})
        elif kind == 'len':
            ev.append({'op': 'len', 'n': len(s)})
        elif kind == 'iterall':
            nall = sum(1 for e_ in ev if e_['op'] == 'iterall')
            if nall % 2 == 0:
                runs, ok = _runs_of(list(s), recs)
            else:
                # a complete iteration over a view that nobody else holds (`for r in SystemGro(path)`, an iterator
                # returned by a helper whose local view went out of scope)
                def helper():
                    return iter(SystemGro(path))
                try:
                    got = [r for r in SystemGro(path)] if nall % 4 == 1 else list(helper())
                    runs, ok = _runs_of(got, recs)
                except Exception:
                    runs, ok = [], False
            ev.append({'op': 'iterall', 'runs': runs, 'data_ok': ok})
    return ev


def battery(nres):
    """systematic accesses for a small file"""
    ops = [('len',), ('iterall',)]
    ops += [('get', k) for k in range(-nres - 2, nres + 2)]
    for a, b, c in [(NONE, NONE, NONE), (1, NONE, NONE), (NONE, -1, NONE), (NONE, NONE, -1), (-3, 7, 2), (3, 0, -2),
                    (0, 2, NONE), (-2, NONE, NONE), (NONE, NONE, 2), (2, NONE, -1), (NONE, 1, -1), (NONE, NONE, -2), (NONE, NONE, -3),
                    (-2, NONE, -2), (NONE, 0, -2)]:
        ops.append(('slice', a, b, c))
    # two iterators interleaved with random access
    ops += [('iter', 1), ('next', 1), ('iter', 2), ('next', 2), ('get', 0), ('next', 1), ('get', -1), ('next', 2),
            ('slice', NONE, NONE, -1), ('next', 1), ('next', 2), ('next', 1), ('next', 2), ('next', 1), ('next', 2),
            ('iter', 1), ('next', 1), ('iterall',), ('next', 1)]
    return ops


KINDS = [('SOL', ['OW', 'HW1', 'HW2']), ('SOL', ['OW']), ('NA', ['NA']), ('LIG', ['C1', 'C2', 'N1', 'O1', 'H1']),
         ('LIG', ['C1', 'C2']), ('1AB', ['X1']), ('AB', ['X1']), ('12AB', ['Y1', 'Y2']), ('2AB', ['Y1', 'Y2']),
         ('POPC', ['C%d' % i for i in range(12)]), ('B', ['Q']), ('AAAAA', ['ABCDE', 'FGHIJ']),
         # kinds with the same residue name and size but other atom names / another atom order (isomers, another force field)
         ('SOL', ['HW1', 'OW', 'HW2']), ('SOL', ['O', 'H1', 'H2']), ('LIG', ['C2', 'C1']), ('NA', ['Na'])]


def small_files():
    """every file of <= 4 atoms over the pairs of the TLC quick bounds (atom level)"""
    pairs = [(1, 'X'), (2, 'X'), (1, 'Y')]
    for n in range(1, 5):
        for combo in itertools.product(pairs, repeat=n):
            yield [(rid, rn, ['A']) for rid, rn in combo]     # one atom per "residue piece"; equal
            # neighbours merge into one residue in the file, which is what the Abs view says


def random_file(rng, max_res):
    nres = rng.choice([1, 2, 3, rng.randint(1, max_res)])
    pool = rng.sample(KINDS, rng.randint(1, 5))
    if rng.random() < 0.3:
        # make sure two kinds of the same name and size alternate in the file
        twin = rng.choice([[KINDS[0], KINDS[-4], KINDS[-3]], [KINDS[4], KINDS[-2]], [KINDS[2], KINDS[-1]]])
        pool = list(twin) + pool[:1]
    mode = rng.choice(['inc', 'blocks', 'restart', 'collide'])
    residues = []
    rid = rng.choice([1, 1, 7, 99990])
    prev = None
    for i in range(nres):
        if mode == 'collide' and rng.random() < 0.5:
            # adjacent residues whose str(resid)+resname coincide
            cand = rng.choice([[(1, '12AB', ['Y1', 'Y2']), (11, '2AB', ['Y1', 'Y2'])],
                               [(1, '1AB', ['X1']), (11, 'AB', ['X1'])],
                               [(11, 'AB', ['X1']), (1, '1AB', ['X1'])]])
            for c in cand:
                if prev is None or (c[0], c[1]) != prev:
                    residues.append(c)
                    prev = (c[0], c[1])
            continue
        kd = rng.choice(pool) if mode != 'blocks' else pool[(i * len(pool)) // nres]
        if mode == 'restart' and rng.random() < 0.1:
            rid = 1
        else:
            rid += 1
        if prev == (rid % 100000, kd[0]):
            rid += 1
        residues.append((rid % 100000, kd[0], list(kd[1])))
        prev = (rid % 100000, kd[0])
    return residues


def random_ops(rng, nres, length):
    ops = []
    for _ in range(length):
        x = rng.random()
        if x < 0.3:
            ops.append(('get', rng.randint(-nres - 2, nres + 1)))
        elif x < 0.45:
            def bound():
                return rng.choice([NONE, rng.randint(-nres - 2, nres + 2)])
            c = rng.choice([NONE, 1, 2, 3, -1, -2, 7])
            ops.append(('slice', bound(), bound(), c))
        elif x < 0.55:
            ops.append(('iter', rng.randint(1, 3)))
        elif x < 0.93:
            ops.append(('next', rng.randint(1, 3)))
        elif x < 0.97:
            ops.append(('len',))
        else:
            ops.append(('iterall',))
    return ops


def _work(args):
    items, part, workroot = args
    common.import_repo()
    workdir = os.path.join(workroot, 'w%d' % os.getpid())
    os.makedirs(workdir, exist_ok=True)
    path = os.path.join(workdir, 'v.gro')
    with open(part, 'w') as fh:
        for tid, kind, payload in items:
            rng = random.Random(payload if kind == 'rand' else tid)
            if kind == 'small':
                residues = payload
                vel = tid % 2 == 0
                nres_guess = len(residues)
                ops = battery(nres_guess)
                title, box = 'small file %d' % tid, (3.0, 4.0, 5.0)
            else:
                max_res, oplen = 60 if payload % 2 else 400, 200
                if tid >= 2 * 10 ** 6:
                    max_res, oplen = 40, 40
                residues = random_file(rng, max_res)
                vel = rng.random() < 0.5
                title = rng.choice(['Random system', 'x', 'Title with, punctuation t= 1.0', '  padded title \t', 'trailing blanks   '])
                box = rng.choice([(3.0, 4.0, 5.0), (7.5, 7.5, 7.5, 0.0, 0.0, 1.25, 0.0, -2.5, 0.5)])
                ops = random_ops(rng, len(residues), rng.randint(1, oplen))
            recs = build_file(path, residues, vel, title, box, crlf=(tid % 5 == 4), far=(tid % 4 == 1))      # every fifth file has DOS line ends
            try:
                ev = common.guarded(record, 180, path, recs, ops, title, box)
            except Exception as exc:
                import traceback
                ev = [{'op': 'exception', 'type': type(exc).__name__, 'text': traceback.format_exc()[-800:]}]
            tr = {'tid': tid, 'cfg': {'file': [[r[0], r[1]] for r in recs]}, 'meta': {'kind': kind, 'vel': vel,
                  'residues': [(r[0], r[1], len(r[2])) for r in residues][:40], 'nres_pieces': len(residues)},
                  'ev': ev}
            fh.write(json.dumps(tr) + '\n')
    return part


def check(run):
    common.import_repo()
    res = tlc.run('MC_GroView', MC_CFG % run.tier, run.scratch, workers=16, timeout=9000)
    tlc.check_ok(res, 'MC_GroView', need_actions=['IterNew', 'IterNext', 'Get', 'Slice'])
    run.add_tlc(res, 'GroView exhaustive (%s bounds): ParseIsRuns, Tiling, AccessIsAbs, IterIsAbs, CursorInFile' % run.tier)
    items = []
    tid = 0
    for residues in small_files():
        tid += 1
        items.append((tid, 'small', residues))
    nrand = 400 if run.quick else 3000
    base = 2 * 10 ** 6 if run.quick else 10 ** 6
    for j in range(nrand):
        items.append((base + j, 'rand', run.seed * 1000003 + j))
    nproc = 16
    workroot = os.path.join(run.scratch, 'work')
    jobs = [(items[i::nproc], os.path.join(run.scratch, 'gv%d.ndjson' % i), workroot) for i in range(nproc)
            if items[i::nproc]]
    with Pool(nproc) as pool:
        parts = pool.map(_work, jobs)
    traces = {}
    for p in parts:
        with open(p) as fh:
            for line in fh:
                t = json.loads(line)
                traces[t['tid']] = t
    verdicts = validate_batches('Trace_GroView', TRACE_CFG, parts, run.scratch, timeout=3000, run=run, heap='4g')
    nev = 0
    for tid, tr in traces.items():
        v = verdicts.get(tid)
        if tr['ev'] and tr['ev'][0]['op'] == 'exception':
            v = ('FAIL', tid, 1, 'exception:' + tr['ev'][0]['type'])
        if v is None:
            raise tlc.TLCError('no verdict for trace %r' % tid)
        nev += len(tr['ev'])
        run.case(('file', json.dumps(tr['cfg']['file'])[:2000], tuple(e['op'] for e in tr['ev'])), nontrivial=True,
                 sample={'kind': tr['meta']['kind'], 'residues': tr['meta']['residues'][:6],
                         'ops': [e['op'] for e in tr['ev']][:10]} if len(run.samples) < 5 else None)
        run.traces += 1
        for nt in verdicts.notes.get(tid, []):
            run.note('Alg-layer difference (not a violation): %s' % nt[3])
        if v[0] == 'ACC':
            continue
        clause = v[3]
        if clause.startswith('alg_'):
            run.note('Alg-layer clause %s failed' % clause)
            continue
        e = tr['ev'][v[2] - 1] if 0 < v[2] <= len(tr['ev']) else {}
        keys = [(r[0], r[1]) for r in tr['meta']['residues']]
        collide = any(str(a[0]) + a[1] == str(b[0]) + b[1] and a != b for a, b in zip(keys, keys[1:]))
        sig = {'clause': clause, 'op': e.get('op'), 'residname_collision': collide}
        run.violation(sig, {'engine': 'groview', 'spec': 'Trace_GroView', 'failing_clause': clause,
                            'event_index': v[2], 'event': e, 'trace': tr if len(json.dumps(tr)) < 200000 else
                            {'tid': tid, 'meta': tr['meta'], 'ev': tr['ev'][:v[2]]}})
    run.rule = ('cases = (file, access history) executed on the real SystemGro and validated by TLC: all files of '
                '<= 4 atoms over 3 residue keys with a systematic battery (every index, 11 slices, two interleaved '
                'iterators) + %d random files (up to %d residues of 1..12 atoms, with/without velocities, repeated / '
                'alternating / colliding residue keys) with random histories up to 200 accesses' % (nrand, 400))
    run.extra.update({'small_files': tid, 'random_files': nrand, 'access_events': nev})
    run.assumptions += ['atoms of generated files are unique (number = position, coordinates encode position), so '
                        'the positions an access returned are decided from the returned data',
                        'files are written by the independent writer of harness/synth.py']


def main_c12(run):
    check(run)
