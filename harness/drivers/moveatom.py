"""Engine `moveatom` (C07): move_mol_atom and find_atom_random_displ.

TLC model-checks spec/MoveAtom.tla exhaustively: all labelled trees up to 6 (thorough 7) atoms and
all connected cyclic graphs up to 4 (5) atoms x every moved atom x EVERY processing order (Abs),
and the implementation's LIFO order (Alg).  Every enumerated (graph, root) - and random trees /
cyclic graphs up to 60 atoms with permuted bond tables - is executed on the real move_mol_atom
with a recording bond table; the recorded order and the measured set of exact bonds are validated
by TLC against the Abs layer (Trace_MoveAtom.tla).
"""
import json
import os
import random
import re
from multiprocessing import Pool

import numpy as np

from .. import common, tlc, tlaval
from ..traces import validate_batches

MC_CFG = """SPECIFICATION Spec
CONSTANTS
  Cases <- MC_Cases
  Mode = "%s"
  MaxTree = %d
  MaxCyc = %d
INVARIANT MovedOnce
INVARIANT TreeExact
INVARIANT TraversalExact
PROPERTY NeverTwice
CHECK_DEADLOCK FALSE
"""
TRACE_CFG = """SPECIFICATION TraceSpec
CONSTANTS
  Cases = {}
  Mode = "abs"
INVARIANT Accepted
CHECK_DEADLOCK FALSE
"""


class RecordingTable(dict):
    def __init__(self, *a, **k):
        super().__init__(*a, **k)
        self.lookups = []

    def __getitem__(self, key):
        self.lookups.append(int(key))
        return dict.__getitem__(self, key)


def _parse_chunk(blks):
    out = []
    for b in blks:
        st = tlaval.parse_state(b)
        if st.get('pc') == 'done':
            cs = st['cs']
            out.append({'n': cs['n'], 'adj': [list(x) for x in cs['adj']], 'root': cs['root'],
                        'order': [list(x) for x in st['order']]})
    return out


def cases_from_dump(path):
    with open(path) as fh:
        text = fh.read()
    blks = [b.strip() for b in re.split(r'^State \d+:\s*$', text, flags=re.M)[1:] if '"done"' in b]
    with Pool(16) as pool:
        parts = pool.map(_parse_chunk, [blks[i::16] for i in range(16)])
    return [c for p in parts for c in p]


_TIMEOUTS = 0


def run_case(n, adj, root, rng, agree, draws, sigma_scale):
    """adj: 1-based neighbour lists in table order -> events"""
    from gaddlemaps import move_mol_atom, find_atom_random_displ
    while True:
        unit = rng.choice([0.3, 1.0, 3.0, 1e-5, 1e3])          # any length unit: nothing in the rule is an absolute length
        pos = rng.normal(size=(n, 3)) * unit
        if n == 1 or min(np.linalg.norm(pos[i] - pos[j]) for i in range(n) for j in range(i)) > 1e-2 * unit:
            break
    lengths = {}
    for a in range(n):
        for b in adj[a]:
            key = (min(a, b - 1), max(a, b - 1))
            if key not in lengths:
                lengths[key] = float(np.linalg.norm(pos[a] - pos[b - 1])) if agree else float(rng.uniform(0.05, 0.5)) * unit
    table = RecordingTable({a: [(b - 1, lengths[(min(a, b - 1), max(a, b - 1))]) for b in adj[a]]
                            for a in range(n) if adj[a] or True})
    ev = []
    # a null displacement is a legitimate displacement: the bonds must still be restored to the table
    displ = rng.normal(size=3) * rng.choice([0.0, 1e-6, 0.05, 0.5], p=[0.1, 0.2, 0.4, 0.3]) * unit
    keep = pos.copy()
    global _TIMEOUTS
    if _TIMEOUTS >= 2:
        raise common.CaseTimeout('traversal did not terminate in earlier cases of this worker; remaining cases not run')
    try:
        with common.time_limit(10):          # the traversal must terminate (it visits every atom once)
            out = move_mol_atom(pos, table, atom_index=root - 1, displ=displ.copy(), sigma_scale=sigma_scale)
    except common.CaseTimeout:
        _TIMEOUTS += 1
        raise
    look = list(table.lookups)
    ev.append({'op': 'Displace', 'exact_vector': bool(np.array_equal(out[root - 1], keep[root - 1] + displ)),
               'input_intact': bool(np.array_equal(pos, keep))})
    for c in look[1:]:
        ev.append({'op': 'Restore', 'c': c + 1})
    exact = []
    for (a, b), L in lengths.items():
        d = float(np.linalg.norm(out[a] - out[b]))
        if abs(d - L) <= 1e-9 * L:
            exact.append([a + 1, b + 1])
    processed = {root - 1} | set(look[1:])
    others = [i for i in range(n) if i not in processed]
    intact = bool(all(np.array_equal(out[i], keep[i]) for i in others))
    # state must not be carried from call to call: the result belongs to the caller (overwritten here), and the same
    # table object, updated in place to other bond lengths, must be honoured by the next move of the same atom
    first = out.copy()
    out[...] = np.nan
    again = move_mol_atom(pos, table, atom_index=root - 1, displ=displ.copy(), sigma_scale=sigma_scale)
    intact = intact and bool(np.array_equal(again, first))
    # a result the caller holds is not touched by later calls (another displacement, same sizes), and a configuration
    # handed over as a view of an earlier result is an input like any other: it is left as it was
    # the index of the atom as a numpy integer (np.argmax, rng.integers, an element of np.arange): the same atom
    npi = move_mol_atom(pos, table, atom_index=(np.int64 if n % 2 else np.intp)(root - 1), displ=displ.copy(), sigma_scale=sigma_scale)
    intact = intact and bool(np.array_equal(npi, first))
    # a configuration that is not a plain ndarray (a frame of a memory-mapped trajectory, an array subclass) is an input
    # like any other: left as it was
    class _Frame(np.ndarray):
        pass
    sub = pos.copy().view(_Frame)
    subres = move_mol_atom(sub, table, atom_index=root - 1, displ=displ.copy(), sigma_scale=sigma_scale)
    intact = intact and bool(np.array_equal(np.asarray(sub), keep)) and bool(np.array_equal(np.asarray(subres), first))
    other = move_mol_atom(pos, table, atom_index=root - 1, displ=displ * 2 + 0.0625, sigma_scale=sigma_scale)
    intact = intact and bool(np.array_equal(again, first)) and other is not again
    view = again[:]
    chained = move_mol_atom(view, table, atom_index=root - 1, displ=displ.copy() + 0.03125, sigma_scale=sigma_scale)
    intact = intact and bool(np.array_equal(again, first)) and bool(np.array_equal(chained[root - 1], first[root - 1] + (displ + 0.03125)))
    if n > 1 and adj[root - 1]:
        scale = float(rng.choice([0.5, 1.7]))
        for a in list(table.keys()):
            dict.__setitem__(table, a, [(b, L * scale) for b, L in dict.__getitem__(table, a)])
        third = move_mol_atom(pos, table, atom_index=root - 1, displ=displ.copy(), sigma_scale=sigma_scale)
        nb0 = adj[root - 1][0] - 1
        want = lengths[(min(root - 1, nb0), max(root - 1, nb0))] * scale
        intact = intact and abs(float(np.linalg.norm(third[root - 1] - third[nb0])) - want) <= 1e-9 * want
        for a in list(table.keys()):
            dict.__setitem__(table, a, [(b, L / scale) for b, L in dict.__getitem__(table, a)])
    ev.append({'op': 'End', 'finite': bool(np.isfinite(first).all()), 'exact': exact, 'others_intact': bool(intact)})
    # random displacements of the root
    if adj[root - 1]:
        nb = [b - 1 for b in adj[root - 1]]
        plain = {a: [(b - 1, lengths[(min(a, b - 1), max(a, b - 1))]) for b in adj[a]] for a in range(n)}
        for _ in range(draws):
            d = find_atom_random_displ(keep, plain, root - 1, sigma_scale=sigma_scale)
            fin = bool(np.isfinite(d).all())
            nd = np.linalg.norm(d)
            if len(nb) == 1:
                dirs = [keep[nb[0]] - keep[root - 1]]
            elif len(nb) == 2:
                dirs = [keep[nb[0]] - keep[nb[1]]]
            else:
                dirs = [keep[nb[0]] - keep[nb[2]], keep[nb[0]] - keep[nb[1]]]
            perp = fin and all(abs(float(d @ v)) <= 1e-9 * nd * np.linalg.norm(v) + 1e-300 for v in dirs)
            ev.append({'op': 'Draw', 'deg': len(nb), 'finite': fin, 'perp': bool(perp)})
    return ev, look


def random_graph(rng):
    n = int(rng.integers(2, 61))
    chain = rng.random() < 0.04
    if chain:
        n = int(rng.integers(300, 420))       # a long chain: the traversal is as deep as the molecule is long
    E = set()
    for i in range(1, n):
        E.add((i - 1 if chain else int(rng.integers(0, i)), i))
    kind = 'tree'
    if rng.random() < 0.4:
        kind = 'cyclic'
        for _ in range(int(rng.integers(1, 5))):
            a, b = rng.choice(n, 2, replace=False)
            E.add((int(min(a, b)), int(max(a, b))))
    adj = [[] for _ in range(n)]
    for a, b in sorted(E):
        adj[a].append(b + 1)
        adj[b].append(a + 1)
    return n, adj, kind


def _work(args):
    items, part, seed = args
    common.import_repo()
    with open(part, 'w') as fh:
        for tid, kind, payload in items:
            rng = np.random.default_rng(seed + tid)
            note = ''
            try:
                if kind in ('enum', 'perm'):
                    n, adj, root, order = payload['n'], [list(a) for a in payload['adj']], payload['root'], payload['order']
                    if kind == 'perm':
                        adj = [list(rng.permutation(a)) for a in adj]
                        adj = [[int(x) for x in a] for a in adj]
                    with common.caller_state(tid):
                        ev, look = run_case(n, adj, root, rng, agree=bool(tid % 2), draws=4 if kind == 'enum' else 2,
                                            sigma_scale=float(rng.choice([0.01, 0.5, 3.0])))
                    if kind == 'enum' and [c + 1 for c in look[1:]] != [o[1] for o in order]:
                        note = 'processing order differs from the Alg layer'
                else:
                    n, adj, gk = random_graph(rng)
                    root = int(rng.integers(1, n + 1))
                    with common.caller_state(tid):
                        ev, look = run_case(n, adj, root, rng, agree=bool(rng.random() < 0.5), draws=3,
                                            sigma_scale=float(rng.choice([1e-4, 0.5, 2.0, 5.0])))
            except Exception as exc:
                import traceback
                n, adj, root = payload.get('n', 1) if isinstance(payload, dict) else 1, [[]], 1
                ev = [{'op': 'Exception', 'type': type(exc).__name__, 'text': traceback.format_exc()[-800:]}]
            fh.write(json.dumps({'tid': tid, 'cfg': {'n': n, 'adj': adj, 'root': root}, 'kind': kind, 'note': note,
                                 'ev': ev}) + '\n')
    return part


def _trees(n):
    """all labelled trees on 1..n (Pruefer sequences)"""
    import heapq
    import itertools
    if n == 1:
        yield []
        return
    if n == 2:
        yield [(1, 2)]
        return
    for seq in itertools.product(range(1, n + 1), repeat=n - 2):
        deg = [1] * (n + 1)
        for s in seq:
            deg[s] += 1
        leaves = [i for i in range(1, n + 1) if deg[i] == 1]
        heapq.heapify(leaves)
        edges = []
        for s in seq:
            lf = heapq.heappop(leaves)
            edges.append((min(lf, s), max(lf, s)))
            deg[s] -= 1
            if deg[s] == 1:
                heapq.heappush(leaves, s)
        a, b = heapq.heappop(leaves), heapq.heappop(leaves)
        edges.append((min(a, b), max(a, b)))
        yield edges


def _cyclic(n):
    import itertools
    pairs = list(itertools.combinations(range(1, n + 1), 2))
    for k in range(n, len(pairs) + 1):
        for E in itertools.combinations(pairs, k):
            adj = {i: set() for i in range(1, n + 1)}
            for a, b in E:
                adj[a].add(b)
                adj[b].add(a)
            seen, st = {1}, [1]
            while st:
                for y in adj[st.pop()]:
                    if y not in seen:
                        seen.add(y)
                        st.append(y)
            if len(seen) == n:
                yield list(E)


def write_cases_module(path, mt, mc):
    """MC_MoveAtomCases.tla: the literal set of cases (TLC's own enumeration of the same set through
    kSubset / SUBSET in MC_MoveAtom.tla takes a minute in its single-threaded initial-state phase;
    both enumerations give 8 568 cases for (6, 4))"""
    cases = []
    for n in range(1, mt + 1):
        for E in _trees(n):
            cases += [(n, E, r) for r in range(1, n + 1)]
    for n in range(3, mc + 1):
        for E in _cyclic(n):
            cases += [(n, E, r) for r in range(1, n + 1)]

    def adj(n, E):
        a = [[] for _ in range(n)]
        for x, y in sorted(E):
            a[x - 1].append(y)
            a[y - 1].append(x)
        return '<<' + ', '.join('<<' + ', '.join(map(str, sorted(l))) + '>>' for l in a) + '>>'
    with open(path, 'w') as fh:
        fh.write('---- MODULE MC_MoveAtomCases ----\nEXTENDS MoveAtom\nMC_Cases == {\n')
        fh.write(',\n'.join('[n |-> %d, adj |-> %s, root |-> %d]' % (n, adj(n, E), r) for n, E, r in cases))
        fh.write('}\n====\n')
    return len(cases)


CASES_CFG = """SPECIFICATION Spec
CONSTANTS
  Cases <- MC_Cases
  Mode = "%s"
INVARIANT MovedOnce
INVARIANT TreeExact
INVARIANT TraversalExact
PROPERTY NeverTwice
CHECK_DEADLOCK FALSE
"""


def check(run):
    common.import_repo()
    # every processing order (Abs) multiplies the states by the number of linear extensions of each tree: exhaustive up to
    # 6 atoms; the implementation-shaped run (Alg, one order per case) also covers all 117 649 rooted trees of 7 atoms
    (mt, mc), (mt2, mc2) = ((6, 4), (6, 4)) if run.quick else ((6, 5), (7, 5))
    import shutil
    sdir = os.path.join(run.scratch, 'spec')
    os.makedirs(sdir, exist_ok=True)
    shutil.copy(os.path.join(tlc.SPEC_DIR, 'MoveAtom.tla'), sdir)
    ncases = write_cases_module(os.path.join(sdir, 'MC_MoveAtomCases.tla'), mt, mc)
    res = tlc.run('MC_MoveAtomCases', CASES_CFG % 'abs', run.scratch, workers=16, timeout=3000, spec_dir=sdir, heap='12g')
    tlc.check_ok(res, 'MoveAtom[abs]', need_actions=['Displace', 'Restore', 'Finish'])
    run.add_tlc(res, 'MoveAtom Abs: all labelled trees <= %d atoms, cyclic graphs <= %d atoms (%d cases), every root, '
                     'every processing order: MovedOnce, TreeExact, TraversalExact, NeverTwice' % (mt, mc, ncases))
    if (mt2, mc2) != (mt, mc):
        ncases = write_cases_module(os.path.join(sdir, 'MC_MoveAtomCases.tla'), mt2, mc2)
    res2 = tlc.run('MC_MoveAtomCases', CASES_CFG % 'alg', run.scratch, workers=16, timeout=3000, dump=True, spec_dir=sdir, heap='12g')
    tlc.check_ok(res2, 'MoveAtom[alg]', need_actions=['Displace', 'Restore', 'Finish'])
    run.add_tlc(res2, 'MoveAtom Alg (LIFO stack, ascending table order), trees <= %d atoms, cyclic <= %d (%d cases): same invariants; '
                      'terminal states dumped' % (mt2, mc2, ncases))
    cases = cases_from_dump(res2.dump_path)
    os.remove(res2.dump_path)
    if len(cases) < 1000:
        raise tlc.TLCError('only %d cases from TLC' % len(cases))
    items = []
    tid = 0
    rng = random.Random(run.seed)
    sub = cases
    if run.quick and len(cases) > 4000:
        big = [c for c in cases if c['n'] >= 6]
        small = [c for c in cases if c['n'] < 6]
        rng.shuffle(big)
        sub = small + big[:4000 - len(small)]
        run.note('quick: all %d cases with < 6 atoms + %d sampled 6-atom cases replayed (TLC checked all %d)'
                 % (len(small), len(sub) - len(small), len(cases)))
    for c in sub:
        tid += 1
        items.append((tid, 'enum', c))
        if c['n'] >= 4 and tid % 3 == 0:
            tid += 1
            items.append((tid, 'perm', c))
    nrand = 300 if run.quick else 20000
    for j in range(nrand):
        tid += 1
        items.append((tid, 'rand', {}))
    nproc = 16
    jobs = [(items[i::nproc], os.path.join(run.scratch, 'ma%d.ndjson' % i), run.seed * 1000003) for i in range(nproc)
            if items[i::nproc]]
    with Pool(nproc) as pool:
        parts = pool.map(_work, jobs)
    traces = {}
    for p in parts:
        with open(p) as fh:
            for line in fh:
                t = json.loads(line)
                traces[t['tid']] = t
    verdicts = validate_batches('Trace_MoveAtom', TRACE_CFG, parts, run.scratch, timeout=3000, run=run, heap='4g')
    kinds = {}
    for tid, tr in traces.items():
        v = verdicts.get(tid)
        if tr['ev'] and tr['ev'][0]['op'] == 'Exception':
            v = ('FAIL', tid, 1, 'exception:' + tr['ev'][0]['type'])
        if v is None:
            raise tlc.TLCError('no verdict for trace %r' % tid)
        kinds[tr['kind']] = kinds.get(tr['kind'], 0) + 1
        if tr.get('note'):
            run.note(tr['note'] + ' (not a violation)')
        run.case((tr['kind'], json.dumps(tr['cfg'])), nontrivial=True,
                 sample={'kind': tr['kind'], 'n': tr['cfg']['n'], 'adj': tr['cfg']['adj'][:6], 'root': tr['cfg']['root'],
                         'events': [e['op'] + (str(e.get('c', ''))) for e in tr['ev']][:10]}
                 if len(run.samples) < 5 and tr['cfg']['n'] >= 4 else None)
        run.traces += 1
        if v[0] == 'ACC':
            continue
        e = tr['ev'][v[2] - 1] if 0 < v[2] <= len(tr['ev']) else {}
        nb = len(tr['cfg']['adj'][tr['cfg']['root'] - 1]) if tr['cfg']['adj'] else 0
        run.violation({'clause': v[3], 'kind': tr['kind'], 'root_degree_ge4': nb >= 4},
                      {'engine': 'moveatom', 'spec': 'Trace_MoveAtom', 'failing_clause': v[3], 'event_index': v[2],
                       'event': e, 'trace': tr})
    run.rule = ('cases = (graph with ordered bond table, moved atom) executed on the real move_mol_atom with generic '
                'coordinates, random displacement, bond tables that agree / disagree with the geometry: every case TLC '
                'enumerated (ascending and permuted table order) + random trees / cyclic graphs up to 60 atoms; plus '
                'random displacement draws per case')
    run.extra.update({'enumerated_cases_from_tlc': len(cases), 'trace_kinds': kinds, 'exhaustive': True})
    run.assumptions += ['bond tables are symmetric and without duplicate entries', 'generic coordinates (no coincident atoms)']


def main_c07(run):
    check(run)
