"""Engine `chi2` (C08): Chi2Calculator equals its reference definition.

TLC model-checks spec/Chi2.tla over every case of the bounds (<= 3 fixed x <= 3 mobile lattice
points with ties, every restraint list of length <= 2 (3) incl. duplicates and "every fixed atom
restrained"): AlgInAbs, NonNegative, PathsAgree, Invariance.  Every case (expected <<S, k>> sets
from TLC) is evaluated on the real Chi2Calculator (built with a different mobile configuration,
evaluated twice); realistic sizes on a dyadic grid and generic floats are validated as traces.
"""
import json
import math
import os
import random
import re
from multiprocessing import Pool

import numpy as np

from .. import common, tlc, tlaval
from ..traces import validate_batches

H = 0.5
MC_CFG = """SPECIFICATION MCSpec
CONSTANTS
  Tier = "%s"
  Cases <- MC_Cases
INVARIANT AlgInAbs
INVARIANT NonNegative
INVARIANT PathsAgree
INVARIANT Invariance
CHECK_DEADLOCK FALSE
"""
TRACE_CFG = "SPECIFICATION TraceSpec\nCONSTANTS\n  Cases = {}\nINVARIANT Accepted\nCHECK_DEADLOCK FALSE\n"


def _parse_chunk(blks):
    out = []
    for b in blks:
        st = tlaval.parse_state(b)
        if st.get('phase') == 'done':
            c = st['cs']
            out.append({'fixed': [list(p) for p in c['fixed']], 'mobile': [list(p) for p in c['mobile']],
                        'restr': [list(r) for r in c['restr']], 'abs': sorted(list(v) for v in st['res']['abs']),
                        'path': st['res']['path']})
    return out


def cases_from_dump(path, limit, rng):
    with open(path) as fh:
        text = fh.read()
    blks = [b.strip() for b in re.split(r'^State \d+:\s*$', text, flags=re.M)[1:] if '"done"' in b]
    total = len(blks)
    if limit and len(blks) > limit:
        rng.shuffle(blks)
        blks = blks[:limit]
    with Pool(16) as pool:
        parts = pool.map(_parse_chunk, [blks[i::16] for i in range(16)])
    return [c for p in parts for c in p], total


def _replay_chunk(cases):
    common.import_repo()
    from gaddlemaps import Chi2Calculator
    bad = []
    for c in cases:
        fixed = np.array(c['fixed'], float) * H
        mobile = np.array(c['mobile'], float) * H
        other = mobile[::-1] + np.array([7.0, -3.0, 2.0]) * H
        restr = [(i - 1, j - 1) for i, j in c['restr']]
        try:
            arg = restr if restr else (None if len(c['fixed']) % 2 else [])
            calc = Chi2Calculator(fixed, other.copy(), arg)
            calc(other)
            v = float(calc(mobile))
            v2 = float(calc(mobile))
        except Exception as exc:
            bad.append((c, {'check': 'exception', 'exception': type(exc).__name__, 'path': c['path']}, None))
            continue
        ok = any(abs(v - S * H * H * 1.1 ** k) <= 1e-12 * max(1.0, abs(v)) for S, k in c['abs'])
        if not (ok and v == v2 and v >= 0):
            bad.append((c, {'check': 'value', 'path': c['path'],
                            'duplicate_fixed_restraint': len({r[0] for r in restr}) < len(restr)},
                        {'observed': v, 'second_call': v2,
                         'expected_any_of': [S * H * H * 1.1 ** k for S, k in c['abs']]}))
    return bad


def decompose(v, nm, unit2):
    """all <<S, k>> with v = S * unit2 * 1.1^k, S a non-negative integer (1e-12 relative)"""
    out = []
    for k in range(nm + 1):
        s = v / (unit2 * 1.1 ** k)
        r = round(s)
        if r >= 0 and abs(s - r) <= 1e-11 * max(1.0, abs(s)) and r < 2 ** 31:
            out.append([int(r), k])
    return out


def _work_rand(args):
    items, part = args
    common.import_repo()
    from gaddlemaps import Chi2Calculator
    with open(part, 'w') as fh:
        for tid, seed in items:
            rng = np.random.default_rng(seed)
            nf, nm = int(rng.integers(1, 41)), int(rng.integers(1, 26))
            g = 1.0 / 256
            fixed = rng.integers(0, 256, (nf, 3))
            shape = rng.choice(['none', 'partial', 'dup', 'all', 'all_dup'])
            if shape == 'none':
                restr = []
            elif shape == 'partial':
                restr = [(int(i), int(rng.integers(0, nm))) for i in rng.permutation(nf)[:max(1, nf // 2)]]
            elif shape == 'dup':
                restr = [(int(rng.integers(0, nf)), int(rng.integers(0, nm))) for _ in range(int(rng.integers(1, 2 * nf + 2)))]
            elif shape == 'all':
                restr = [(i, int(rng.integers(0, nm))) for i in range(nf)]
            else:
                restr = [(i, int(rng.integers(0, nm))) for i in range(nf)] + [(0, int(rng.integers(0, nm)))]
            ev = []
            cfg_nf, cfg_nm, cfg_restr = nf, nm, list(restr)
            try:
                build = rng.integers(0, 256, (nm, 3)) * g
                # the array the calculator is built with only fixes the sizes: its element type (lattice integers, single
                # precision) must not leak into later evaluations
                if tid % 3 == 0:
                    build = rng.integers(0, 256, (nm, 3))
                elif tid % 3 == 1:
                    build = build.astype(np.float32)
                # the restraint list as the caller's own index array, refilled afterwards (the calculator keeps what it was given)
                rarg = restr if restr else None
                if restr and tid % 2:
                    rarg = np.array(restr, dtype=np.intp if tid % 4 == 1 else np.int64)
                with common.caller_state(tid):
                    calc = Chi2Calculator(fixed * g, build, rarg)
                if isinstance(rarg, np.ndarray):
                    rarg[...] = 0
                mbuf = np.zeros((nm, 3))        # one buffer refilled in place: the value follows the contents, not the object
                for _ in range(int(rng.integers(2, 5))):
                    mob = rng.integers(0, 256, (nm, 3))
                    if rng.random() < 0.3:          # force some ties / coincidences
                        mob[rng.integers(0, nm)] = fixed[rng.integers(0, nf)]
                    mbuf[...] = mob * g
                    v = float(calc(mbuf))
                    # the same configuration in another memory layout (column-major, a transposed view, a strided view)
                    lay = [np.asfortranarray(mbuf), np.ascontiguousarray(mbuf.T).T, np.repeat(mbuf, 2, axis=0)[::2]][len(ev) % 3]
                    if float(calc(lay)) != v:
                        v = float('nan')
                    ev.append({'op': 'Eval', 'mobile': mob.tolist(), 'finite': bool(math.isfinite(v)),
                               'nonneg': bool(v >= 0), 'cand': decompose(v, nm, g * g), 'value': v})
                    # the last evaluation of this configuration goes through the buffer again, so that the next one (the same
                    # array refilled in place) follows it directly
                    if float(calc(mbuf)) != v and v == v:
                        ev[-1]['finite'] = False
                    if hasattr(calc, 'chi2_molecules') and rng.random() < 0.5 and False:
                        pass
                    if hasattr(calc, 'chi2_molecules') and rng.random() < 0.5:
                        # the documented entry point for "no restraints" on the same object: the measure with an
                        # empty restraint list, whatever the calculator was built with
                        vp = float(calc.chi2_molecules(mbuf))
                        ev.append({'op': 'EvalPlain', 'mobile': mob.tolist(), 'finite': bool(math.isfinite(vp)),
                                   'nonneg': bool(vp >= 0), 'cand': decompose(vp, nm, g * g), 'value': vp})
                        calc(mbuf)
                # generic floats: invariances (tie-free with probability one)
                cfg_nf, cfg_nm, cfg_restr = nf, nm, list(restr)
                if tid % 40 == 7:
                    # a pair big enough (static x mobile > 2^20) for a block-wise / approximate path to take over: the
                    # relations between the three restraint paths still hold
                    nf, nm = int(rng.integers(1400, 1700)), int(rng.integers(760, 900))
                    restr = [(int(i), int(rng.integers(0, nm))) for i in rng.permutation(nf)[:nf // 3]] if restr else []
                F = rng.normal(size=(nf, 3))
                M = rng.normal(size=(nm, 3))
                base = float(Chi2Calculator(F, M[::-1].copy(), restr if restr else None)(M))
                q, r_ = np.linalg.qr(rng.normal(size=(3, 3)))
                if np.linalg.det(q) < 0:
                    q[:, 0] = -q[:, 0]
                # far from the origin as well (a system of several micrometres): the measure depends on separations only
                t = rng.uniform(-5, 5, 3) * float(rng.choice([1.0, 1.0, 1500.0]))
                moved = float(Chi2Calculator(F @ q.T + t, M, restr if restr else None)(M @ q.T + t))
                pf, pm = rng.permutation(nf), rng.permutation(nm)
                invf, invm = np.argsort(pf), np.argsort(pm)
                restr2 = [(int(invf[i]), int(invm[j])) for i, j in restr]
                rel = float(Chi2Calculator(F[pf], M[pm][::-1].copy(), restr2 if restr2 else None)(M[pm]))
                # the same value however many atoms are restrained: restrain atoms to their nearest mobile atom
                from scipy.spatial.distance import cdist
                near = cdist(F, M).argmin(axis=1)
                some = [(int(i), int(near[i])) for i in range(0, nf, 2)]
                allr = [(int(i), int(near[i])) for i in range(nf)]
                v0 = float(Chi2Calculator(F, M.copy(), None)(M))
                v1 = float(Chi2Calculator(F, M.copy(), some)(M))
                v2 = float(Chi2Calculator(F, M.copy(), allr)(M))
                same = lambda a, b: abs(a - b) <= 1e-9 * max(abs(a), abs(b), 1e-300)
                ev.append({'op': 'Inv', 'rigid': bool(same(base, moved)), 'relabel': bool(same(base, rel)),
                           'paths': bool(same(v0, v1) and same(v0, v2))})
            except Exception as exc:
                import traceback
                ev = [{'op': 'Exception', 'type': type(exc).__name__, 'text': traceback.format_exc()[-800:]}]
            fh.write(json.dumps({'tid': tid, 'cfg': {'fixed': fixed.tolist(), 'nm': cfg_nm,
                                                     'restr': [[i + 1, j + 1] for i, j in cfg_restr]},
                                 'meta': {'seed': seed, 'shape': str(shape), 'nf': cfg_nf, 'nm': cfg_nm, 'big_pair': bool(tid % 40 == 7)},
                                 'ev': ev}) + '\n')
    return part


def check(run):
    common.import_repo()
    res = tlc.run('MC_Chi2', MC_CFG % run.tier, run.scratch, workers=16, timeout=3000, dump=True, coverage=False)
    tlc.check_ok(res, 'MC_Chi2')
    if res.distinct < 1000:
        raise tlc.TLCError('vacuous Chi2 run')
    run.add_tlc(res, 'Chi2 exhaustive (%s bounds): AlgInAbs, NonNegative, PathsAgree, Invariance' % run.tier)
    rng = random.Random(run.seed)
    cases, total = cases_from_dump(res.dump_path, 30000 if run.quick else 0, rng)
    os.remove(res.dump_path)
    if run.quick:
        run.note('quick: %d of the %d TLC cases replayed (seeded sample); TLC checked all' % (len(cases), total))
    with Pool(16) as pool:
        bads = pool.map(_replay_chunk, [cases[i::16] for i in range(16)])
    for c in cases[:3]:
        run.samples.append({'fixed': c['fixed'], 'mobile': c['mobile'], 'restr': c['restr'], 'expected_S_k': c['abs']})
    for c in cases:
        run.case((json.dumps(c['fixed']), json.dumps(c['mobile']), json.dumps(c['restr'])), nontrivial=True)
    run.traces += len(cases)
    for chunk in bads:
        for c, sig, extra in chunk:
            rec = {'engine': 'chi2', 'spec': 'Chi2', 'case': c, 'h': H}
            if extra:
                rec.update(extra)
            run.violation(sig, rec)
    nrand = 200 if run.quick else 10000
    items = [(10 ** 6 + j, run.seed * 1000003 + j) for j in range(nrand)]
    jobs = [(items[i::16], os.path.join(run.scratch, 'c2%d.ndjson' % i)) for i in range(16) if items[i::16]]
    with Pool(16) as pool:
        parts = pool.map(_work_rand, jobs)
    traces = {}
    for p in parts:
        with open(p) as fh:
            for line in fh:
                t = json.loads(line)
                traces[t['tid']] = t
    verdicts = validate_batches('Trace_Chi2', TRACE_CFG, parts, run.scratch, timeout=3000, run=run, heap='4g')
    shapes = {}
    for tid, tr in traces.items():
        v = verdicts.get(tid)
        if tr['ev'] and tr['ev'][0]['op'] == 'Exception':
            v = ('FAIL', tid, 1, 'exception:' + tr['ev'][0]['type'])
        if v is None:
            raise tlc.TLCError('no verdict for trace %r' % tid)
        shapes[tr['meta']['shape']] = shapes.get(tr['meta']['shape'], 0) + 1
        run.case(('rand', tr['meta']['seed']), nontrivial=True)
        run.traces += 1
        if v[0] == 'ACC':
            continue
        e = tr['ev'][v[2] - 1] if 0 < v[2] <= len(tr['ev']) else {}
        run.violation({'check': 'trace:' + v[3], 'shape': tr['meta']['shape'], 'event': v[2] if v[2] < 3 else 'later'},
                      {'engine': 'chi2', 'spec': 'Trace_Chi2', 'failing_clause': v[3], 'event_index': v[2], 'event': e,
                       'trace': tr})
    run.rule = ('cases = (fixed, mobile, restraint list) evaluated on the real Chi2Calculator built with another mobile '
                'configuration: the TLC-enumerated lattice cases with exact <<S, k>> sets; random 1..40 x 1..25 atom sets '
                'on a 256-level grid (several evaluations per calculator, forced coincidences) and generic floats '
                '(rigid motion / relabelling / restraint-count invariance)')
    run.extra.update({'tlc_cases': total, 'replayed': len(cases), 'random_traces': nrand, 'restraint_shapes': shapes,
                      'exhaustive': not run.quick})
    run.assumptions += ['restraint indices are in range and non-negative', 'value compared to 1e-12 relative']


def main_c08(run):
    check(run)
