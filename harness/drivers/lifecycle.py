"""Extension engine `lifecycle` (X01, not a listed property): life cycle of an Alignment object.

spec/Lifecycle.tla models the two molecule slots, the setter checks, what each method requires and
that an error changes nothing; TLC checks ErrorsChangeNothing, SpeciesLocked, MapWasComplete for every
history of <= 4 (5) operations and every maximal history is replayed on a real Alignment: outcome
(ok / exception type), species held by each slot, the pair the exchange map was built for, and that
the Alignment never stores the caller's own object.
"""
import contextlib
import io
import json
import os
import random
import re
from multiprocessing import Pool

import numpy as np

from .. import common, tlc, tlaval, synth
from .restraints import Stub, chain_molecule

MC_CFG = """SPECIFICATION Spec
CONSTANTS
  MaxOps = %d
PROPERTY ErrorsChangeNothing
PROPERTY SpeciesLocked
INVARIANT MapWasComplete
CHECK_DEADLOCK FALSE
"""


def _parse_chunk(args):
    blks, maxops = args
    out = []
    for b in blks:
        st = tlaval.parse_state(b)
        if len(st['hist']) == maxops:
            out.append([dict(h, map=list(h['map'])) for h in st['hist']])
    return out


def replay(beh, workdir, seed):
    from gaddlemaps import Alignment
    rng = np.random.default_rng(seed)
    mols = {'A': chain_molecule(os.path.join(workdir, 'A'), 'A', 3, set(), (0, 0, 0)),
            'B': chain_molecule(os.path.join(workdir, 'B'), 'B', 4, {2}, (2.0, 1.0, 0.5), style=1)}
    ali = Alignment()
    ali.STEPS_FACTOR = 1

    def value(v):
        if v == 'None':
            return None
        if v == 'junk':
            return [5, 'molecule', mols['A'].residues[0], np.zeros((3, 3))][int(rng.integers(0, 4))]
        return mols[v]

    def species(m):
        return 'None' if m is None else m.name

    for step, h in enumerate(beh, 1):
        out = 'ok'
        arg = value(h['arg']) if h['op'].startswith('set_') else None
        try:
            with Stub(), contextlib.redirect_stdout(io.StringIO()):
                if h['op'] == 'set_start':
                    ali.start = arg
                elif h['op'] == 'set_end':
                    ali.end = arg
                elif h['op'] == 'init_exchange_map':
                    ali.init_exchange_map(0.5)
                elif h['op'] == 'align_molecules':
                    ali.align_molecules()
                else:
                    path = os.path.join(workdir, 'cmp.gro')
                    if os.path.exists(path):
                        os.remove(path)
                    ali.write_comparative_gro(path)
                    with open(path) as fh:
                        lines = fh.read().split('\n')
                    n = len(ali.start) + len(ali.end)
                    names = {ln[5:10].strip() for ln in lines[2:2 + n]}
                    if int(lines[1]) != n or names != {'START', 'END'}:
                        return ({'check': 'lifecycle:comparative_file'}, {'step': step})
        except (TypeError, ValueError) as exc:
            out = type(exc).__name__
        except Exception as exc:
            import traceback
            return ({'check': 'lifecycle:exception:' + type(exc).__name__, 'op': h['op']}, {'step': step, 'text': traceback.format_exc()[-500:]})
        m = ali.exchange_map
        mapfor = ['None', 'None'] if m is None else [m._refmolecule.name, m._targetmolecule.name]
        got = (out, species(ali.start), species(ali.end), mapfor)
        want = (h['out'], h['start'], h['finish'], h['map'])
        if got != want:
            return ({'check': 'lifecycle:state_differs_from_specification', 'op': h['op'], 'arg': h['arg']},
                    {'step': step, 'observed': got, 'expected': want})
        if any(ali.start is x or ali.end is x for x in mols.values()):
            return ({'check': 'lifecycle:caller_object_stored'}, {'step': step})
    return None


def _work(args):
    behs, workdir, seed = args
    common.import_repo()
    return [replay(b, os.path.join(workdir, 'p%d' % os.getpid()), seed + i) for i, b in enumerate(behs)]


def main_x01(run):
    common.import_repo()
    depth = 4 if run.quick else 5
    res = tlc.run('Lifecycle', MC_CFG % depth, run.scratch, workers=16, timeout=3000, dump=True, coverage=True)
    tlc.check_ok(res, 'Lifecycle', need_actions=('SetStart', 'SetEnd', 'InitMap', 'Compare', 'Align'))
    run.add_tlc(res, 'Lifecycle exhaustive: histories of %d operations' % depth)
    with open(res.dump_path) as fh:
        text = fh.read()
    os.remove(res.dump_path)
    blks = [b.strip() for b in re.split(r'^State \d+:\s*$', text, flags=re.M)[1:]]
    blks = [b for b in blks if b.count('op |->') == depth]
    rng = random.Random(run.seed)
    total = len(blks)
    limit = 6000 if run.quick else 60000
    if total > limit:
        rng.shuffle(blks)
        blks = blks[:limit]
    with Pool(16) as pool:
        behs = [b for p in pool.map(_parse_chunk, [(blks[i::16], depth) for i in range(16)]) for b in p]
        results = pool.map(_work, [(behs[i::16], os.path.join(run.scratch, 'w'), run.seed * 7919 + i * 100000) for i in range(16)])
    for chunk, rs in zip([behs[i::16] for i in range(16)], results):
        for b, r in zip(chunk, rs):
            ops = [(h['op'], h['arg']) for h in b]
            run.case(json.dumps(ops), nontrivial=True, sample={'history': ops} if len(run.samples) < 3 else None)
            run.traces += 1
            if r:
                run.violation(r[0], dict({'engine': 'lifecycle', 'history': ops}, **r[1]))
    run.rule = 'cases = operation histories on one Alignment object (setters with molecules of two species / None / non-molecules, init_exchange_map, write_comparative_gro, align_molecules)'
    run.extra.update({'leaves': total, 'replayed': len(behs)})
    run.assumptions += ['extension beyond the listed properties; not registered in MANIFEST.json']
