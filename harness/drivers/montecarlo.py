"""Engine `montecarlo` (C09): the Monte-Carlo search keeps consistent energies, applies the
Metropolis rule and stops exactly.

spec/MonteCarlo.tla is the loop as a state machine; MC_MonteCarlo.tla proves that its bookkeeping
(held / heldE / minE / counter) agrees with what the property demands from the history alone.
Binding, both directions:

* spec -> code: every terminal behaviour TLC finds inside the bounds (kinds, measures with ties,
  outcome of each draw) is imposed on the REAL _minimize_molecules as a scripted schedule (scripted
  overlap measure, scripted numpy.random.choice / rand; proposals are real) and the loop's
  observable behaviour (what it hands to the judge, how many evaluations it consumes, which array
  it returns) is compared with the TLC state sequence.
* code -> spec: genuine runs (real chi2, seeds, all type subsets, budgets 1..2000, restraints) are
  recorded through wrappers of the module-level names the loop resolves at call time and validated
  by TLC against Trace_MonteCarlo.tla, which infers counter and minimum itself.
"""
import json
import math
import os
import random
import re
from multiprocessing import Pool

import numpy as np

from .. import common, tlc, tlaval, project
from ..traces import validate_batches

MC_CFG = """SPECIFICATION MCSpec
CONSTANTS
  MaxE = %d
  MaxSteps = %d
  TypeSets = %s
  MaxLen = 40
CONSTRAINT Bound
INVARIANT AbsHeld
INVARIANT AbsMin
INVARIANT AbsCounter
INVARIANT AbsRule
INVARIANT KindsEnabled
INVARIANT NeverBeyond
INVARIANT StopExact
PROPERTY NoStepAfterBudget
PROPERTY RejectKeeps
CHECK_DEADLOCK FALSE
"""
TRACE_CFG = "SPECIFICATION TraceSpec\nINVARIANT Accepted\nCHECK_DEADLOCK FALSE\n"


class ScheduleExhausted(BaseException):
    """the loop asked for another step after the scripted schedule (= the TLC behaviour) ended"""


class ChannelLost(Exception):
    pass


class Observer:
    """Patches the names _minimize_molecules resolves at call time and records one event per
    specification action.  script = None (genuine run) or dict(e0, steps=[(k, e, acc)])."""

    def __init__(self, table, script=None, cap=10 ** 9):
        self.table = table
        self.cap = cap
        self.script = script
        self.ev = []
        self.intern = project.Interner()
        self.n_eval = 0
        self.in_move = 0
        self.in_accept = False
        self.draws = []
        self.pending_move = None
        self.initial = None
        self.held_obs = None
        self.last = None
        self.best = None
        self.best_e = None
        self.step = 0

    # -- patched names ------------------------------------------------------------------------
    def __enter__(self):
        import gaddlemaps._backend as B
        self.B = B
        self.saved = (B.Chi2Calculator, B.accept_metropolis, B.move_mol_atom, np.random.choice, np.random.rand)
        obs = self
        real_calc, real_accept, real_move, real_choice, real_rand = self.saved

        class Calc:
            def __init__(s, mol1, mol2, restr=None):
                s.real = real_calc(mol1, mol2, restr) if obs.script is None else None
                obs.calc_args = (np.array(mol1, float), np.array(mol2, float), restr)
                obs.real_calc = real_calc

            def __call__(s, arr):
                return obs.on_eval(s.real, arr)

        def accept(e0, e1, *a, **k):
            obs.in_accept = True
            obs.draws = []
            try:
                v = real_accept(e0, e1, *a, **k)
            finally:
                obs.in_accept = False
            obs.on_judge(e0, e1, bool(v))
            return v

        def move(atoms_pos, bonds_info, *a, **k):
            obs.in_move += 1
            try:
                out = real_move(atoms_pos, bonds_info, *a, **k)
            finally:
                obs.in_move -= 1
            if obs.in_move == 0:
                obs.pending_move = (obs.intern(atoms_pos), obs.intern(out))
            return out

        def choice(a, *args, **kw):
            if obs.in_move or args or kw:
                return real_choice(a, *args, **kw)
            return obs.on_choose(a, real_choice)

        def rand(*shape):
            if shape or not obs.in_accept:
                return real_rand(*shape)
            if obs.script is not None:
                st = obs.script['steps'][obs.step - 1]
                # a proposal that is not worse must be accepted whatever the draw: an adverse draw is scripted
                u = 1.0 if st[1] <= st[3] else (0.0 if st[2] else 1.0)
            else:
                u = real_rand()
            obs.draws.append(u)
            return u

        B.Chi2Calculator, B.accept_metropolis, B.move_mol_atom = Calc, accept, move
        np.random.choice, np.random.rand = choice, rand
        return self

    def __exit__(self, *exc):
        B = self.B
        B.Chi2Calculator, B.accept_metropolis, B.move_mol_atom, np.random.choice, np.random.rand = self.saved
        return False

    # -- events -------------------------------------------------------------------------------
    def on_choose(self, a, real_choice):
        self.step += 1
        if self.script is not None:
            if self.step > len(self.script['steps']):
                raise ScheduleExhausted('choose')
            k = self.script['steps'][self.step - 1][0]
        else:
            if self.step > self.cap:
                raise ScheduleExhausted('cap')
            k = real_choice(a)
        self.ev.append({'op': 'Choose', 'k': int(k)})
        return k

    def on_eval(self, real, arr):
        arr = np.array(arr, float)
        self.n_eval += 1
        if self.script is not None:
            if self.n_eval == 1:
                e = float(self.script['e0'])
            else:
                i = self.n_eval - 2
                if i >= len(self.script['steps']):
                    raise ScheduleExhausted('eval')
                e = float(self.script['steps'][i][1])
        else:
            e = real(arr)
        tok = self.intern(arr)
        if self.n_eval == 1:
            self.ev.append({'op': 'Start', 'tok': tok, 'rk': float(e)})
            self.initial = self.held_obs = self.last = self.best = arr
            self.best_e = e
            return e
        cands = {}
        for c in (self.initial, self.held_obs, self.last, self.best):
            cands[self.intern(c)] = c
        relT = [t for t, c in cands.items() if project.translated(c, arr)]
        relR = [t for t, c in cands.items() if project.rotated_about_centroid(c, arr)]
        mb, mo = self.pending_move or (0, 0)
        self.pending_move = None
        h = self.held_obs
        lvl = 0 if project.same(h, arr) else 1 if project.translated(h, arr) else 2 if project.rigid(h, arr) \
            else 3 if project.bonds_kept(arr, self.table) else 4
        self.ev.append({'op': 'Eval', 'tok': tok, 'rk': float(e), 'relT': relT, 'relR': relR, 'lvl': lvl,
                        'relB': bool(project.bonds_kept(arr, self.table)), 'mbase': mb, 'mout': mo,
                        'finite': project.finite(arr) and math.isfinite(float(e)),
                        'berr': project.max_bond_error(arr, self.table)})
        self.last = arr
        if e < self.best_e:
            self.best, self.best_e = arr, e
        return e

    def on_judge(self, e0, e1, verdict):
        ucmp = 'none'
        if self.draws:
            u = self.draws[-1]
            thr = 0.01 * (float(e0) / float(e1)) if e1 else float('inf')
            if abs(u - thr) <= 1e-12 * max(abs(u), abs(thr)):
                ucmp = 'tie'
            else:
                ucmp = 'le' if u < thr else 'gt'
        fresh_ok = True
        if self.script is None and getattr(self, 'real_calc', None) is not None:
            # the measure of the held configuration, recomputed by a calculator that has no history
            m1, m2, restr = self.calc_args
            f = float(self.real_calc(m1.copy(), m2.copy(), restr)(np.array(self.held_obs, float)))
            fresh_ok = bool(abs(f - float(e0)) <= 1e-11 * max(1.0, abs(f)))
        self.ev.append({'op': 'Judge', 'e0': float(e0), 'e1': float(e1), 'verdict': verdict, 'ucmp': ucmp, 'e0fresh': fresh_ok,
                        'u': float(self.draws[-1]) if self.draws else -1.0})
        if verdict:
            self.held_obs = self.last

    def on_return(self, arr):
        self.ev.append({'op': 'Return', 'tok': self.intern(np.array(arr, float))})

    def finish(self):
        """floats -> dense order ranks (exact equality -> equal rank)"""
        vals = []
        for e in self.ev:
            for f in ('rk', 'e0', 'e1'):
                if f in e:
                    vals.append(e[f])
        self.nan = any(v != v for v in vals)
        _, idx = project.ranks([v for v in vals if v == v])
        out = []
        for e in self.ev:
            e = dict(e)
            for f in ('rk', 'e0', 'e1'):
                if f in e:
                    e[f + '_f'] = e[f] if e[f] == e[f] else 'nan'
                    e[f] = idx[e[f]] if e[f] == e[f] else 0
            out.append(e)
        return out


def run_loop(obs, fixed, mobile, n_steps, restr, table, types, sigma=0.5, width=0.2):
    """one call of the real _minimize_molecules under observation -> events (ranked)"""
    import gaddlemaps._backend as B
    import contextlib
    import io
    with obs:
        try:
            with contextlib.redirect_stdout(io.StringIO()):
                out = B._minimize_molecules(fixed, mobile.copy(), mobile.mean(axis=0), sigma, n_steps, restr,
                                            table, width, types)
            obs.on_return(out)
        except ScheduleExhausted as exc:
            # scripted: the loop wants a step the TLC behaviour does not have; genuine: observation cut
            # after `cap` steps (termination is not claimed; the recorded prefix is validated)
            obs.ev.append({'op': 'Truncated' if obs.script is None else 'Overrun', 'at': str(exc)})
        except Exception as exc:
            import traceback
            obs.ev.append({'op': 'Exception', 'type': type(exc).__name__, 'text': traceback.format_exc()[-600:]})
    return obs.finish()


# --------------------------------------------------------------------------- molecules
def _unit(rng):
    v = rng.normal(size=3)
    return v / np.linalg.norm(v)


def make_mobile(rng, n, cyclic=False, chain=False):
    """positions of a random tree (optionally with extra ring-closing bonds) and its bond table
    measured on the geometry, as Molecule.bonds_distance does"""
    pos = np.zeros((n, 3))
    edges = []
    for i in range(1, n):
        p = i - 1 if chain else int(rng.integers(0, i))
        pos[i] = pos[p] + _unit(rng) * rng.uniform(0.1, 0.3)
        edges.append((p, i))
    if cyclic and n >= 3:
        for _ in range(int(rng.integers(1, 3))):
            a, b = (int(x) for x in rng.choice(n, 2, replace=False))
            if (a, b) not in edges and (b, a) not in edges:
                edges.append((a, b))
    table = {i: [] for i in range(n)}
    for a, b in edges:
        d = float(np.linalg.norm(pos[a] - pos[b]))
        table[a].append((b, d))
        table[b].append((a, d))
    return pos, table, (len(edges) == n - 1)


def random_restraints(rng, nf, nm):
    shape = rng.choice(['none', 'none', 'partial', 'all', 'dup'])
    if shape == 'none':
        return None if rng.random() < 0.5 else []
    if shape == 'partial':
        return [(int(i), int(rng.integers(0, nm))) for i in rng.permutation(nf)[:max(1, nf // 2)]]
    if shape == 'all':
        return [(i, int(rng.integers(0, nm))) for i in range(nf)]
    return [(int(rng.integers(0, nf)), int(rng.integers(0, nm))) for _ in range(int(rng.integers(1, nf + 2)))]


def _work_genuine(args):
    items, part, max_budget = args
    common.import_repo()
    with open(part, 'w') as fh:
        for tid, seed in items:
            rng = np.random.default_rng(seed)
            nm = int(rng.choice([1, 2, 3, 4, 6, 9, 14, 25]))
            nf = int(rng.integers(1, 41))
            cyc = bool(rng.random() < 0.15)
            long_chain = tid % 40 == 2
            if long_chain:
                nm, cyc = int(rng.integers(320, 420)), False       # a polymer: single-atom moves walk the whole chain
            mobile, table, tree = make_mobile(rng, nm, cyc, chain=long_chain)
            fixed = rng.normal(size=(nf, 3)) * 0.5 + rng.normal(size=3) * 0.3
            subsets = [(0,), (1,), (0, 1)] if nm < 2 else [(0,), (1,), (2,), (0, 1), (0, 2), (1, 2), (0, 1, 2), (2, 2, 0)]
            types = subsets[int(rng.integers(0, len(subsets)))]
            n_steps = int(round(math.exp(rng.uniform(0, math.log(max_budget)))))
            if long_chain:
                types, n_steps = (2,) if tid % 80 == 2 else (0, 2), min(n_steps, 3)
            restr = random_restraints(rng, nf, nm)
            np.random.seed(int(seed % (2 ** 32)))
            obs = Observer(table, cap=40 * n_steps + 3000)
            # the budget arrives as whatever integer type the caller computed it in (the Alignment multiplies a factor by a
            # length; user code may hand over numpy integers of any width that holds the value)
            forms = [int, np.int64, np.int32] + ([np.int16] if n_steps < 2 ** 15 else []) + ([np.int8, np.uint8] if n_steps < 2 ** 7 else [])
            n_steps_arg = forms[tid % len(forms)](n_steps)
            with common.caller_state(tid):
              ev = run_loop(obs, fixed, mobile, n_steps_arg, restr, table, types,
                          sigma=float(rng.choice([0.1, 0.5, 1.0])), width=float(rng.uniform(0.02, 0.5)))
            if obs.nan:
                continue        # a measure that is not a number is outside the property's domain
            fh.write(json.dumps({'tid': tid, 'cfg': {'nSteps': n_steps, 'types': sorted(set(types)), 'tree': tree},
                                 'meta': {'seed': seed, 'nm': nm, 'nf': nf, 'types': list(types), 'mode': 'genuine',
                                          'restr': restr if restr is not None else 'None', 'steps': sum(1 for e in ev if e['op'] == 'Choose')},
                                 'ev': ev}) + '\n')
    return part


# --------------------------------------------------------------------------- scripted replay
def _parse_chunk(blks):
    out = []
    for b in blks:
        st = tlaval.parse_state(b)
        if st.get('pc') != 'done':
            continue
        out.append({'nSteps': st['cfg']['nSteps'], 'types': sorted(st['cfg']['types']), 'e0': st['e0'],
                    'steps': [(s['k'], s['e'], s['acc'], s['h']) for s in st['steps']], 'ret': st['ret'],
                    'counter': st['counter'], 'minE': st['minE']})
    return out


def behaviours_from_dump(path):
    with open(path) as fh:
        text = fh.read()
    blks = [b.strip() for b in re.split(r'^State \d+:\s*$', text, flags=re.M)[1:] if '"done"' in b]
    with Pool(16) as pool:
        parts = pool.map(_parse_chunk, [blks[i::16] for i in range(16)])
    return [c for p in parts for c in p]


# the specification only compares measures: the same schedule is imposed with measures that are far apart, that differ
# in the 12th digit, and that are tiny or huge in absolute terms (an implementation must not treat "almost equal" as equal)
MEASURES = [lambda k: float(k), lambda k: 1.0 + k * 2.0 ** -40, lambda k: k * 1.0e6, lambda k: k * 1.0e-12, lambda k: 3.0e-7 + k * 1.0e-10]


def scripted_run(beh, rng):
    nm = int(rng.choice([2, 3, 5]))
    mobile, table, tree = make_mobile(rng, nm)
    fixed = rng.normal(size=(int(rng.integers(1, 6)), 3))
    f = MEASURES[int(rng.integers(0, len(MEASURES)))]
    steps = [(k, f(e), acc, f(h)) for k, e, acc, h in beh['steps']]
    obs = Observer(table, script={'e0': f(beh['e0']), 'steps': steps})
    ev = run_loop(obs, fixed, mobile, beh['nSteps'], None, table, tuple(beh['types']))
    return ev, tree, dict(beh, e0=f(beh['e0']), steps=steps)


def compare_scripted(beh, ev):
    """spec -> code: the loop's observable behaviour against the TLC behaviour; None or (what, detail)"""
    if ev and ev[-1]['op'] == 'Overrun':
        return 'loop_continues_after_the_specification_stops', {'at': ev[-1]['at']}
    if ev and ev[-1]['op'] == 'Exception':
        return 'exception:' + ev[-1]['type'], {'text': ev[-1]['text']}
    evals = [e for e in ev if e['op'] in ('Start', 'Eval')]
    judges = [e for e in ev if e['op'] == 'Judge']
    if len(evals) != len(beh['steps']) + 1:
        return 'loop_stops_before_the_specification_does', {'evaluations': len(evals), 'expected': len(beh['steps']) + 1}
    if len(judges) != len(beh['steps']):
        return 'observation_channel', {'judges': len(judges)}
    for i, (j, (k, e, acc, h)) in enumerate(zip(judges, beh['steps'])):
        if (j['e0_f'], j['e1_f']) != (float(h), float(e)):
            return 'judge_inputs_differ_from_specification', {'step': i + 1, 'observed': [j['e0_f'], j['e1_f']],
                                                              'expected': [h, e]}
        if j['verdict'] != acc:
            return 'verdict_differs_from_specification', {'step': i + 1, 'observed': j['verdict'], 'expected': acc}
    ret = ev[-1]
    if ret['op'] != 'Return' or ret['tok'] != evals[beh['ret'] - 1]['tok']:
        got = [i + 1 for i, e in enumerate(evals) if e['tok'] == ret.get('tok')]
        return 'returned_configuration_differs_from_specification', {'returned_eval_index': got, 'expected': beh['ret']}
    return None


def _work_scripted(args):
    behs, part, seed, tid0 = args
    common.import_repo()
    bad = []
    with open(part, 'w') as fh:
        for i, beh in enumerate(behs):
            rng = np.random.default_rng(seed + i)
            ev, tree, fbeh = scripted_run(beh, rng)
            r = compare_scripted(fbeh, ev)
            if r is not None:
                bad.append((beh, r, ev[-6:]))
            tid = tid0 + i
            if ev and ev[-1]['op'] == 'Overrun':
                ev = ev[:-1] + [{'op': 'Choose', 'k': beh['types'][0]}]
            fh.write(json.dumps({'tid': tid, 'cfg': {'nSteps': beh['nSteps'], 'types': beh['types'], 'tree': tree},
                                 'meta': {'mode': 'scripted', 'beh': beh}, 'ev': ev}) + '\n')
    return part, bad


# --------------------------------------------------------------------------- acceptance rule, directly
def direct_rule(run, n):
    """accept_metropolis called directly: per-draw rule with the observed uniform, and frequencies"""
    import gaddlemaps._backend as B
    rng = np.random.default_rng(run.seed + 77)
    real_rand = np.random.rand
    seen = []

    def rand(*shape):
        u = real_rand(*shape)
        if not shape:
            seen.append(u)
        return u
    np.random.rand = rand
    bad = None
    try:
        np.random.seed(run.seed + 5)
        for i in range(n):
            e0 = float(rng.uniform(0.01, 10))
            e1 = e0 if i % 10 == 0 else (float(rng.uniform(0.01, 10)) if i % 3 else e0 * float(rng.uniform(1.0, 1.5)))
            del seen[:]
            v = bool(B.accept_metropolis(e0, e1))
            if e1 <= e0:
                ok = v
            else:
                thr = 0.01 * e0 / e1
                if seen:
                    u = seen[-1]
                    ok = True if abs(u - thr) <= 1e-12 else (v == (u <= thr))
                else:
                    ok = True     # no observable draw: decided by the frequency test below
            if not ok and bad is None:
                bad = {'e0': e0, 'e1': e1, 'verdict': v, 'draw': seen[-1] if seen else None}
        # frequencies: worse by a factor r -> probability 0.01 / r  (6 sigma binomial bounds)
        freq = {}
        for r in (1.0000001, 2.0, 10.0):
            m = 200000
            p = 0.01 / r
            k = sum(bool(B.accept_metropolis(1.0, r)) for _ in range(m))
            sd = math.sqrt(m * p * (1 - p))
            freq[str(r)] = {'accepted': k, 'expected': m * p, 'six_sigma': 6 * sd}
            if abs(k - m * p) > 6 * sd and bad is None:
                bad = {'frequency': r, 'accepted': k, 'expected': m * p}
    finally:
        np.random.rand = real_rand
    run.extra['acceptance_frequencies'] = freq
    if bad:
        run.violation({'check': 'acceptance_rule_direct'}, {'engine': 'montecarlo', 'case': bad})
    run.evaluations += n


def apalache_inductive(run):
    """unbounded complement: Apalache discharges the inductive invariant of spec/ApaMonteCarlo.tla (integer
    measures and budgets of any size): Init => IndInv and IndInv /\\ Next => IndInv'.  Reported in the evidence;
    a tool problem is a note, a refuted invariant is a machinery failure (the specification would be wrong)."""
    import shutil
    import subprocess
    exe = shutil.which('apalache-mc')
    if not exe:
        run.note('apalache-mc not found: inductive invariant not checked')
        return
    spec = os.path.join(tlc.SPEC_DIR, 'ApaMonteCarlo.tla')
    res = {}
    for name, args in (('base', ['--init=Init', '--inv=IndInv', '--length=0']), ('step', ['--init=IndInit', '--inv=IndInv', '--length=1'])):
        out = os.path.join(run.scratch, 'apa_' + name)
        try:
            p = subprocess.run([exe, 'check'] + args + ['--out-dir=' + out, spec], cwd=run.scratch, stdout=subprocess.PIPE,
                               stderr=subprocess.STDOUT, text=True, timeout=600, env=dict(os.environ, JVM_ARGS='-Xmx4g'))
        except subprocess.TimeoutExpired:
            run.note('apalache timed out on the %s case: inductive invariant not established' % name)
            return
        if 'The outcome is: NoError' in p.stdout:
            res[name] = 'NoError'
        elif 'Checker has found an error' in p.stdout:
            raise tlc.TLCError('Apalache refutes IndInv (%s case): the specification is wrong\n%s' % (name, p.stdout[-1500:]))
        else:
            run.note('apalache did not complete the %s case (%s)' % (name, p.stdout.strip().splitlines()[-1][:120] if p.stdout.strip() else 'no output'))
            return
    run.extra['apalache_inductive_invariant'] = dict(res, invariant='IndInv: counter <= nSteps; a step under way => counter < nSteps; '
                                                     'minE <= heldE; proposed kind enabled; done => counter = nSteps /\\ ret = held',
                                                     scope='unbounded integers (measures, budget)')
    run.assumptions.append('Apalache 0.58 established IndInv of ApaMonteCarlo.tla as an inductive invariant (unbounded complement of the TLC runs)')


def check(run):
    common.import_repo()
    quick = run.quick
    apalache_inductive(run)
    # thorough: several bounded configurations instead of one large one (kinds multiply the state space by 2..3 per
    # step without adding bookkeeping behaviour): more measures, longer budgets, every type set
    blist = [(3, 2, '{{0}, {1, 2}}')] if quick else [(4, 2, '{{0}, {1, 2}}'), (3, 3, '{{0}}'), (2, 3, '{{0}, {1, 2}}'),
                                                      (3, 2, '{{2}, {0, 1, 2}}')]
    behs = []
    for bounds in blist:
        res = tlc.run('MC_MonteCarlo', MC_CFG % bounds, run.scratch, workers=16, timeout=3000, dump=True, coverage=True,
                      heap='12g')
        tlc.check_ok(res, 'MC_MonteCarlo', need_actions=('MCStart', 'MCChoose', 'MCEvaluate', 'MCJudgeBetter', 'MCJudgeWorse', 'MCStop'))
        run.add_tlc(res, 'MonteCarlo exhaustive: measures 1..%d (ties), budget <= %d, type sets %s: AbsHeld, AbsMin, AbsCounter, '
                         'AbsRule, KindsEnabled, NeverBeyond, StopExact, NoStepAfterBudget, RejectKeeps' % bounds)
        behs += behaviours_from_dump(res.dump_path)
        os.remove(res.dump_path)
    total = len(behs)
    rng = random.Random(run.seed)
    limit = 40000 if quick else 400000
    if total > limit:
        rng.shuffle(behs)
        behs = behs[:limit]
        run.note('%d of the %d terminal TLC behaviours replayed (seeded sample); TLC checked all' % (limit, total))
    if total < 100:
        raise tlc.TLCError('vacuous MonteCarlo run: %d terminal behaviours' % total)
    jobs = []
    for i in range(16):
        chunk = behs[i::16]
        if chunk:
            jobs.append((chunk, os.path.join(run.scratch, 'mcs%d.ndjson' % i), run.seed * 7919 + i * 1000003, 10 ** 7 + i * 10 ** 6))
    with Pool(16) as pool:
        outs = pool.map(_work_scripted, jobs)
    parts = [o[0] for o in outs]
    for _p, bad in outs:
        for beh, (what, detail), tail in bad:
            run.violation({'check': 'scripted:' + what}, {'engine': 'montecarlo', 'spec': 'MC_MonteCarlo', 'behaviour': beh,
                                                          'detail': detail, 'last_events': tail})
    for beh in behs:
        run.case(('s', beh['nSteps'], tuple(beh['types']), beh['e0'], tuple(beh['steps'])), nontrivial=True)
    run.traces += len(behs)
    run.samples.append({'scripted_schedule': behs[0]})
    # genuine runs
    nrun = 64 if quick else 1500
    items = [(j + 1, run.seed * 1000003 + j) for j in range(nrun)]
    gjobs = [(items[i::16], os.path.join(run.scratch, 'mcg%d.ndjson' % i), 400 if quick else 2000) for i in range(16) if items[i::16]]
    with Pool(16) as pool:
        gparts = pool.map(_work_genuine, gjobs)
    traces = {}
    for p in parts + gparts:
        with open(p) as fh:
            for line in fh:
                t = json.loads(line)
                traces[t['tid']] = t
    verdicts = validate_batches('Trace_MonteCarlo', TRACE_CFG, parts + gparts, run.scratch, timeout=3000, run=run, heap='6g')
    steps_total = 0
    kinds = {}
    for tid, tr in traces.items():
        v = verdicts.get(tid)
        if v is None:
            raise tlc.TLCError('no verdict for trace %r (last events %r)' % (tid, tr['ev'][-2:]))
        mode = tr['meta']['mode']
        if mode == 'genuine':
            if any(e['op'] == 'Eval' for e in tr['ev']) and not any(e['op'] == 'Judge' for e in tr['ev']):
                raise ChannelLost('accept_metropolis is no longer resolved by name at call time')
            run.case(('g', tr['meta']['seed']), nontrivial=True)
            run.traces += 1
            steps_total += tr['meta']['steps']
            for e in tr['ev']:
                if e['op'] == 'Choose':
                    kinds[e['k']] = kinds.get(e['k'], 0) + 1
        if v[0] == 'ACC':
            continue
        e = tr['ev'][v[2] - 1] if 0 < v[2] <= len(tr['ev']) else {}
        sig = {'check': 'trace:' + v[3], 'mode': mode}
        rec = {'engine': 'montecarlo', 'spec': 'Trace_MonteCarlo', 'failing_clause': v[3], 'event_index': v[2], 'event': e,
               'cfg': tr['cfg'], 'meta': tr['meta'], 'events_before': tr['ev'][max(0, v[2] - 8):v[2]]}
        run.violation(sig, rec)
    direct_rule(run, 20000 if quick else 200000)
    run.rule = ('cases = schedules of the search: every terminal behaviour of MC_MonteCarlo (kind, measure, draw outcome per step) '
                'imposed on the real loop, and genuine seeded runs (random molecule pairs, type subsets, budgets, restraints) '
                'recorded and validated by TLC')
    run.extra.update({'tlc_terminal_behaviours': total, 'scripted_replayed': len(behs), 'genuine_runs': nrun,
                      'genuine_steps': steps_total, 'genuine_kind_counts': kinds})
    run.assumptions += ['pure-Python backend', 'a proposal has a positive overlap measure (e1 > 0)',
                        'single-atom moves only for a mobile molecule of at least two bonded atoms']


def main_c09(run):
    if run.replay:
        return replay(run)
    check(run)


def replay(run):
    common.import_repo()
    rec = json.load(open(run.replay))
    if 'behaviour' in rec:
        beh = rec['behaviour']
        beh['steps'] = [tuple(s) for s in beh['steps']]
        for i in range(5):
            ev, _, fbeh = scripted_run(beh, np.random.default_rng(i))
            r = compare_scripted(fbeh, ev)
            if r:
                run.violation({'check': 'scripted:' + r[0]}, {'behaviour': beh, 'detail': r[1]})
                break
    else:
        seed = rec['meta']['seed']
        part = os.path.join(run.scratch, 'r.ndjson')
        _work_genuine(([(1, seed)], part, 2000 if rec.get('tier') == 'thorough' else 400))
        verdicts = validate_batches('Trace_MonteCarlo', TRACE_CFG, [part], run.scratch, run=run)
        v = verdicts.get(1)
        if v and v[0] != 'ACC':
            run.violation({'check': 'trace:' + v[3], 'mode': 'genuine'}, {'failing_clause': v[3], 'meta': rec['meta']})
    run.states = max(run.states, 1)
    run.transitions = max(run.transitions, 1)
    run.samples.append({'replayed': run.replay})
