"""Engine `restraints` (C10): restraint pairs always designate the atoms the user (or the guesser)
meant; per-species options reach exactly their species.

spec/Restraints.tla: Route (role swap + hydrogen filter, Abs = pairs in atom identities, Alg =
re-based row indices), the residue splitter / protein guesser predicates (Covers, InRange, Monotone,
same sequence position) and the Manager option routing.  MC_Restraints.tla enumerates every case of
four sub-models; TLC proves the refinements and emits the expected outcome of each case, which is
replayed on the real Alignment / Manager with a stub optimiser that records what it receives
(atoms are identified by their coordinates, never through an index map of the code under test).
Random larger cases are recorded and validated by TLC against Trace_Restraints.tla.
"""
import contextlib
import io
import json
import os
import random
import re
from multiprocessing import Pool

import numpy as np

from .. import common, tlc, tlaval, synth
from ..traces import validate_batches

MC_CFG = """SPECIFICATION MCSpec
CONSTANTS
  Mode = "%s"
  MaxN = %d
  MaxRestr = %d
  MaxL = 40
  MaxR = %d
  MaxA = 3
INVARIANT RouteRefines
INVARIANT SplitRefines
INVARIANT ProteinRefines
INVARIANT ManagerTotal
CHECK_DEADLOCK FALSE
"""
TRACE_CFG = "SPECIFICATION TraceSpec\nINVARIANT Accepted\nCHECK_DEADLOCK FALSE\n"


# --------------------------------------------------------------------------- molecules and the stub optimiser
def chain_molecule(workdir, name, n, hset, offset, resname=None, residues=None, style=0):
    """chain of n atoms at distinct lattice points; atoms in hset (1-based) are hydrogens"""
    workdir = os.path.join(os.path.dirname(workdir), 'p%d' % os.getpid(), os.path.basename(workdir))
    names = [('H%d' if (i + 1) in hset else 'C%d') % (i + 1) for i in range(n)]
    if residues is not None and len({r[0] for r in residues}) < len({r for r in residues}):
        # residue names recur: atoms are named by their place in the residue, as in a protein (two residues of one name
        # and size are the same residue kind, with the same atom names)
        names, k, last = [], 0, None
        for r in residues:
            k = k + 1 if r == last else 1
            last = r
            names.append('C%d' % k)
    if style == 0:
        pos = [(offset[0] + 0.125 * i, offset[1] + 0.125 * ((i * i) % 3), offset[2] + 0.125 * (i % 2)) for i in range(n)]
    else:       # a different shape, so that a start moved onto an end of equal size never coincides with it
        pos = [(offset[0] + 0.25 * i, offset[1] + 0.125 * ((3 * i) % 4), offset[2] + 0.375 * ((i + 1) % 3)) for i in range(n)]
    return synth.make_molecule(workdir, name, names, [(i, i + 1) for i in range(1, n)], pos, resname=resname, residues=residues)


class Stub:
    """replacement of gaddlemaps._alignment.minimize_molecules: records its arguments, returns the
    mobile array unchanged"""

    def __init__(self):
        self.calls = []
        self.hook = None

    def __call__(self, mol1, mol2, com, sigma, n_steps, restr, table, width, types):
        call = {'mol1': np.array(mol1, float), 'mol2': np.array(mol2, float), 'restr': [tuple(int(x) for x in r) for r in restr],
                'types': None if types is None else tuple(int(t) for t in types), 'n_steps': n_steps}
        if self.hook:
            self.hook(call)
        self.calls.append(call)
        return np.array(mol2, float)

    def __enter__(self):
        import gaddlemaps._alignment as A
        self.A = A
        self.saved = A.minimize_molecules
        A.minimize_molecules = self
        return self

    def __exit__(self, *exc):
        self.A.minimize_molecules = self.saved
        return False


def decode(call, aS, aE):
    """what the optimiser received, in atom identities (1-based), decided by coordinates"""
    def rows_of(rows, pos):
        out = []
        for r in rows:
            hit = [i for i, p in enumerate(pos) if np.array_equal(r, p)]
            if len(hit) != 1:
                return None
            out.append(hit[0] + 1)
        return out
    inS, inE = rows_of(call['mol1'], aS), rows_of(call['mol1'], aE)
    if inS is not None and inE is None:
        fixed, rows, mob = 'start', inS, aE
    elif inE is not None and inS is None:
        fixed, rows, mob = 'end', inE, aS
    else:
        return {'fixed': 'unobserved', 'rows': [], 'delivered': [], 'mobileRowsOK': False}
    ok = call['mol2'].shape == mob.shape and bool(np.array_equal(call['mol2'], mob))
    deliv = []
    for f, m in call['restr']:
        a = rows[f] if 0 <= f < len(rows) else -1
        deliv.append([a, m + 1])
    return {'fixed': fixed, 'rows': rows, 'delivered': deliv, 'mobileRowsOK': ok}


def route_observe(start, end, restr0, ignoreH, types=None):
    """run the real align_molecules with the stub; restr0 = 0-based user pairs or None"""
    from gaddlemaps import Alignment
    ali = Alignment(start, end)
    seen = {}
    stub = Stub()

    def hook(call):
        seen['aS'], seen['aE'] = ali.start.atoms_positions.copy(), ali.end.atoms_positions.copy()
    stub.hook = hook
    with stub, contextlib.redirect_stdout(io.StringIO()):
        ali.align_molecules(restr0, types, ignoreH)
    if not stub.calls:
        return {'called': False, 'fixed': 'none', 'rows': [], 'delivered': [], 'mobileRowsOK': True, 'types': []}
    if len(stub.calls) != 1:
        raise common.MachineryError('optimiser entered %d times' % len(stub.calls))
    d = decode(stub.calls[0], seen['aS'], seen['aE'])
    d['called'] = True
    d['types'] = sorted(set(stub.calls[0]['types'] or ()))
    return d


# --------------------------------------------------------------------------- TLC cases
def _plain(v):
    if isinstance(v, (tuple, list)):
        return [_plain(x) for x in v]
    if isinstance(v, frozenset):
        return sorted((_plain(x) for x in v), key=repr)
    if isinstance(v, dict):
        return {str(k): _plain(x) for k, x in v.items()}
    return v


def _parse_chunk(blks):
    out = []
    for b in blks:
        st = tlaval.parse_state(b)
        if st.get('phase') == 'done':
            out.append({'cs': _plain(st['cs']), 'res': _plain(st['res'])})
    return out


def cases_from_dump(path, limit, rng):
    with open(path) as fh:
        text = fh.read()
    blks = [b.strip() for b in re.split(r'^State \d+:\s*$', text, flags=re.M)[1:] if '"done"' in b]
    total = len(blks)
    if limit and total > limit:
        rng.shuffle(blks)
        blks = blks[:limit]
    with Pool(16) as pool:
        parts = pool.map(_parse_chunk, [blks[i::16] for i in range(16)])
    return [c for p in parts for c in p], total


# --------------------------------------------------------------------------- replay: route
def _replay_route(args):
    cases, workdir = args
    common.import_repo()
    bad = []
    cache = {}
    for c in cases:
        cs, exp = c['cs'], c['res']
        key = (cs['nS'], cs['nE'], tuple(cs['hS']), tuple(cs['hE']))
        if key not in cache:
            tag = 'r%d_%d_%s_%s' % (cs['nS'], cs['nE'], ''.join(map(str, cs['hS'])), ''.join(map(str, cs['hE'])))
            cache[key] = (chain_molecule(os.path.join(workdir, tag), 'MS', cs['nS'], set(cs['hS']), (0.0, 0.0, 0.0)),
                          chain_molecule(os.path.join(workdir, tag), 'ME', cs['nE'], set(cs['hE']), (3.0, 1.0, -2.0), style=1))
        start, end = cache[key]
        restr0 = [(i - 1, j - 1) for i, j in cs['restr']]
        try:
            variants = [restr0] if restr0 else [None, []]
            for rv in variants:
                obs = common.guarded(route_observe, 60, start, end, rv, cs['ignoreH'])
                why = None
                if obs['called'] != exp['called']:
                    why = 'optimiser_called'
                elif obs['called']:
                    if (obs['fixed'] == 'start') != exp['fixedIsStart']:
                        why = 'fixed_molecule'
                    elif obs['rows'] != exp['rows']:
                        why = 'fixed_rows'
                    elif obs['delivered'] != exp['abs']:
                        why = 'pairs_designate_other_atoms'
                    elif not obs['mobileRowsOK']:
                        why = 'mobile_rows'
                    elif obs['types'] != exp['types']:
                        why = 'default_deformation_types'
                if why:
                    bad.append((c, {'check': 'route:' + why, 'swap': not exp['fixedIsStart'], 'ignoreH': cs['ignoreH']},
                                {'observed': obs, 'expected': exp}))
                    break
        except Exception as exc:
            import traceback
            bad.append((c, {'check': 'route:exception', 'type': type(exc).__name__}, {'text': traceback.format_exc()[-600:]}))
    return bad


# --------------------------------------------------------------------------- replay: manager
SPECIES = {'A': dict(nS=3, nE=5, hS=set(), hE={2, 4}, valid=[(1, 2), (3, 5), (2, 1), (1, 4), (3, 5)]),       # a pair may be listed more than once (a heavier weight)
           'B': dict(nS=6, nE=4, hS={1, 5}, hE=set(), valid=[(5, 1), (2, 3), (6, 4), (1, 1), (2, 2), (5, 1), (5, 1)])}
BAD_RESTR = [5, [(0, 1, 2)], [(99, 0)], [(0, 99)], [3]]
BAD_DEFORM = [5, (0, 1, 2, 0)]
BAD_IGN = ['yes', 1, None]


def build_manager(workdir):
    from gaddlemaps import Manager
    from gaddlemaps.components import Molecule
    os.makedirs(workdir, exist_ok=True)
    recs = []
    nr = [0]

    def add(resname, names, resid, base):
        for k, an in enumerate(names):
            nr[0] += 1
            recs.append((resid, resname, an, nr[0], (base + 0.125 * k, 0.25 * (k % 3), 0.125 * resid)))
    spec = {'A': ['C1', 'C2', 'C3'], 'B': ['H1', 'C2', 'C3', 'C4', 'H5', 'C6'], 'D': ['C1', 'C2']}
    order = ['A', 'B', 'D', 'W', 'B', 'A', 'W', 'D', 'A']
    for rid, s in enumerate(order, 1):
        if s == 'W':
            add('WAT', ['OW'], rid, 1.0 * rid)
        else:
            add(s * 3, spec[s], rid, 1.0 * rid)
    gro = os.path.join(workdir, 'system.gro')
    synth.write_gro(gro, recs, box=(20.0, 20.0, 20.0))
    itps = []
    for s, names in spec.items():
        itp = os.path.join(workdir, s + '_start.itp')
        synth.write_itp(itp, s, [(an, s * 3, 1) for an in names], [(i, i + 1) for i in range(1, len(names))])
        itps.append(itp)
    man = Manager.from_files(gro, *itps)
    for s, sp in SPECIES.items():
        end = chain_molecule(os.path.join(workdir, 'end' + s), s, sp['nE'], sp['hE'], (5.0, 5.0, 5.0), resname=s * 3, style=1)
        if s == 'A':
            man.add_end_molecule(end)
            _ = man.complete_correspondence, man.parse_restrictions(None)      # the manager is used once ...
        else:
            man.molecule_correspondence[s].end = end                            # ... before the other end is attached through its Alignment
    return man


def py_options(cs, salt):
    """python option dictionaries of the shapes the TLC case prescribes"""
    def mk(d, kind):
        if not d['given']:
            return None
        out = {}
        for s in ('A', 'B'):
            e = d['entry'][s]
            if e == 'absent':
                continue
            if kind == 'restr':
                # malformed values, including the boundary: an index equal to the number of atoms (0-based: one too many)
                bad = BAD_RESTR + [[(SPECIES[s]['nS'], 0)], [(0, SPECIES[s]['nE'])], [(0, 0), (SPECIES[s]['nS'] - 1, SPECIES[s]['nE'])]]
                out[s] = {'none': None if salt % 2 else [], 'valid': [(i - 1, j - 1) for i, j in SPECIES[s]['valid']],
                          'bad': bad[salt % len(bad)]}[e]
            elif kind == 'deform':
                out[s] = {'none': None if salt % 2 else (), 'valid': (0, 1) if s == 'A' else (0,), 'bad': BAD_DEFORM[salt % len(BAD_DEFORM)]}[e]
            else:
                out[s] = {'none': True, 'valid': False, 'bad': BAD_IGN[salt % len(BAD_IGN)]}[e]
        if d['extra'] == 'unknown':
            # not the name of a species of the system, however close to the names that are (part of one, several joined)
            unk = ['ZZZ', '', 'AB', 'A B', 'A, B', 'a', 'BA', "A', 'B", 'A\nB', 'A,B'][salt % 10]
            out[unk] = None if kind != 'ignoreH' else True
        elif d['extra'] == 'incomplete':
            out['D'] = None if kind != 'ignoreH' else True
        return out
    return mk(cs['restr'], 'restr'), mk(cs['deform'], 'deform'), mk(cs['ignoreH'], 'ignoreH')


def _replay_manager(args):
    cases, workdir, wid = args
    common.import_repo()
    man = build_manager(os.path.join(workdir, 'man%d' % wid))
    bad = []
    for n, c in enumerate(cases):
        cs, exp = c['cs'], c['res']
        restr, deform, ign = py_options(cs, n + wid)
        stub = Stub()
        seen = []

        def hook(call):
            s = 'A' if len(call['mol2']) == 3 else 'B' if len(call['mol2']) == 4 else '?'
            ali = man.molecule_correspondence.get(s)
            seen.append((s, ali.start.atoms_positions.copy(), ali.end.atoms_positions.copy()) if ali else (s, None, None))
        stub.hook = hook
        exc = None
        try:
            with stub, contextlib.redirect_stdout(io.StringIO()):
                if cs['pre'] == 'no':
                    man.align_molecules(restr, deform, ign)
                else:
                    parsed = man.parse_restrictions(restr)
                    keys = {'rev': ['B', 'A'], 'onlyA': ['A'], 'onlyB': ['B']}[cs['pre']]
                    man.align_molecules({k: parsed[k] for k in keys}, deform, ign, parse_restrictions=False)
        except Exception as e:            # noqa
            exc = e
        why = None
        detail = {}
        if exp['rejected']:
            if exc is None:
                why = 'malformed_or_unknown_option_accepted'
            elif stub.calls:
                why = 'alignment_ran_before_rejection'
        elif exc is not None:
            why = 'valid_options_rejected'
            detail = {'exception': repr(exc)[:300]}
        else:
            got = sorted(s for s, _a, _b in seen)
            if got != exp['aligned']:
                why = 'each_complete_species_aligned_once'
                detail = {'aligned': got}
            else:
                for call, (s, aS, aE) in zip(stub.calls, seen):
                    d = decode(call, aS, aE)
                    e = exp['delivered'][s]
                    types = sorted(set(call['types'] or ()))
                    if (d['fixed'] == 'start') != e['fixedIsStart'] or d['rows'] != e['rows']:
                        why = 'hydrogen_option_reached_other_species'
                    elif d['delivered'] != e['restr']:
                        why = 'restraints_reached_other_species_or_atoms'
                    elif types != e['types']:
                        why = 'deformation_types_reached_other_species'
                    if why:
                        detail = {'species': s, 'observed': {'fixed': d['fixed'], 'rows': d['rows'], 'delivered': d['delivered'], 'types': types},
                                  'expected': e}
                        break
        if why:
            bad.append((c, {'check': 'manager:' + why}, dict(detail, options=repr((restr, deform, ign))[:500])))
    return bad


# --------------------------------------------------------------------------- recorded traces
def _work_random(args):
    items, part, workdir = args
    common.import_repo()
    from gaddlemaps import guess_residue_restrains, guess_protein_restrains
    with open(part, 'w') as fh:
        for tid, kind, seed in items:
            rng = np.random.default_rng(seed)
            meta = {'kind': kind, 'seed': seed}
            try:
                if kind == 'split':
                    l1, l2 = int(rng.integers(1, 41)), int(rng.integers(1, 41))
                    o1, o2 = int(rng.integers(0, 50)), int(rng.integers(0, 50))
                    r1 = chain_molecule(os.path.join(workdir, 's%d' % l1), 'X', l1, set(), (0, 0, 0)).residues[0]
                    r2 = chain_molecule(os.path.join(workdir, 's%d' % l2), 'X', l2, set(), (0, 0, 0)).residues[0]
                    first = guess_residue_restrains(r1, r2, o1, o2)
                    del first[:]                      # the returned list belongs to the caller
                    pairs = guess_residue_restrains(r1, r2, o1, o2)
                    ev = [{'op': 'Split', 'l1': l1, 'l2': l2, 'o1': o1, 'o2': o2, 'pairs': [[int(i), int(j)] for i, j in pairs]}]
                elif kind == 'protein':
                    n1 = int(rng.integers(2, 13))
                    n2 = n1 if rng.random() < 0.8 else int(rng.integers(2, 13))
                    lens1 = [int(x) for x in rng.integers(1, 10, n1)]
                    lens2 = [int(x) for x in rng.integers(1, 10, n2)]
                    mols = []
                    for w, lens in enumerate((lens1, lens2)):
                        residues = []
                        for r, ln in enumerate(lens, 1):
                            residues += [(('ALA', 'GLY', 'ARG')[(r * 7 + tid) % 3] if tid % 2 else 'R%02d' % r, r)] * ln     # residue names recur along the chain, with any sizes
                        mols.append(chain_molecule(os.path.join(workdir, 'p%d_%d' % (tid, w)), 'PR', sum(lens), set(), (0, 0, 0),
                                                   residues=residues, style=w))
                    try:
                        pairs = guess_protein_restrains(mols[0], mols[1])
                        ev = [{'op': 'Protein', 'lens1': lens1, 'lens2': lens2, 'outcome': 'pairs',
                               'pairs': [[int(i), int(j)] for i, j in pairs]}]
                    except OSError:
                        ev = [{'op': 'Protein', 'lens1': lens1, 'lens2': lens2, 'outcome': 'error', 'pairs': []}]
                    # an explicitly empty list is the user's list: nothing is guessed, whatever the residue structure
                    if sum(lens1) != 1 and sum(lens2) != 1 and (tid // 4) % 2 == 0:
                        obs = route_observe(mols[0], mols[1], [] if (tid // 8) % 2 else (), False)
                        ev.append({'op': 'Route', 'nS': sum(lens1), 'nE': sum(lens2), 'hS': [], 'hE': [],
                                   'restr': [], 'ignoreH': False, 'called': obs['called'],
                                   'fixed': obs['fixed'], 'delivered': obs['delivered'], 'rows': obs['rows'],
                                   'mobileRowsOK': obs['mobileRowsOK']})
                    # the same through align_molecules with restrictions=None (auto guess for multi-residue molecules)
                    if ev[0]['outcome'] == 'pairs' and sum(lens1) != 1 and sum(lens2) != 1:
                        obs = route_observe(mols[0], mols[1], None, False)
                        ev.append({'op': 'Route', 'nS': sum(lens1), 'nE': sum(lens2), 'hS': [], 'hE': [],
                                   'restr': [[i + 1, j + 1] for i, j in pairs], 'ignoreH': False, 'called': obs['called'],
                                   'fixed': obs['fixed'], 'delivered': obs['delivered'], 'rows': obs['rows'],
                                   'mobileRowsOK': obs['mobileRowsOK']})
                else:
                    nS, nE = int(rng.integers(1, 41)), int(rng.integers(1, 41))
                    if rng.random() < 0.15:
                        nE = nS
                    hS = set(int(x) for x in np.nonzero(rng.random(nS) < 0.4)[0] + 1)
                    hE = set(int(x) for x in np.nonzero(rng.random(nE) < 0.4)[0] + 1)
                    if len(hS) == nS:
                        hS.discard(1)
                    if len(hE) == nE:
                        hE.discard(1)
                    start = chain_molecule(os.path.join(workdir, 'a%d' % tid), 'MS', nS, hS, (0, 0, 0))
                    end = chain_molecule(os.path.join(workdir, 'a%d' % tid), 'ME', nE, hE, (3.0, -2.0, 1.0), style=1)
                    restr = [(int(rng.integers(0, nS)), int(rng.integers(0, nE))) for _ in range(int(rng.integers(0, 11)))]
                    if restr and rng.random() < 0.3:
                        restr.append(restr[0])
                    ign = bool(rng.random() < 0.6)
                    given = restr if restr else None
                    if given and tid % 3 == 0:
                        given = [list(p_) for p_ in given]          # pairs written as lists instead of tuples
                    obs = common.guarded(route_observe, 60, start, end, given, ign)
                    ev = [{'op': 'Route', 'nS': nS, 'nE': nE, 'hS': sorted(hS), 'hE': sorted(hE),
                           'restr': [[i + 1, j + 1] for i, j in restr], 'ignoreH': ign, 'called': obs['called'],
                           'fixed': obs['fixed'], 'delivered': obs['delivered'], 'rows': obs['rows'],
                           'mobileRowsOK': obs['mobileRowsOK']}]
            except Exception as exc:
                import traceback
                ev = [{'op': 'Exception', 'type': type(exc).__name__, 'text': traceback.format_exc()[-700:]}]
            fh.write(json.dumps({'tid': tid, 'meta': meta, 'ev': ev}) + '\n')
    return part


def check(run):
    common.import_repo()
    quick = run.quick
    rng = random.Random(run.seed)
    workdir = os.path.join(run.scratch, 'mols')
    bounds = {'route': (3, 2, 3) if quick else (4, 2, 3), 'split': (3, 2, 3), 'protein': (3, 2, 3 if quick else 4), 'manager': (3, 2, 3)}
    cases = {}
    for mode in ('route', 'split', 'protein', 'manager'):
        res = tlc.run('MC_Restraints', MC_CFG % ((mode,) + bounds[mode]), run.scratch, workers=16, timeout=3000, dump=True,
                      coverage=False, heap='8g')
        tlc.check_ok(res, 'MC_Restraints/' + mode)
        run.add_tlc(res, 'Restraints %s: RouteRefines, SplitRefines, ProteinRefines, ManagerTotal' % mode)
        limit = {'route': 0, 'split': 0, 'protein': 0, 'manager': 4000 if quick else 0}[mode]
        cases[mode], total = cases_from_dump(res.dump_path, limit, rng)
        os.remove(res.dump_path)
        run.extra['tlc_cases_' + mode] = total
        if total < 100:
            raise tlc.TLCError('vacuous %s model: %d cases' % (mode, total))
    # spec -> code: route and manager cases with TLC's expected outcome
    with Pool(16) as pool:
        bads = pool.map(_replay_route, [(cases['route'][i::16], workdir) for i in range(16)])
        badm = pool.map(_replay_manager, [(cases['manager'][i::16], workdir, i) for i in range(16)])
    for chunk in bads + badm:
        for c, sig, extra in chunk:
            run.violation(sig, dict({'engine': 'restraints', 'spec': 'MC_Restraints', 'case': c}, **extra))
    for mode in ('route', 'manager'):
        for c in cases[mode]:
            run.case((mode, json.dumps(c['cs'], sort_keys=True)), nontrivial=True)
        run.traces += len(cases[mode])
    run.samples.append({'route_case': cases['route'][len(cases['route']) // 2]})
    # split / protein cases of TLC on the real guessers, observed lists validated by TLC; plus random traces
    items = []
    tid = 0
    nrand = 300 if quick else 6000
    for j in range(nrand):
        tid += 1
        items.append((tid, ['route', 'route', 'protein', 'split'][j % 4], run.seed * 1000003 + j))
    jobs = [(items[i::16], os.path.join(run.scratch, 'rs%d.ndjson' % i), workdir) for i in range(16) if items[i::16]]
    with Pool(16) as pool:
        parts = pool.map(_work_random, jobs)
        parts.append(pool.apply(_work_enumerated, ((cases['split'], cases['protein']), os.path.join(run.scratch, 'rsE.ndjson'), workdir)))
    traces = {}
    for p in parts:
        with open(p) as fh:
            for line in fh:
                t = json.loads(line)
                traces[t['tid']] = t
    verdicts = validate_batches('Trace_Restraints', TRACE_CFG, parts, run.scratch, timeout=3000, run=run, heap='6g')
    notes = 0
    kinds = {}
    for tid, tr in traces.items():
        v = verdicts.get(tid)
        if v is None:
            raise tlc.TLCError('no verdict for trace %r' % tid)
        k = tr['meta']['kind']
        kinds[k] = kinds.get(k, 0) + 1
        run.case((k, tr['meta'].get('seed'), tr['meta'].get('case')), nontrivial=True)
        run.traces += 1
        notes += len(verdicts.notes.get(tid, []))
        if v[0] == 'ACC':
            continue
        e = tr['ev'][v[2] - 1] if 0 < v[2] <= len(tr['ev']) else {}
        run.violation({'check': 'trace:' + v[3], 'kind': k},
                      {'engine': 'restraints', 'spec': 'Trace_Restraints', 'failing_clause': v[3], 'event': e, 'meta': tr['meta']})
    if notes:
        run.note('%d guessed lists satisfy the property but differ from the contiguous grouping of the Alg layer' % notes)
    run.rule = ('cases = (sizes, hydrogen mask, restraint list, ignore_hydrogens) routed through the real align_molecules with a '
                'recording stub optimiser; all 40x40 residue splits; residue-length sequences for the protein guesser; '
                'option-dictionary shapes through the real Manager')
    run.extra.update({'trace_kinds': kinds})
    run.assumptions += ['restraint indices non-negative and in range', 'hydrogens are atoms named H<digits>',
                        'multi-residue molecules have equal residue names at equal positions']


def _work_enumerated(cases, part, workdir):
    """TLC's split and protein cases on the real guessers"""
    common.import_repo()
    from gaddlemaps import guess_residue_restrains, guess_protein_restrains
    split, protein = cases
    res_cache = {}

    def residue(n):
        if n not in res_cache:
            res_cache[n] = chain_molecule(os.path.join(workdir, 'e%d' % n), 'X', n, set(), (0, 0, 0)).residues[0]
        return res_cache[n]
    tid = 5 * 10 ** 6
    with open(part, 'w') as fh:
        for c in split:
            cs = c['cs']
            tid += 1
            try:
                pairs = guess_residue_restrains(residue(cs['l1']), residue(cs['l2']), cs['o1'], cs['o2'])
                ev = [{'op': 'Split', 'l1': cs['l1'], 'l2': cs['l2'], 'o1': cs['o1'], 'o2': cs['o2'],
                       'pairs': [[int(i), int(j)] for i, j in pairs]}]
            except Exception as exc:
                ev = [{'op': 'Exception', 'type': type(exc).__name__, 'text': repr(exc)[:300]}]
            fh.write(json.dumps({'tid': tid, 'meta': {'kind': 'split_enum', 'case': [cs['l1'], cs['l2'], cs['o1'], cs['o2']]}, 'ev': ev}) + '\n')
        for c in protein:
            cs = c['cs']
            tid += 1
            try:
                mols = []
                for w, lens in enumerate((cs['lens1'], cs['lens2'])):
                    residues = []
                    for r, ln in enumerate(lens, 1):
                        residues += [(('ALA', 'GLY', 'ARG')[(r * 7 + tid) % 3] if tid % 2 else 'R%02d' % r, r)] * ln     # residue names recur along the chain, with any sizes
                    mols.append(chain_molecule(os.path.join(workdir, 'q%d_%d' % (tid, w)), 'PR', sum(lens), set(), (0, 0, 0), residues=residues))
                pairs = guess_protein_restrains(mols[0], mols[1])
                ev = [{'op': 'Protein', 'lens1': cs['lens1'], 'lens2': cs['lens2'], 'outcome': 'pairs',
                       'pairs': [[int(i), int(j)] for i, j in pairs]}]
            except Exception as exc:
                ev = [{'op': 'Exception', 'type': type(exc).__name__, 'text': repr(exc)[:300]}]
            fh.write(json.dumps({'tid': tid, 'meta': {'kind': 'protein_enum', 'case': [cs['lens1'], cs['lens2']]}, 'ev': ev}) + '\n')
    return part


def main_c10(run):
    if run.replay:
        return replay(run)
    check(run)


def replay(run):
    common.import_repo()
    rec = json.load(open(run.replay))
    workdir = os.path.join(run.scratch, 'mols')
    if 'case' in rec and rec['signature']['check'].startswith('route:'):
        bad = _replay_route(([rec['case']], workdir))
    elif 'case' in rec:
        bad = _replay_manager(([rec['case']], workdir, 0))
    else:
        part = _work_random(([(1, rec['meta']['kind'], rec['meta']['seed'])], os.path.join(run.scratch, 'r.ndjson'), workdir))
        v = validate_batches('Trace_Restraints', TRACE_CFG, [part], run.scratch, run=run).get(1)
        bad = [] if (v and v[0] == 'ACC') else [(None, {'check': 'trace:' + (v[3] if v else '?')}, {})]
    for c, sig, extra in bad:
        run.violation(sig, dict({'case': c}, **extra))
    run.states, run.transitions = max(run.states, 1), max(run.transitions, 1)
    run.samples.append({'replayed': run.replay})
