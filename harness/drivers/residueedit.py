"""Extension engine `residueedit` (X03, not a listed property): the editing interface of coordinate-side residues.

spec/ResidueEdit.tla: a growing sequence of Residue objects; set_resname / set_resid / set_ids / move / remove change
one object in place, add / add_atom / copy create a new object from copies; a refused operation changes nothing;
objects never share atoms.  Every history of MaxOps operations from every initial residue of 1..3 atoms is replayed
on real Residue / AtomGro objects and the abstract state of EVERY object is compared after each step.
"""
import json
import os
import random
import re
import warnings
from multiprocessing import Pool

import numpy as np

from .. import common, tlc, tlaval

MC_CFG = """SPECIFICATION Spec
CONSTANTS
  MaxOps = %d
  MaxObjs = 3
  Inits <- MC_Inits
INVARIANT Homogeneous
INVARIANT NamesFit
PROPERTY OnlyTheTarget
PROPERTY RefusedChangesNothing
PROPERTY CopyEqual
CHECK_DEADLOCK FALSE
"""


def _atom(a):
    return [a['n'], a['rn'], int(a['rid']), int(a['id']), int(a['x'])]


def _parse_chunk(args):
    blks, maxops = args
    out = []
    for b in blks:
        st = tlaval.parse_state(b)
        if len(st['hist']) == maxops:
            h = []
            for x in st['hist']:
                x = dict(x)
                h.append({'op': x['op'], 'a': int(x['a']), 'arg': list(x['arg']), 'out': x['out'],
                          'objs': [[_atom(dict(a)) for a in r] for r in x['objs']],
                          'eq': [[bool(v) for v in row] for row in x['eq']]})
            out.append({'init': [_atom(dict(a)) for a in st['init0']], 'hist': h})
    return out


def project(res):
    return [[a.name, a.resname, int(a.resid), int(a.atomid), int(round(float(a.position[0])))] for a in res]


def replay(beh):
    from gaddlemaps.components import Residue, AtomGro
    objs = [Residue([AtomGro([rid, rn, n, i, float(x), 0.5, -0.25]) for n, rn, rid, i, x in beh['init']])]
    for step, h in enumerate(beh['hist'], 1):
        out = 'ok'
        r = objs[h['a'] - 1]
        try:
            with warnings.catch_warnings():
                warnings.simplefilter('ignore')
                if h['op'] == 'set_resname':
                    r.resname = h['arg'][0]
                elif h['op'] == 'set_resid':
                    r.resid = int(h['arg'][0])
                elif h['op'] == 'move':
                    r.move(np.array([float(h['arg'][0]), 0.0, 0.0]))
                elif h['op'] == 'set_ids':
                    r.atoms_ids = [int(v) for v in h['arg']]
                elif h['op'] == 'remove':
                    r.remove_atom(r[int(h['arg'][0]) - 1])
                elif h['op'] == 'add':
                    objs.append(r + objs[int(h['arg'][0]) - 1])
                elif h['op'] == 'add_atom':
                    objs.append(r + objs[int(h['arg'][0]) - 1][int(h['arg'][1]) - 1])
                elif h['op'] == 'copy':
                    objs.append(r.copy())
        except (ValueError, IndexError) as exc:
            out = type(exc).__name__
        except Exception as exc:
            import traceback
            return ({'check': 'residueedit:exception:' + type(exc).__name__, 'op': h['op']},
                    {'step': step, 'text': traceback.format_exc()[-400:]})
        got = {'out': out, 'objs': [project(o) for o in objs],
               'eq': [[bool(a == b) for b in objs] for a in objs]}
        want = {'out': h['out'], 'objs': h['objs'], 'eq': h['eq']}
        if got != want:
            bad = [k for k in got if got[k] != want[k]]
            return ({'check': 'residueedit:differs_from_specification', 'op': h['op'], 'what': bad[0]},
                    {'step': step, 'observed': got, 'expected': want})
        # other coordinates and the velocities ride along unchanged
        for o in objs:
            if any(abs(float(a.position[1]) - 0.5) > 1e-12 or abs(float(a.position[2]) + 0.25) > 1e-12 for a in o):
                return ({'check': 'residueedit:other_coordinates_changed', 'op': h['op']}, {'step': step})
    return None


def _work(behs):
    common.import_repo()
    return [replay(b) for b in behs]


def main_x03(run):
    common.import_repo()
    depth = 3 if run.quick else 4
    res = tlc.run('MC_ResidueEdit', MC_CFG % depth, run.scratch, workers=16, timeout=3000, dump=True, coverage=True)
    tlc.check_ok(res, 'MC_ResidueEdit', need_actions=('DoSetResname', 'DoSetResid', 'DoMove', 'DoSetIds', 'DoRemove', 'DoAdd', 'DoAddAtom', 'DoCopy'))
    run.add_tlc(res, 'ResidueEdit exhaustive: initial residues of 1..3 atoms, histories of %d operations, at most 3 objects' % depth)
    with open(res.dump_path) as fh:
        text = fh.read()
    os.remove(res.dump_path)
    blks = [b.strip() for b in re.split(r'^State \d+:\s*$', text, flags=re.M)[1:]]
    del text
    leaves = [b for b in blks if len(re.findall(r'(?<![a-z])op \|->', b)) == depth]
    rng = random.Random(run.seed)
    limit = 12000 if run.quick else 120000
    total = len(leaves)
    if total > limit:
        rng.shuffle(leaves)
        leaves = leaves[:limit]
    with Pool(16) as pool:
        behs = [b for p in pool.map(_parse_chunk, [(leaves[i::16], depth) for i in range(16)]) for b in p]
    with Pool(16) as pool:
        results = pool.map(_work, [behs[i::16] for i in range(16)])
    for chunk, rs in zip([behs[i::16] for i in range(16)], results):
        for b, r in zip(chunk, rs):
            ops = [(h['op'], h['a'], h['arg']) for h in b['hist']]
            run.case(json.dumps([b['init'], ops]), nontrivial=True,
                     sample={'init': b['init'], 'history': ops} if len(run.samples) < 3 else None)
            run.traces += 1
            if r:
                run.violation(r[0], dict({'engine': 'residueedit', 'init': b['init'], 'history': ops}, **r[1]))
    run.rule = ('cases = (initial residue of 1..3 atoms, history of in-place edits, removals, additions and copies over at most '
                'three objects); the state of every object is compared with the specification after every step')
    run.extra.update({'leaves': total, 'replayed': len(behs)})
    run.assumptions += ['extension beyond the listed properties; not registered in MANIFEST.json']
