"""Sub-process side of the `cli` engine: runs under a given PYTHONHASHSEED.

  python cli_runner.py <jobs.json> <out.json>
jobs: list of {"id", "kind": "discover" | "main", ...}.  Results are written as {id: result}."""
import contextlib
import io
import json
import os
import sys
import traceback
import warnings


def main():
    repo = os.environ.get('VERIF_REPO', '/repo')
    sys.path.insert(0, repo)
    warnings.filterwarnings('ignore')
    import numpy as np
    import gaddlemaps
    from gaddlemaps import _cli
    from gaddlemaps import Alignment
    assert os.path.realpath(gaddlemaps.__file__).startswith(os.path.realpath(repo) + os.sep)
    jobs = json.load(open(sys.argv[1]))
    out = {}
    for j in jobs:
        try:
            if j['kind'] == 'discover':
                with contextlib.redirect_stdout(io.StringIO()):
                    r = _cli.sort_molecules(j['init'], j['files'], j['known'])
                out[j['id']] = {'ok': True, 'result': r}
            else:
                Alignment.STEPS_FACTOR = j.get('steps_factor', 2)
                np.random.seed(j['seed'])
                old = sys.argv
                sys.argv = ['gaddlemaps'] + j['argv']
                if j.get('cwd'):
                    os.chdir(j['cwd'])          # relative file names, as typed in a shell inside the data directory
                try:
                    with contextlib.redirect_stdout(io.StringIO()), contextlib.redirect_stderr(io.StringIO()):
                        _cli.main()
                finally:
                    sys.argv = old
                out[j['id']] = {'ok': True}
        except BaseException as exc:      # SystemExit from argparse included
            out[j['id']] = {'ok': False, 'type': type(exc).__name__, 'text': traceback.format_exc()[-500:]}
    json.dump(out, open(sys.argv[2], 'w'))


if __name__ == '__main__':
    main()
