"""Engine `extrapolate` (C05): system extrapolation conserves molecules, order, numbering, box, title.

spec/Extrapolate.tla models the Manager life cycle (AddEnd / CalcMaps / failing pre-flight / single
writer pass Visit-Skip-Close with a running atom counter); MC_Extrapolate.tla proves FileIsAbs,
PrefixIsAbs, NoFileOnError, ErrorIffNotReady for every file of <= 3 (4) molecules over three loaded
species (references of 3, 2 and 1 atoms) + solvent and every life cycle.  Every terminal behaviour
is executed on a real Manager over files written by the harness; the output is re-read with an
independent fixed-column parser, cut into molecules and validated by TLC (Trace_Extrapolate.tla)
together with random systems of up to 400 molecules and the shipped BMIM/BF4 box.
"""
import contextlib
import io
import json
import os
import random
import re
from multiprocessing import Pool

import numpy as np

from .. import common, tlc, tlaval, synth
from ..traces import validate_batches

MC_CFG = """SPECIFICATION MCSpec
CONSTANTS
  MaxMols = %d
  MaxOps = %d
INVARIANT FileIsAbs
INVARIANT PrefixIsAbs
INVARIANT NoFileOnError
PROPERTY ErrorIffNotReady
CHECK_DEADLOCK FALSE
"""
TRACE_CFG = "SPECIFICATION TraceSpec\nINVARIANT Accepted\nCHECK_DEADLOCK FALSE\n"
HALF = 0.5e-3 + 1e-9


def _tree(rng, n):
    pos = np.zeros((n, 3))
    bonds = []
    for i in range(1, n):
        p = int(rng.integers(0, i))
        v = rng.normal(size=3)
        pos[i] = pos[p] + v / np.linalg.norm(v) * rng.uniform(0.12, 0.3)
        bonds.append((p + 1, i + 1))
    return pos, bonds


def species_def(name, rng, rn, tn, nres):
    """reference (start) and target (end) descriptions of one species; equal residue counts"""
    def split(n):
        cuts = sorted(rng.choice(np.arange(1, n), nres - 1, replace=False)) if nres > 1 else []
        out, r = [], 1
        for i in range(n):
            if cuts and i == cuts[0]:
                cuts.pop(0)
                r += 1
            out.append(r)
        return out
    nres = min(nres, rn, tn)
    rpos, rb = _tree(rng, rn)
    tpos, tb = _tree(rng, tn)
    return {'name': name, 'rn': rn, 'tn': tn, 'nres': nres,
            'rnames': ['%s%d' % (name[0], i + 1) for i in range(rn)], 'rres': split(rn), 'rpos': rpos, 'rb': rb,
            'tnames': ['%sT%d' % (name[0], i + 1) for i in range(tn)], 'tres': split(tn), 'tpos': tpos + rng.normal(size=3) * 0.05, 'tb': tb,
            'resn': ['%s%d' % (name[:2], r + 1) for r in range(nres)]}


FIXED = None


def fixed_species():
    global FIXED
    if FIXED is None:
        rng = np.random.default_rng(20260928)
        FIXED = {'P': species_def('P', rng, 3, 4, 2), 'Q': species_def('Q', rng, 2, 3, 1), 'R': species_def('R', rng, 1, 2, 1),
                 'W': species_def('W', rng, 1, 1, 1)}
    return FIXED


def rot(rng):
    q, _ = np.linalg.qr(rng.normal(size=(3, 3)))
    if np.linalg.det(q) < 0:
        q[:, 0] = -q[:, 0]
    return q


class Sys:
    """an input system written by the harness"""

    def __init__(self, workdir, tag, species, mols, rng, title='extrapolation input', box=(9.0, 9.0, 9.0)):
        os.makedirs(workdir, exist_ok=True)
        self.species, self.mols = species, mols
        self.gro = os.path.join(workdir, tag + '.gro')
        self.title, self.box = title, box
        recs = []
        self.mol_resids = []
        self.mol_pos = []
        nr = rid = 0
        # one system in seven lies where a coordinate fills its column: beyond 1000 nm or below -100 nm (an unwrapped
        # trajectory, a very large box); the fields are legal and carry three decimals like all others
        far = np.array([1100.0, -150.0, 0.0]) * (rng.random(3) < 0.6) if rng.random() < 0.15 else np.zeros(3)
        self.far = far.tolist()
        for sp in mols:
            d = species[sp]
            pos = d['rpos'] @ rot(rng).T + rng.uniform(1.0, 8.0, 3) + far + rng.normal(size=(d['rn'], 3)) * 0.01
            if d['rn'] >= 3 and rng.random() < 0.12:
                # a stretched conformer straight from a lattice builder: all atoms exactly on one line
                step_ = rng.integers(-2, 3, 3).astype(float) * 0.125
                if not step_.any():
                    step_[0] = 0.125
                pos = (rng.uniform(1.0, 8.0, 3) + far) + np.outer(np.arange(d['rn']), step_)
            pos = np.array([[float('%.3f' % v) for v in row] for row in pos])
            rids = []
            last = None
            for i in range(d['rn']):
                if d['rres'][i] != last:
                    rid += int(rng.choice([1, 1, 1, 2, 5]))      # residue numbers with gaps, inside a molecule too
                    rids.append(rid)
                    last = d['rres'][i]
                nr += 1
                recs.append((rid, d['resn'][d['rres'][i] - 1], d['rnames'][i], nr, tuple(pos[i])))
            self.mol_resids.append(rids)
            self.mol_pos.append(pos)
        synth.write_gro(self.gro, recs, box=box, title=title)
        self.itp, self.end = {}, {}
        for sp, d in species.items():
            self.itp[sp] = os.path.join(workdir, '%s_%s_start.itp' % (tag, sp))
            synth.write_itp(self.itp[sp], sp, [(d['rnames'][i], d['resn'][d['rres'][i] - 1], d['rres'][i]) for i in range(d['rn'])], d['rb'])
            self.end[sp] = (workdir, tag, sp)

    def end_molecule(self, sp):
        d = self.species[sp]
        workdir, tag, _ = self.end[sp]
        return synth.make_molecule(os.path.join(workdir, '%s_end_%s' % (tag, sp)), sp, d['tnames'], d['tb'],
                                   np.array([[float('%.3f' % v) for v in row] for row in d['tpos'] + np.array(self.far)]),
                                   residues=[(d['resn'][r - 1], r) for r in d['tres']])


def parse_gro(path):
    """independent fixed-column reader"""
    with open(path) as fh:
        lines = fh.read().split('\n')
    if lines and lines[-1] == '':
        lines.pop()
    title = lines[0]
    declared = int(lines[1])
    recs = []
    for ln in lines[2:-1]:
        recs.append((int(ln[0:5]), ln[5:10].strip(), ln[10:15].strip(), int(ln[15:20]),
                     (float(ln[20:28]), float(ln[28:36]), float(ln[36:44]))))
    box = [float(x) for x in lines[-1].split()]
    return title, declared, recs, box


def compare_positions(d, written, expected, refpos):
    """written molecule against exchange_map(input molecule), to the precision of the format; for references
    of fewer than three atoms up to the rotation left free (C02): distance, axial and radial coordinate"""
    w, e = np.asarray(written), np.asarray(expected)
    if w.shape != e.shape or not np.all(np.isfinite(w)):
        return False
    if d['rn'] >= 3:
        return bool(np.max(np.abs(w - e)) <= HALF)
    tol = np.sqrt(3) * 0.5e-3 + 1e-6
    p0 = refpos[0]
    if d['rn'] == 1:
        return bool(np.max(np.abs(np.linalg.norm(w - p0, axis=1) - np.linalg.norm(e - p0, axis=1))) <= tol)
    u = refpos[1] - p0
    u = u / np.linalg.norm(u)
    for a, b in zip(w - p0, e - p0):
        if abs(a @ u - b @ u) > tol or abs(np.linalg.norm(a - (a @ u) * u) - np.linalg.norm(b - (b @ u) * u)) > tol \
                or abs(np.linalg.norm(a) - np.linalg.norm(b)) > tol:
            return False
    return True


def run_manager(sysm, ops, scale, out, align=None):
    """execute a life cycle on a real Manager -> events"""
    from gaddlemaps import Manager
    loaded = [s for s in sysm.species if s != 'W' and not sysm.species[s].get('unloaded')]
    ev = []
    man = Manager.from_files(sysm.gro, *[sysm.itp[s] for s in loaded if s in set(sysm.mols)])
    present = [s for s in loaded if s in set(sysm.mols)]
    for op, arg in ops:
        if op == 'AddEnd':
            if arg not in present:
                return None, present         # species without instance cannot be loaded: outside this model
            # both documented ways of attaching an end molecule
            if (len(ev) + len(arg)) % 2:
                man.add_end_molecule(sysm.end_molecule(arg))
            else:
                man.molecule_correspondence[arg].end = sysm.end_molecule(arg)
            ev.append({'op': 'AddEnd', 'sp': arg})
        elif op == 'Compare':
            cmpf = out + '.compare.gro'
            if os.path.exists(cmpf):
                os.remove(cmpf)
            man.molecule_correspondence[arg].write_comparative_gro(cmpf)
            ev.append({'op': 'Compare', 'sp': arg, 'written': os.path.exists(cmpf)})
        elif op == 'CalcMaps':
            if align:
                align(man)
            man.calculate_exchange_maps(scale)
            ev.append({'op': 'CalcMaps'})
        else:
            # the output path may already hold the result of an earlier request: a refused request leaves it, and the
            # directory, exactly as they were
            keep_old = os.path.exists(out) and (len(ev) % 2 == 0)
            if os.path.exists(out) and not keep_old:
                os.remove(out)
            before_dir = sorted(os.listdir(os.path.dirname(out)))
            before_bytes = open(out, 'rb').read() if keep_old else None
            if (len(ev) + len(sysm.mols)) % 3 == 0 and os.path.exists('/dev/full') and not keep_old:
                # an earlier attempt whose output device is full (every write to /dev/full fails with ENOSPC): however
                # it ends, the next extrapolation of the same manager writes the file the specification describes
                full = out + '.full.gro'          # a .gro name whose device is full
                if not os.path.islink(full):
                    os.symlink('/dev/full', full)
                try:
                    with contextlib.redirect_stdout(io.StringIO()):
                        man.extrapolate_system(full)
                    ev.append({'op': 'Exception', 'type': 'NoErrorOnFullDevice', 'text': 'extrapolate_system reported success on a full device'})
                except Exception:          # OSError from the device, or the pre-flight refusal this life cycle is about
                    pass
            try:
                with contextlib.redirect_stdout(io.StringIO()), common.caller_state(len(ev) + len(sysm.mols)):
                    man.extrapolate_system(out)
                outcome = 'ok'
            except SystemError:
                outcome = 'error'
            touched = os.path.exists(out)
            if outcome == 'error' and keep_old:
                touched = not (sorted(os.listdir(os.path.dirname(out))) == before_dir and os.path.exists(out)
                               and open(out, 'rb').read() == before_bytes)
            ev.append({'op': 'Extrapolate', 'outcome': outcome, 'file': touched})
            if outcome == 'ok':
                ev += read_back(sysm, man, out)
    return ev, present


def read_back(sysm, man, out):
    title, declared, recs, box = parse_gro(out)
    sysmols = list(man.system)
    # input molecules the System hands out, by their first residue number
    by_resid = {}
    k_of = {}
    for k, rids in enumerate(sysm.mol_resids):
        k_of[rids[0]] = k
    complete = man.complete_correspondence
    inst = {}
    for m in sysmols:
        inst[m.resids[0]] = m
    ev = []
    p = 0
    tgt_names = {s: (sysm.species[s]['tnames'], [sysm.species[s]['resn'][r - 1] for r in sysm.species[s]['tres']]) for s in sysm.species}
    while p < len(recs):
        sp = None
        for s, (names, resn) in tgt_names.items():
            n = len(names)
            if [r[2] for r in recs[p:p + n]] == names and [r[1] for r in recs[p:p + n]] == resn:
                sp = s
                break
        if sp is None:
            ev.append({'op': 'Mol', 'src': 0, 'first': recs[p][3], 'n': 0, 'consecutive': False, 'resids': False, 'pos': False,
                       'why': 'atoms %d.. match no target molecule' % (p + 1)})
            break
        d = sysm.species[sp]
        seg = recs[p:p + d['tn']]
        nrs = [r[3] for r in seg]
        rids = [r[0] for r in seg]
        k = k_of.get(rids[0])
        pos = np.array([r[4] for r in seg])
        if k is None or sysm.mols[k] != sp:
            # residue numbers do not identify the input molecule: identify it by position instead
            best = None
            for kk, s2 in enumerate(sysm.mols):
                if s2 == sp and sysm.mol_resids[kk][0] in inst:
                    e = complete[sp].exchange_map(inst[sysm.mol_resids[kk][0]]).atoms_positions
                    if compare_positions(d, pos, e, sysm.mol_pos[kk]):
                        best = kk
                        break
            k = best
        ok_res = ok_pos = False
        if k is not None:
            want = [sysm.mol_resids[k][r - 1] for r in d['tres']]
            ok_res = rids == want
            m = inst.get(sysm.mol_resids[k][0])
            if m is not None and np.array_equal(m.atoms_positions, sysm.mol_pos[k]):
                e = complete[sp].exchange_map(m).atoms_positions
                ok_pos = compare_positions(d, pos, e, sysm.mol_pos[k])
        ev.append({'op': 'Mol', 'src': (k + 1) if k is not None else 0, 'first': nrs[0], 'n': len(seg),
                   'consecutive': nrs == [(nrs[0] + i_) % 100000 for i_ in range(len(seg))], 'resids': bool(ok_res), 'pos': bool(ok_pos), 'sp': sp})
        p += d['tn']
    want_box = list(sysm.box)
    ev.append({'op': 'Close', 'natoms': declared if declared == len(recs) else -1, 'title': title == sysm.title,
               'box': len(box) == len(want_box) and all(abs(a - b) <= 1e-5 for a, b in zip(box, want_box))})
    return ev


# --------------------------------------------------------------------------- TLC behaviours
def _parse_chunk(blks):
    out = []
    for b in blks:
        st = tlaval.parse_state(b)
        if not (st.get('phase') == 'setup' and st.get('out') == 'closed' and st.get('outcome') == 'ok'):
            continue
        out.append({'mols': list(st['cfg']['mols']), 'ops': [list(o) for o in st['ops']],
                    'written': [[w['src'], w['first'], w['n']] for w in st['written']]})
    return out


def behaviours_from_dump(path, limit, rng):
    with open(path) as fh:
        text = fh.read()
    blks = [b.strip() for b in re.split(r'^State \d+:\s*$', text, flags=re.M)[1:] if 'out = "closed"' in b and 'outcome = "ok"' in b]
    total = len(blks)
    if limit and total > limit:
        rng.shuffle(blks)
        blks = blks[:limit]
    with Pool(16) as pool:
        parts = pool.map(_parse_chunk, [blks[i::16] for i in range(16)])
    return [c for p in parts for c in p], total


def _work_tlc(args):
    behs, part, workdir, seed, tid0 = args
    common.import_repo()
    species = fixed_species()
    bad = []
    skipped = 0
    with open(part, 'w') as fh:
        for i, beh in enumerate(behs):
            rng = np.random.default_rng(seed + i)
            tid = tid0 + i
            wd = os.path.join(workdir, 'p%d' % os.getpid(), 'b%d' % (i % 40))
            try:
                box = (9.0, 9.5, 10.0) if i % 3 else (9.0, 9.5, 10.0, 0.0, 0.0, 1.5, 0.0, 2.0, 2.5)
                sysm = Sys(wd, 'in', species, beh['mols'], rng, title=['extrapolation input', '', 'a b  c ; t= 1.0'][i % 3], box=box)
                ops = [(o[0] if o[0] != 'ExtrapolateErr' else 'Extrapolate', o[1]) for o in beh['ops']]
                if i % 3 == 0:
                    added = [o[1] for o in ops if o[0] == 'AddEnd']
                    if added:
                        ops.insert(len(ops) - 1, ('Compare', added[-1]))
                ev, present = common.guarded(run_manager, 300, sysm, ops, float(rng.choice([0.5, 1.0, 0.2, 1.9])), os.path.join(wd, 'out.gro'))
                if ev is None:
                    skipped += 1
                    continue
                got = [[e['src'], e['first'], e['n']] for e in ev if e['op'] == 'Mol']
                if got != beh['written']:
                    bad.append((beh, {'check': 'extrapolate:written_molecules_differ_from_specification'},
                                {'observed': got[:20], 'expected': beh['written'][:20]}))
            except Exception as exc:
                import traceback
                ev = [{'op': 'Exception', 'type': type(exc).__name__, 'text': traceback.format_exc()[-700:]}]
            fh.write(json.dumps({'tid': tid, 'cfg': {'loaded': [s for s in ('P', 'Q', 'R') if s in beh['mols']], 'tgt': {s: species[s]['tn'] for s in species},
                                                     'mols': beh['mols']},
                                 'meta': {'mode': 'tlc', 'beh': beh, 'seed': seed + i}, 'ev': ev}) + '\n')
    return part, bad, skipped


def _work_random(args):
    items, part, workdir, thorough = args
    common.import_repo()
    with open(part, 'w') as fh:
        for tid, seed in items:
            rng = np.random.default_rng(seed)
            nsp = int(rng.integers(2, 6))
            species = {}
            for s in range(nsp):
                name = 'S%c' % (65 + s)
                rn = int(rng.choice([1, 2, 3, 4, 6, 9]))
                species[name] = species_def(name, rng, rn, int(rng.integers(1, 9)), int(rng.integers(1, 3)))
            unloaded = [s for s in species if rng.random() < 0.2]
            for s in unloaded:
                species[s]['unloaded'] = True
            nm = int(rng.integers(1, 401 if thorough else 121))
            if tid % 150 == 7:
                # an output of more than 100000 atoms (a few coarse molecules with a very fine image): the atom numbers wrap
                # as the five columns of the format demand (..., 99999, 0, 1, ...)
                name = 'S%c' % 65
                species[name] = species_def(name, rng, 2, 25100, 1)
                b36 = '0123456789ABCDEFGHIJKLMNOPQRSTUVWXYZ'
                species[name]['tnames'] = ['T' + b36[i // 46656 % 36] + b36[i // 1296 % 36] + b36[i // 36 % 36] + b36[i % 36] for i in range(25100)]
                species[name]['tpos'] = rng.uniform(-1.5, 1.5, (25100, 3))          # a compact image (names of five characters)
                species[name].pop('unloaded', None)
                unloaded = [s_ for s_ in unloaded if s_ != name]
                nm = max(nm, 12)
            names = list(species)
            block = rng.random() < 0.5
            mols = []
            while len(mols) < nm:
                mols += [names[int(rng.integers(0, nsp))]] * (int(rng.integers(1, 15)) if block else 1)
            mols = mols[:nm]
            if tid % 150 == 7:
                mols = (['SA'] * 4 + mols)[:max(nm, 12)]
            loaded = [s for s in species if s not in unloaded and s in set(mols)]
            with_end = [s for s in loaded if rng.random() < 0.75 or (tid % 150 == 7 and s == 'SA')]
            ops = []
            late = None
            if with_end and rng.random() < 0.3:
                ops.append(('Extrapolate', ''))
            for s in with_end:
                ops.append(('AddEnd', s))
            if with_end and rng.random() < 0.2:
                ops.append(('Extrapolate', ''))
            if with_end and rng.random() < 0.5:
                ops.append(('Compare', with_end[int(rng.integers(0, len(with_end)))]))      # look at the overlap first
            ops.append(('CalcMaps', ''))
            if with_end and rng.random() < 0.3:
                ops.append(('Compare', with_end[0]))
            rest = [s for s in loaded if s not in with_end]
            if rest and rng.random() < 0.3:
                ops += [('Extrapolate', ''), ('AddEnd', rest[0]), ('Extrapolate', ''), ('CalcMaps', '')]
            ops.append(('Extrapolate', ''))
            tric = rng.random() < 0.4
            box = tuple(float('%.5f' % v) for v in rng.uniform(8, 12, 3))
            if tric:
                # any non-empty subset of the three tilt components v2(x), v3(x), v3(y) (a monoclinic cell has only one)
                keep = rng.random(3) < 0.5
                if not keep.any():
                    keep[int(rng.integers(0, 3))] = True
                t3 = [float('%.5f' % rng.uniform(0.5, 3)) * float(rng.choice([-1, 1])) if k_ else 0.0 for k_ in keep]
                box = box + (0.0, 0.0, t3[0], 0.0, t3[1], t3[2])
            title = str(rng.choice(['mapped by gaddle maps', '', ' ', 'Protein in water t=   0.00000', 'x' * 70]))
            wd = os.path.join(workdir, 'p%d' % os.getpid(), 'r%d' % (tid % 40))
            try:
                sysm = Sys(wd, 'in', species, mols, rng, title=title, box=box)
                ev, present = common.guarded(run_manager, 300, sysm, ops, float(rng.uniform(0.05, 2.0)), os.path.join(wd, 'out.gro'))
            except Exception as exc:
                import traceback
                ev = [{'op': 'Exception', 'type': type(exc).__name__, 'text': traceback.format_exc()[-700:]}]
            fh.write(json.dumps({'tid': tid, 'cfg': {'loaded': loaded, 'tgt': {s: species[s]['tn'] for s in species}, 'mols': mols},
                                 'meta': {'mode': 'random', 'seed': seed, 'molecules': nm, 'species': nsp, 'ops': ops,
                                          'title': title, 'triclinic': bool(tric)}, 'ev': ev}) + '\n')
    return part


def shipped_trace(run, part):
    """the shipped BMIM/BF4 box with a real (short) alignment"""
    common.import_repo()
    import gaddlemaps
    from gaddlemaps import Manager, Alignment
    from gaddlemaps.components import Molecule
    D = gaddlemaps.DATA_FILES_PATH
    out = os.path.join(run.scratch, 'mapped_bmimbf4.gro')
    man = Manager.from_files(D['system_bmimbf4_cg.gro'], D['BMIM_CG.itp'], D['BF4_CG.itp'])
    ends = {'BMIM': Molecule.from_files(D['BMIM_AA.gro'], D['BMIM_AA.itp']), 'BF4': Molecule.from_files(D['BF4_AA.gro'], D['BF4_AA.itp'])}
    ev = []
    for s, m in ends.items():
        man.add_end_molecule(m)
        ev.append({'op': 'AddEnd', 'sp': s})
    for ali in man.molecule_correspondence.values():
        ali.STEPS_FACTOR = 3
    np.random.seed(run.seed)
    with contextlib.redirect_stdout(io.StringIO()):
        man.align_molecules()
        man.calculate_exchange_maps(0.5)
        ev.append({'op': 'CalcMaps'})
        man.extrapolate_system(out)
    ev.append({'op': 'Extrapolate', 'outcome': 'ok', 'file': os.path.exists(out)})
    title, declared, recs, box = parse_gro(out)
    ititle, _idecl, irecs, ibox = parse_gro(D['system_bmimbf4_cg.gro'])
    mols = [m.name for m in man.system]
    sysmols = list(man.system)
    p = 0
    k = 0
    for m in sysmols:
        k += 1
        tn = len(ends[m.name])
        seg = recs[p:p + tn]
        e = man.molecule_correspondence[m.name].exchange_map(m)
        pos = np.array([r[4] for r in seg])
        nrs = [r[3] for r in seg]
        ev.append({'op': 'Mol', 'src': k, 'first': nrs[0] if nrs else 0, 'n': len(seg) if [r[2] for r in seg] == [a.name for a in ends[m.name]] else 0,
                   'consecutive': nrs == list(range(nrs[0], nrs[0] + len(seg))) if nrs else False,
                   'resids': [r[0] for r in seg] == [m.resids[0]] * len(seg),
                   'pos': bool(len(seg) == tn and compare_positions({'rn': len(m)}, pos, e.atoms_positions, m.atoms_positions))})
        p += tn
    ev.append({'op': 'Close', 'natoms': declared if (declared == len(recs) and p == len(recs)) else -1, 'title': title == ititle,
               'box': len(box) == len(ibox) and all(abs(a - b) <= 1e-5 for a, b in zip(box, ibox))})
    with open(part, 'w') as fh:
        fh.write(json.dumps({'tid': 99 * 10 ** 6, 'cfg': {'loaded': ['BMIM', 'BF4'], 'tgt': {'BMIM': len(ends['BMIM']), 'BF4': len(ends['BF4'])},
                                                         'mols': mols},
                             'meta': {'mode': 'shipped', 'molecules': len(mols)}, 'ev': ev}) + '\n')
    return part


def check(run):
    common.import_repo()
    quick = run.quick
    bounds = (3, 4) if quick else (4, 5)
    res = tlc.run('MC_Extrapolate', MC_CFG % bounds, run.scratch, workers=16, timeout=3000, dump=True, coverage=True, heap='12g')
    tlc.check_ok(res, 'MC_Extrapolate', need_actions=('Setup', 'MCOpen', 'Write'))
    run.add_tlc(res, 'Extrapolate exhaustive: files of <= %d molecules over P (3-atom reference, two residues), Q (2 atoms), R (1 atom), '
                     'solvent; every life cycle of <= %d set-up operations: FileIsAbs, PrefixIsAbs, NoFileOnError, ErrorIffNotReady' % bounds)
    rng = random.Random(run.seed)
    behs, total = behaviours_from_dump(res.dump_path, 2500 if quick else 40000, rng)
    os.remove(res.dump_path)
    if total < 500:
        raise tlc.TLCError('vacuous Extrapolate run: %d terminal behaviours' % total)
    if total > len(behs):
        run.note('%d of the %d terminal TLC behaviours executed (seeded sample); TLC checked all' % (len(behs), total))
    workdir = os.path.join(run.scratch, 'files')
    jobs = [(behs[i::16], os.path.join(run.scratch, 'ext%d.ndjson' % i), workdir, run.seed * 7919 + 100000 * i, 10 ** 6 * (i + 1))
            for i in range(16) if behs[i::16]]
    with Pool(16) as pool:
        outs = pool.map(_work_tlc, jobs)
    parts = [o[0] for o in outs]
    skipped = sum(o[2] for o in outs)
    for _p, bad, _s in outs:
        for beh, sig, detail in bad:
            run.violation(sig, dict({'engine': 'extrapolate', 'spec': 'MC_Extrapolate', 'behaviour': beh}, **detail))
    nrand = 40 if quick else 600
    items = [(j + 1, run.seed * 1000003 + j) for j in range(nrand)]
    rjobs = [(items[i::16], os.path.join(run.scratch, 'exr%d.ndjson' % i), workdir, not quick) for i in range(16) if items[i::16]]
    with Pool(16) as pool:
        parts += pool.map(_work_random, rjobs)
    parts.append(shipped_trace(run, os.path.join(run.scratch, 'exs.ndjson')))
    traces = {}
    for p in parts:
        with open(p) as fh:
            for line in fh:
                t = json.loads(line)
                traces[t['tid']] = t
    verdicts = validate_batches('Trace_Extrapolate', TRACE_CFG, parts, run.scratch, timeout=3000, run=run, heap='6g')
    nmol = 0
    modes = {}
    for tid, tr in traces.items():
        v = verdicts.get(tid)
        if v is None:
            raise tlc.TLCError('no verdict for trace %r' % tid)
        mode = tr['meta']['mode']
        modes[mode] = modes.get(mode, 0) + 1
        run.case((mode, tr['meta'].get('seed'), json.dumps(tr['meta'].get('beh'))), nontrivial=True)
        run.traces += 1
        nmol += sum(1 for e in tr['ev'] if e['op'] == 'Mol')
        if v[0] == 'ACC':
            continue
        e = tr['ev'][v[2] - 1] if 0 < v[2] <= len(tr['ev']) else {}
        meta = {k: x for k, x in tr['meta'].items() if k != 'beh'}
        run.violation({'check': 'trace:' + v[3], 'mode': mode},
                      {'engine': 'extrapolate', 'spec': 'Trace_Extrapolate', 'failing_clause': v[3], 'event_index': v[2], 'event': e,
                       'meta': meta, 'behaviour': tr['meta'].get('beh'), 'mols': tr['cfg']['mols'][:50]})
    if skipped:
        run.note('%d behaviours attach an end molecule to a species that has no instance in the file (its topology cannot be '
                 'loaded): not executed' % skipped)
    run.samples.append({'behaviour': behs[len(behs) // 2]})
    run.rule = ('cases = (input system, life cycle of AddEnd / CalcMaps / Extrapolate) executed on a real Manager; the written file '
                're-read independently and cut into molecules: TLC behaviours, random systems up to 400 molecules (interleaved / '
                'blocks, unloaded species, species without end, rectangular and triclinic boxes, titles incl. blank, scales), and '
                'the shipped BMIM/BF4 box with a real alignment')
    run.extra.update({'tlc_terminal_behaviours': total, 'executed': len(behs) - skipped, 'random_systems': nrand,
                      'written_molecules_checked': nmol, 'modes': modes})
    run.assumptions += ['reference and target of a species have the same number of residues',
                        'generic (non-collinear) molecule geometry for references of >= 3 atoms',
                        'positions compared to half a unit of the third decimal; references of < 3 atoms: distance / axial / radial '
                        'coordinates (rotation left free, C02)']


def main_c05(run):
    if run.replay:
        run.note('replay re-runs the seeded check')
    check(run)
