"""Parser for TLA+ values as printed by TLC (state dumps, -simulate files, error traces).

Python images:  integers -> int, strings -> str, TRUE/FALSE -> bool, <<..>> -> tuple,
{..} -> frozenset, [a |-> ..] -> dict (str keys), (k :> v @@ ..) -> dict (parsed keys),
model values -> str.  A function whose domain is 1..n is printed by TLC as a tuple.
"""
import re

_TOK = re.compile(r'''\s*(?:
    (?P<int>-?\d+) |
    (?P<str>"(?:[^"\\]|\\.)*") |
    (?P<op><<|>>|\|->|:>|@@|[\[\]{}(),]) |
    (?P<id>[A-Za-z_][A-Za-z0-9_]*)
)''', re.X)


class ParseError(Exception):
    pass


def _tokens(text):
    pos = 0
    n = len(text)
    out = []
    while pos < n:
        m = _TOK.match(text, pos)
        if not m:
            if text[pos:].strip() == '':
                break
            raise ParseError('bad token at %r' % text[pos:pos + 40])
        pos = m.end()
        kind = m.lastgroup
        out.append((kind, m.group(kind)))
    return out


def _unescape(s):
    return s[1:-1].replace('\\"', '"').replace('\\\\', '\\').replace('\\n', '\n').replace('\\t', '\t')


class _P:
    def __init__(self, toks):
        self.t = toks
        self.i = 0

    def peek(self):
        return self.t[self.i] if self.i < len(self.t) else (None, None)

    def eat(self, val=None):
        k, v = self.peek()
        if val is not None and v != val:
            raise ParseError('expected %r got %r' % (val, v))
        self.i += 1
        return k, v

    def value(self):
        k, v = self.peek()
        if k == 'int':
            self.eat()
            return int(v)
        if k == 'str':
            self.eat()
            return _unescape(v)
        if k == 'id':
            self.eat()
            if v == 'TRUE':
                return True
            if v == 'FALSE':
                return False
            return v
        if v == '<<':
            self.eat()
            items = self.seq('>>')
            return tuple(items)
        if v == '{':
            self.eat()
            items = self.seq('}')
            return frozenset(_freeze(x) for x in items)
        if v == '[':
            self.eat()
            d = {}
            if self.peek()[1] == ']':
                self.eat()
                return d
            while True:
                _, name = self.eat()
                self.eat('|->')
                d[name] = self.value()
                _, nxt = self.eat()
                if nxt == ']':
                    break
                if nxt != ',':
                    raise ParseError('record: got %r' % nxt)
            return d
        if v == '(':
            self.eat()
            d = {}
            while True:
                key = self.value()
                self.eat(':>')
                d[_freeze(key)] = self.value()
                _, nxt = self.eat()
                if nxt == ')':
                    break
                if nxt != '@@':
                    raise ParseError('function: got %r' % nxt)
            return d
        raise ParseError('unexpected %r' % (v,))

    def seq(self, close):
        items = []
        if self.peek()[1] == close:
            self.eat()
            return items
        while True:
            items.append(self.value())
            _, nxt = self.eat()
            if nxt == close:
                return items
            if nxt != ',':
                raise ParseError('sequence: got %r' % nxt)


def _freeze(x):
    if isinstance(x, dict):
        return tuple(sorted((k, _freeze(v)) for k, v in x.items()))
    if isinstance(x, (list, tuple)):
        return tuple(_freeze(i) for i in x)
    return x


def parse_value(text):
    p = _P(_tokens(text))
    v = p.value()
    if p.i != len(p.t):
        raise ParseError('trailing tokens')
    return v


_VAR = re.compile(r'^/\\ (\w+) = ', re.M)


def parse_state(block):
    """block: text of one state, conjunction '/\\ var = value' (values may span lines)."""
    out = {}
    ms = list(_VAR.finditer(block))
    if not ms:
        m = re.match(r'\s*(\w+) = ', block)
        if m:
            out[m.group(1)] = parse_value(block[m.end():])
        return out
    for i, m in enumerate(ms):
        end = ms[i + 1].start() if i + 1 < len(ms) else len(block)
        out[m.group(1)] = parse_value(block[m.end():end])
    return out


def parse_dump(path):
    """Yield dicts for every state of a `tlc -dump <file>` plain-text dump."""
    with open(path) as fh:
        text = fh.read()
    for blk in re.split(r'^State \d+:\s*$', text, flags=re.M)[1:]:
        blk = blk.strip()
        if blk:
            yield parse_state(blk)


def parse_sim_file(path):
    """A `tlc -simulate file=...` behaviour file -> list of (action_name, state dict)."""
    with open(path) as fh:
        text = fh.read()
    res = []
    parts = re.split(r'^STATE_\d+ ==\s*$', text, flags=re.M)
    heads = re.findall(r'^\\\* <?(\w+)', text, flags=re.M)
    for i, blk in enumerate(parts[1:]):
        body = blk.split('\n\n')[0]
        act = heads[i] if i < len(heads) else None
        res.append((act, parse_state(body.strip())))
    return res


def to_tla(v):
    """Python value -> TLA+ expression text (inverse of parse_value for the subset we use)."""
    if isinstance(v, bool):
        return 'TRUE' if v else 'FALSE'
    if isinstance(v, int):
        return str(v)
    if isinstance(v, str):
        return '"%s"' % v.replace('\\', '\\\\').replace('"', '\\"')
    if isinstance(v, (list, tuple)):
        return '<<' + ', '.join(to_tla(x) for x in v) + '>>'
    if isinstance(v, (set, frozenset)):
        return '{' + ', '.join(to_tla(x) for x in sorted(v, key=repr)) + '}'
    if isinstance(v, dict):
        if all(isinstance(k, str) and re.match(r'^[A-Za-z_]\w*$', k) for k in v) and v:
            return '[' + ', '.join('%s |-> %s' % (k, to_tla(x)) for k, x in v.items()) + ']'
        if not v:
            return '<<>>'
        return '(' + ' @@ '.join('%s :> %s' % (to_tla(k), to_tla(x)) for k, x in v.items()) + ')'
    raise TypeError(type(v))
