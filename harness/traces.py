"""Batched trace validation: run Trace_* specifications over ndjson trace files with TLC."""
import os
from concurrent.futures import ThreadPoolExecutor

from . import tlc


class Verdicts(dict):
    """tid -> ('ACC', tid) | ('FAIL', tid, event_index, clause); .notes[tid] -> list of NOTE tuples"""

    def __init__(self):
        super().__init__()
        self.notes = {}
        self.states = 0
        self.transitions = 0


def validate_batches(module, cfg_text, parts, scratch, timeout=1800, jobs=8, env=None, run=None,
                     heap='3g'):
    """Validate every trace of every part file.  Verdicts are total: a trace without ACC and
    without FAIL line is a machinery failure (reported by the caller)."""
    out = Verdicts()

    def one(i_part):
        i, part = i_part
        e = {'TRACE_FILE': part}
        if env:
            e.update(env)
        sub = os.path.join(scratch, 'tv_%s_%d' % (module, i))
        return tlc.run(module, cfg_text, sub, workers=1, timeout=timeout, coverage=False, env=e, heap=heap)

    with ThreadPoolExecutor(max_workers=jobs) as ex:
        results = list(ex.map(one, enumerate(parts)))
    for part, res in zip(parts, results):
        if res.error or res.violated:
            raise tlc.TLCError('trace validation of %s failed in TLC itself: %s %s\n%s'
                               % (part, res.violated, res.error, res.stdout[-2000:]))
        out.states += res.distinct
        out.transitions += res.generated
        for v in tlc.printed_values(res.stdout):
            if not isinstance(v, tuple) or not v:
                continue
            if v[0] == 'FAIL':
                # keep the first failing clause at the furthest event
                old = out.get(v[1])
                if old is None or old[0] == 'ACC' or (old[0] == 'FAIL' and v[2] > old[2]):
                    out[v[1]] = v
            elif v[0] == 'ACC':
                if v[1] not in out:
                    out[v[1]] = v
            elif v[0] == 'NOTE':
                out.notes.setdefault(v[1], []).append(v)
    # an accepted trace may also have printed FAIL for a branch that was not taken; ACC wins only
    # if the end of the trace was reached
    if run is not None:
        run.states += out.states
        run.transitions += out.transitions
    return out
