"""The projection: the only numeric code the checks trust (DESIGN 2.3).

Relation tokens between two configurations (arrays of shape (n, 3)) and order ranks of floats.
Nothing here uses gaddlemaps code."""
import numpy as np


def scale_of(*arrays):
    m = 1.0
    for a in arrays:
        a = np.asarray(a, float)
        if a.size and np.all(np.isfinite(a)):
            m = max(m, float(np.max(np.abs(a))))
    return m


def same(a, b):
    a = np.asarray(a)
    b = np.asarray(b)
    return a.shape == b.shape and bool(np.array_equal(a, b))


def finite(a):
    return bool(np.all(np.isfinite(np.asarray(a, float))))


def translated(a, b, tol=1e-11):
    """b = a + constant row vector"""
    a = np.asarray(a, float)
    b = np.asarray(b, float)
    if a.shape != b.shape or not a.size:
        return False
    d = b - a
    return finite(d) and bool(np.max(np.abs(d - d[0])) <= tol * scale_of(a, b))


def pairwise(a):
    a = np.asarray(a, float)
    d = a[:, None, :] - a[None, :, :]
    return np.sqrt((d * d).sum(axis=2))


def distances_kept(a, b, tol=1e-9):
    a = np.asarray(a, float)
    b = np.asarray(b, float)
    if a.shape != b.shape:
        return False
    if len(a) < 2:
        return True
    if not (finite(a) and finite(b)):
        return False
    pa, pb = pairwise(a), pairwise(b)
    return bool(np.max(np.abs(pa - pb)) <= tol * max(1.0, float(pa.max())))


def proper(a, b):
    """True unless b is a mirror image of a (decided only for non-planar point sets)"""
    a = np.asarray(a, float)
    b = np.asarray(b, float)
    ca, cb = a - a.mean(axis=0), b - b.mean(axis=0)
    if len(a) < 4 or np.linalg.matrix_rank(ca, tol=1e-6 * max(1e-300, np.abs(ca).max())) < 3:
        return True
    h = ca.T @ cb
    return bool(np.linalg.det(h) > 0)


def rotated_about_centroid(a, b, tol=1e-9):
    """same centroid, all pairwise distances equal, not mirrored"""
    a = np.asarray(a, float)
    b = np.asarray(b, float)
    if a.shape != b.shape or not a.size:
        return False
    if np.max(np.abs(a.mean(axis=0) - b.mean(axis=0))) > tol * scale_of(a, b):
        return False
    return distances_kept(a, b, tol) and proper(a, b)


def rigid(a, b, tol=1e-9):
    return distances_kept(a, b, tol) and proper(a, b)


def bonds_kept(pos, table, tol=1e-9):
    """every bond of table {i: [(j, length), ...]} has its tabulated length"""
    pos = np.asarray(pos, float)
    for i, lst in table.items():
        for j, length in lst:
            if not abs(float(np.linalg.norm(pos[i] - pos[j])) - length) <= tol * max(1.0, abs(length)):
                return False
    return True


def max_bond_error(pos, table):
    pos = np.asarray(pos, float)
    err = 0.0
    for i, lst in table.items():
        for j, length in lst:
            err = max(err, abs(float(np.linalg.norm(pos[i] - pos[j])) - length))
    return err


def ranks(values):
    """dense order ranks (1-based) of a list of floats; exact equality -> equal rank"""
    uniq = sorted(set(values))
    idx = {v: i + 1 for i, v in enumerate(uniq)}
    return [idx[v] for v in values], idx


class Interner:
    """configuration -> small integer token (bit-exact)"""

    def __init__(self):
        self.tab = {}

    def __call__(self, arr):
        k = np.ascontiguousarray(np.asarray(arr, float)).tobytes()
        t = self.tab.get(k)
        if t is None:
            t = len(self.tab) + 1
            self.tab[k] = t
        return t
