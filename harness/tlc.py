"""Thin runner around TLC: invocation, stats, coverage, PrintT payloads, dumps."""
import os
import re
import shutil
import subprocess
import time

from . import tlaval

SPEC_DIR = os.path.join(os.path.dirname(os.path.dirname(os.path.abspath(__file__))), 'spec')
JAR = '/opt/veriftools/tla/tla2tools.jar:/opt/veriftools/tla/CommunityModules-deps.jar'


class TLCError(Exception):
    """Machinery failure (TLC crashed, parse error, time-out, vacuous coverage)."""


class TLCResult:
    def __init__(self):
        self.stdout = ''
        self.rc = None
        self.generated = 0
        self.distinct = 0
        self.depth = 0
        self.coverage = {}      # action name -> (distinct, generated)
        self.violated = None    # name of violated invariant / property, if any
        self.error = None       # other error text
        self.wall = 0.0
        self.dump_path = None
        self.printed = []       # parsed PrintT values

    @property
    def ok(self):
        return self.violated is None and self.error is None


_RE_STATS = re.compile(r'(\d+) states generated, (\d+) distinct states found')
_RE_DEPTH = re.compile(r'The depth of the complete state graph search is (\d+)')
_RE_COV = re.compile(r'^<(\w+) line \d+, col \d+ to line \d+, col \d+ of module (\w+)(?: \((\d+) \d+ \d+ \d+\))?>: (\d+):(\d+)', re.M)
_RE_INV = re.compile(r'Error: Invariant (\w+) is violated')
_RE_PROP = re.compile(r'Error: (?:Action|Temporal) propert(?:y|ies) (\w+)? ?(?:is|were) violated')


def _die_with_parent():
    """the model checker must not outlive a check that is killed from outside (an outer `timeout`, a stopped job)"""
    try:
        import ctypes
        import signal
        ctypes.CDLL('libc.so.6', use_errno=True).prctl(1, signal.SIGKILL)      # PR_SET_PDEATHSIG
    except Exception:
        pass


def run(module, cfg, scratch, *, workers=16, timeout=900, coverage=True, dump=False,
        simulate=None, depth=None, seed=None, env=None, deadlock=None, extra=(), heap='8g',
        dfs=False, tool_opts='', spec_dir=None):
    """Run TLC on spec/<module>.tla with config `cfg` (path, or cfg text).

    scratch: directory for metadir / dump / generated cfg (caller removes it).
    Returns TLCResult; raises TLCError for machinery failures (time-out, crash).
    """
    os.makedirs(scratch, exist_ok=True)
    tag = '%s_%d' % (module, int(time.time() * 1000) % 10 ** 9)
    meta = os.path.join(scratch, 'meta_' + tag)
    if os.path.exists(cfg) if isinstance(cfg, str) and '\n' not in cfg else False:
        cfg_path = cfg
    else:
        cfg_path = os.path.join(scratch, tag + '.cfg')
        with open(cfg_path, 'w') as fh:
            fh.write(cfg)
    cmd = ['java', '-XX:+UseParallelGC', '-Xmx' + heap, '-Xss64m', '-Djava.io.tmpdir=' + scratch]
    if dfs:
        cmd.append('-Dtlc2.tool.queue.IStateQueue=StateDeque')
    cmd += ['-cp', JAR, 'tlc2.TLC', '-workers', str(workers), '-metadir', meta,
            '-noGenerateSpecTE', '-config', cfg_path]
    if coverage and simulate is None:
        cmd += ['-coverage', '1']
    res = TLCResult()
    if dump:
        res.dump_path = os.path.join(scratch, tag + '.dump')
        cmd += ['-dump', res.dump_path]
    if simulate is not None:
        cmd += ['-simulate', simulate]
    if depth is not None:
        cmd += ['-depth', str(depth)]
    if seed is not None:
        cmd += ['-seed', str(seed)]
    if deadlock is False:
        cmd += ['-deadlock']
    cmd += list(extra)
    cmd.append(os.path.join(spec_dir or SPEC_DIR, module + '.tla'))
    e = dict(os.environ)
    if env:
        e.update({k: str(v) for k, v in env.items()})
    e.pop('JAVA_TOOL_OPTIONS', None)
    t0 = time.time()
    try:
        p = subprocess.run(cmd, cwd=scratch, env=e, stdout=subprocess.PIPE, stderr=subprocess.STDOUT,
                           timeout=timeout, text=True, errors='replace', preexec_fn=_die_with_parent)
    except subprocess.TimeoutExpired:
        subprocess.run(['pkill', '-f', meta], check=False)
        raise TLCError('TLC timed out after %ss on %s' % (timeout, module))
    res.wall = time.time() - t0
    res.stdout = p.stdout
    res.rc = p.returncode
    ms = _RE_STATS.findall(p.stdout)
    if ms:
        res.generated, res.distinct = int(ms[-1][0]), int(ms[-1][1])
    m = _RE_DEPTH.search(p.stdout)
    if m:
        res.depth = int(m.group(1))
    for name, _mod, sub, dist, gen in _RE_COV.findall(p.stdout):
        if sub:
            name = '%s@%s' % (name, sub)     # a disjunct of a named action, by its line
        a, b = res.coverage.get(name, (0, 0))
        res.coverage[name] = (a + int(dist), b + int(gen))
    m = _RE_INV.search(p.stdout)
    if m:
        res.violated = m.group(1)
    elif 'is violated' in p.stdout or 'violated.' in p.stdout:
        m2 = re.search(r'Error: (.*violated.*)', p.stdout)
        res.violated = m2.group(1) if m2 else 'property'
    if res.violated is None and p.returncode != 0:
        m3 = re.search(r'Error: (.*(?:\n(?!\s*$).*){0,12})', p.stdout)
        res.error = (m3.group(1) if m3 else p.stdout[-1500:]).strip()
    if simulate is None and res.violated is None and res.error is None and not ms:
        res.error = 'no statistics line in TLC output:\n' + p.stdout[-1500:]
    shutil.rmtree(meta, ignore_errors=True)
    return res


def check_ok(res, what, need_actions=()):
    """Raise TLCError unless the model-checking run succeeded non-vacuously."""
    if res.violated:
        raise TLCError('%s: the SPECIFICATION itself violates %s (model error)\n%s'
                       % (what, res.violated, res.stdout[-3000:]))
    if res.error:
        raise TLCError('%s: TLC failed: %s' % (what, res.error))
    for a in need_actions:
        if sum(v[1] for k, v in res.coverage.items() if k == a or k.startswith(a + '@')) == 0:
            raise TLCError('%s: action %s never taken (vacuous model run); coverage=%r'
                           % (what, a, res.coverage))
    return res


def _value_end(text, pos):
    """end offset of the TLA+ value starting at pos (bracket matching, strings respected)"""
    depth = 0
    i = pos
    n = len(text)
    while i < n:
        c = text[i]
        if c == '"':
            i += 1
            while i < n and text[i] != '"':
                i += 2 if text[i] == '\\' else 1
        elif c in '<[{(':
            if c == '<':
                if text[i:i + 2] == '<<':
                    depth += 1
                    i += 1
            else:
                depth += 1
        elif c in '>]})':
            if c == '>':
                if text[i:i + 2] == '>>':
                    depth -= 1
                    i += 1
            else:
                depth -= 1
            if depth == 0:
                return i + 1
        i += 1
    return n


_RE_PRINT_START = re.compile(r'^<< ?"(\w+)"', re.M)


def printed_values(stdout, prefix=None):
    """PrintT payloads of the form <<"TAG", ...>> (possibly pretty-printed over several lines;
    -workers 1).  Values are TLA+ text -> python."""
    out = []
    pos = 0
    while True:
        m = _RE_PRINT_START.search(stdout, pos)
        if not m:
            break
        if prefix is not None and m.group(1) != prefix:
            pos = m.end()
            continue
        end = _value_end(stdout, m.start())
        try:
            out.append(tlaval.parse_value(stdout[m.start():end]))
        except tlaval.ParseError:
            pass
        pos = end
    return out


def sany(module):
    p = subprocess.run(['java', '-cp', JAR, 'tla2sany.SANY', os.path.join(SPEC_DIR, module + '.tla')],
                       cwd=SPEC_DIR, stdout=subprocess.PIPE, stderr=subprocess.STDOUT, text=True)
    ok = p.returncode == 0 and 'Semantic errors' not in p.stdout and 'Parse Error' not in p.stdout \
        and 'Fatal errors' not in p.stdout
    return ok, p.stdout
