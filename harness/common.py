"""Shared machinery of the checks: repo import, scratch, verdicts, known findings, evidence."""
import hashlib
import json
import os
import shutil
import subprocess
import sys
import tempfile
import time
import traceback

VERIF = os.path.dirname(os.path.dirname(os.path.abspath(__file__)))
REPO = os.environ.get('VERIF_REPO', '/repo')
KNOWN = os.path.join(VERIF, 'known_findings.json')
EVIDENCE_SCHEMA = '/root/.vp/EVIDENCE.schema.json'


def import_repo():
    """Import gaddlemaps from the working tree under test (never an installed copy)."""
    if REPO not in sys.path[:1]:
        sys.path.insert(0, REPO)
    import warnings
    warnings.filterwarnings('ignore')
    import gaddlemaps
    here = os.path.realpath(gaddlemaps.__file__)
    if not here.startswith(os.path.realpath(REPO) + os.sep):
        raise MachineryError('gaddlemaps imported from %s, not from %s' % (here, REPO))
    from gaddlemaps import _backend
    if _backend.check_backend_installed():
        raise MachineryError('compiled backend present: out of scope (DESIGN 7)')
    return gaddlemaps


class MachineryError(Exception):
    pass


def _sig_match(entry_sig, sig):
    return all(sig.get(k) == v for k, v in entry_sig.items())


class Run:
    """One execution of one property's check."""

    def __init__(self, pid, tier='quick', seed=0, level='model_checking', replay=None):
        self.pid = pid
        self.tier = tier
        self.seed = seed
        self.level = level
        self.replay = replay
        self.t0 = time.time()
        self.scratch = tempfile.mkdtemp(prefix='verif_%s_' % pid)
        self.states = 0
        self.transitions = 0
        self.traces = 0
        self.evaluations = 0
        self._distinct = set()
        self.samples = []
        self.violations = []
        self.known_hits = {}
        self.notes = []
        self.assumptions = []
        self.extra = {}
        self.rule = ''
        self.tlc_runs = []
        try:
            with open(KNOWN) as fh:
                self.known = [e for e in json.load(fh)['findings'] if e['property'] == pid]
        except FileNotFoundError:
            self.known = []
        self.replay_dir = os.path.join(VERIF, 'out', 'replays' if os.path.realpath(REPO) == '/repo' else 'replays_alt_' + os.path.basename(os.path.realpath(REPO)), pid)
        if replay is None:
            shutil.rmtree(self.replay_dir, ignore_errors=True)
        os.makedirs(self.replay_dir, exist_ok=True)

    @property
    def quick(self):
        return self.tier == 'quick'

    # ---- accounting -------------------------------------------------------------------
    def add_tlc(self, res, what):
        self.states += res.distinct
        self.transitions += res.generated
        self.tlc_runs.append({'what': what, 'distinct': res.distinct, 'generated': res.generated,
                              'depth': res.depth, 'wall_s': round(res.wall, 2),
                              'coverage': {k: v[1] for k, v in res.coverage.items()}})

    def case(self, key, nontrivial=True, sample=None):
        """Count one explored case; `key` identifies it for the distinct count."""
        self.evaluations += 1
        if nontrivial:
            h = hashlib.blake2b(repr(key).encode(), digest_size=8).digest()
            self._distinct.add(h)
        if sample is not None and len(self.samples) < 6:
            self.samples.append(sample)

    def note(self, text):
        if text not in self.notes and len(self.notes) < 50:
            self.notes.append(text)

    # ---- verdicts ---------------------------------------------------------------------
    def violation(self, signature, record):
        """Report a property violation.  signature: small dict used only for known-finding
        matching; record: everything needed to replay."""
        for e in self.known:
            if e.get('status') == 'known' and _sig_match(e['signature'], signature):
                k = e['id']
                self.known_hits[k] = self.known_hits.get(k, 0) + 1
                return False
        n = len(self.violations) + 1
        if n <= 20:
            path = os.path.join(self.replay_dir, '%d.json' % n)
            rec = {'property': self.pid, 'signature': signature, 'seed': self.seed, 'tier': self.tier}
            rec.update(record)
            with open(path, 'w') as fh:
                json.dump(rec, fh, indent=1, default=_jsonable)
            print('VIOLATION property=%s replay=%s' % (self.pid, path), flush=True)
            print('  signature=%s' % json.dumps(signature, default=_jsonable, sort_keys=True)[:300], flush=True)
        self.violations.append(signature)
        return True

    def finish(self):
        wall = time.time() - self.t0
        for e in self.known:
            if e.get('status') == 'known' and self.known_hits.get(e['id']):
                print('KNOWN-FINDING: property=%s %s (%d occurrences in this run)'
                      % (self.pid, e['what'], self.known_hits[e['id']]), flush=True)
        cov = {
            'states': self.states, 'transitions': self.transitions,
            'traces_validated_against_impl': self.traces,
            'evaluations': self.evaluations, 'distinct_nontrivial': len(self._distinct),
            'rule': self.rule, 'samples': self.samples or ['(none)'],
            'tlc_runs': self.tlc_runs, 'notes': self.notes,
            'known_findings_hit': self.known_hits,
        }
        cov.update(self.extra)
        ev = {'property_id': self.pid, 'tier': self.tier, 'seed': self.seed, 'level': self.level,
              'coverage': cov, 'assumptions': self.assumptions, 'wall_s': round(wall, 2),
              'violations': len(self.violations)}
        if self.replay is None:
            evdir = 'evidence' if os.path.realpath(REPO) == '/repo' else os.path.join('out', 'evidence_alt')
            if self.pid.startswith('X'):
                # extension engines (not listed properties): evidence kept apart from the per-property files
                evdir = os.path.join('out', 'evidence_ext')
            path = os.path.join(VERIF, evdir, '%s.json' % self.pid)
            os.makedirs(os.path.dirname(path), exist_ok=True)
            with open(path, 'w') as fh:
                json.dump(ev, fh, indent=1, default=_jsonable)
            validate_evidence(path)
        if self.violations:
            hist = {}
            for sg in self.violations:
                k = json.dumps(sg, sort_keys=True, default=_jsonable)
                hist[k] = hist.get(k, 0) + 1
            for k, n in sorted(hist.items(), key=lambda kv: -kv[1])[:15]:
                print('  %5d x %s' % (n, k[:260]), flush=True)
        shutil.rmtree(self.scratch, ignore_errors=True)
        print('%s %s: states=%d transitions=%d traces=%d evaluations=%d distinct=%d violations=%d known=%d wall=%.1fs'
              % (self.pid, self.tier, self.states, self.transitions, self.traces, self.evaluations,
                 len(self._distinct), len(self.violations), sum(self.known_hits.values()), wall), flush=True)
        return 1 if self.violations else 0

    def abort(self):
        shutil.rmtree(self.scratch, ignore_errors=True)


def _jsonable(o):
    try:
        import numpy as np
        if isinstance(o, np.ndarray):
            return o.tolist()
        if isinstance(o, np.generic):
            return o.item()
    except ImportError:
        pass
    if isinstance(o, (set, frozenset)):
        return sorted(o, key=repr)
    if isinstance(o, bytes):
        return o.decode('latin1')
    if isinstance(o, tuple):
        return list(o)
    return repr(o)


def validate_evidence(path):
    """Validate against the official schema with jsonschema from the tooling venv if it exists;
    otherwise a structural fallback."""
    with open(path) as fh:
        ev = json.load(fh)
    for k in ('property_id', 'tier', 'seed', 'level', 'coverage', 'wall_s'):
        if k not in ev:
            raise MachineryError('evidence lacks %s' % k)
    c = ev['coverage']
    if ev['level'] == 'model_checking':
        if not (c.get('states', 0) >= 1 and c.get('transitions', 0) >= 1 and c.get('samples')):
            raise MachineryError('model_checking evidence needs states/transitions/samples >= 1')
    py = shutil.which('python3-vt')
    if py and os.path.exists(EVIDENCE_SCHEMA):
        code = ('import json,sys,jsonschema;'
                'jsonschema.validate(json.load(open(sys.argv[1])), json.load(open(sys.argv[2])))')
        p = subprocess.run([py, '-c', code, path, EVIDENCE_SCHEMA], stdout=subprocess.PIPE,
                           stderr=subprocess.STDOUT, text=True)
        if p.returncode != 0:
            raise MachineryError('evidence does not validate: ' + p.stdout[-800:])


class CaseTimeout(Exception):
    """the code under test did not return within the time limit"""


class time_limit:
    """with time_limit(s): ... raises CaseTimeout in the calling (worker) process if the body runs longer: a call of
    the code under test that never returns becomes an observation instead of hanging the check"""

    def __init__(self, seconds):
        self.seconds = int(seconds)

    def __enter__(self):
        import signal

        def handler(signum, frame):
            raise CaseTimeout('no result within %d s' % self.seconds)
        self.old = signal.signal(signal.SIGALRM, handler)
        signal.alarm(self.seconds)

    def __exit__(self, *exc):
        import signal
        signal.alarm(0)
        signal.signal(signal.SIGALRM, self.old)
        return False


class Guard(time_limit):
    """time_limit for one case in a worker; after two cases of this worker that did not terminate the remaining ones
    are not run (each raises CaseTimeout at once), so a change that makes the code loop forever is reported in
    seconds instead of hanging the check"""
    count = 0

    def __enter__(self):
        if Guard.count >= 2:
            raise CaseTimeout('not run: earlier cases of this worker did not terminate')
        return super().__enter__()

    def __exit__(self, et, ev, tb):
        super().__exit__(et, ev, tb)
        if et is not None and issubclass(et, CaseTimeout):
            Guard.count += 1
        return False


def guarded(fn, seconds, *a, **k):
    """fn(*a, **k) under a Guard"""
    with Guard(seconds):
        return fn(*a, **k)


def main_wrapper(fn, pid, argv):
    """Common CLI: --tier quick|thorough, --replay file.  Exit 0/1, 2 for machinery failure."""
    import argparse
    ap = argparse.ArgumentParser()
    ap.add_argument('--tier', default=os.environ.get('VERIF_TIER', 'quick'))
    ap.add_argument('--replay')
    a = ap.parse_args(argv)
    seed = int(os.environ.get('VERIF_SEED', '0') or 0)
    run = Run(pid, a.tier, seed, replay=a.replay)
    try:
        fn(run)
        rc = run.finish()
    except Exception:
        traceback.print_exc()
        if run.violations:
            # violations already established stand; the later machinery problem is reported, not hidden
            print('MACHINERY-PROBLEM after %d violations were found (violations are reported)'
                  % len(run.violations), flush=True)
            try:
                rc = run.finish()
            except Exception:
                traceback.print_exc()
                rc = 1
        else:
            print('MACHINERY-FAILURE property=%s (exit 2; not a verdict about the code)' % pid, flush=True)
            run.abort()
            rc = 2
    sys.exit(rc)


# ---------------------------------------------------------------------------- caller-side interpreter state
import contextlib as _contextlib


@_contextlib.contextmanager
def caller_state(kind):
    """Interpreter-wide settings a caller may legitimately have in force while it uses the library; results must not
    depend on them.  kind 0: the defaults.  kind 1: strict - floating-point 'invalid' / 'divide' raise, RuntimeWarning and
    DeprecationWarning are errors.  kind 2: lax - all floating-point events ignored, every warning ignored, short numpy
    print threshold, a recursion limit only ~150 frames above the current depth."""
    import sys
    import warnings
    import numpy as np
    if kind % 3 == 0:
        yield
        return
    if kind % 3 == 1:
        with np.errstate(divide='raise', invalid='raise'), warnings.catch_warnings():
            warnings.simplefilter('error', RuntimeWarning)
            warnings.simplefilter('error', DeprecationWarning)
            yield
        return
    depth = 0
    f = sys._getframe()
    while f is not None:
        depth += 1
        f = f.f_back
    old = sys.getrecursionlimit()
    with np.errstate(all='ignore'), warnings.catch_warnings(), np.printoptions(threshold=3, edgeitems=1, precision=2):
        warnings.simplefilter('ignore')
        sys.setrecursionlimit(depth + 150)
        try:
            yield
        finally:
            sys.setrecursionlimit(old)
