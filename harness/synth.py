"""Synthetic species: independent writers for .itp / .gro files and builders for real objects.

The writers below do not use any gaddlemaps code (they are also the independent oracle for file
contents); the builders go through the real parsers (Molecule.from_files, System, Manager)."""
import os


def write_itp(path, name, atoms, bonds, extra_sections=()):
    """atoms: list of (atomname, resname, resid); bonds: iterable of (i, j), 1-based atom numbers."""
    with open(path, 'w') as fh:
        fh.write('; synthetic topology\n[ moleculetype ]\n; name nrexcl\n%s 1\n\n[ atoms ]\n' % name)
        for i, (an, rn, rid) in enumerate(atoms, 1):
            fh.write('%5d %4s %5d %5s %5s %5d %8.3f %8.3f\n' % (i, 'X', rid, rn, an, i, 0.0, 12.0))
        if bonds:
            fh.write('\n[ bonds ]\n')
            for (i, j) in bonds:
                fh.write('%5d %5d 1 0.100 1000.0\n' % (i, j))
        for sec, lines in extra_sections:
            fh.write('\n[ %s ]\n' % sec)
            for ln in lines:
                fh.write(ln + '\n')


def gro_line(resid, resname, name, nr, pos, vel=None, dec=3):
    w = dec + 5
    s = '%5d%-5s%5s%5d' % (resid % 100000, resname, name, nr % 100000)
    s += ''.join('%*.*f' % (w, dec, x) for x in pos)
    if vel is not None:
        s += ''.join('%*.*f' % (w, dec + 1, x) for x in vel)
    return s


def write_gro(path, records, box=(10.0, 10.0, 10.0), title='synthetic system', dec=3, newline=None):
    """records: list of (resid, resname, atomname, nr, (x, y, z)[, (vx, vy, vz)]); newline='\\r\\n' writes DOS line ends"""
    with open(path, 'w', newline=newline) as fh:
        fh.write(title + '\n')
        fh.write('%5d\n' % len(records))
        for r in records:
            fh.write(gro_line(r[0], r[1], r[2], r[3], r[4], r[5] if len(r) > 5 else None, dec) + '\n')
        if len(box) == 3:
            fh.write(' '.join('%9.5f' % x for x in box) + '\n')
        else:
            fh.write(' '.join('%9.5f' % x for x in box) + '\n')


def make_molecule(workdir, name, atom_names, bonds, positions, resname=None, resid=1, residues=None):
    """A real Molecule built through the real parsers.
    residues: optional list of (resname, resid) per atom (multi-residue molecules)."""
    from gaddlemaps.components import Molecule
    os.makedirs(workdir, exist_ok=True)
    rn = resname or name[:5]
    if residues is None:
        residues = [(rn, resid)] * len(atom_names)
    itp = os.path.join(workdir, name + '.itp')
    gro = os.path.join(workdir, name + '.gro')
    write_itp(itp, name, [(an, r[0], r[1]) for an, r in zip(atom_names, residues)], bonds)
    write_gro(gro, [(r[1], r[0], an, i + 1, tuple(p))
                    for i, (an, r, p) in enumerate(zip(atom_names, residues, positions))])
    return Molecule.from_files(gro, itp)
